#!/usr/bin/env python3
"""Confirm a seeded defect produced by a sub-agent and run the registered check against it.

  python3 tools/seeded.py confirm <PROP> <src_dir> <name>     # e.g. confirm C05 /tmp/wt/out/C05/1 C05-1
      1. scratch worktree of /repo HEAD under /tmp/wt/confirm-<name>
      2. demo exits 0 without the patch
      3. patch applies; existing test suite passes (59) with it; demo exits non-zero with it
      4. stores seeded/<name>/{patch.diff,demo.*,README.md,meta.json}
  python3 tools/seeded.py run <name> [--tier quick]            # apply to /repo, run the check, undo
  python3 tools/seeded.py runall
"""
import json
import os
import shutil
import subprocess
import sys
import time
from pathlib import Path

VERIF = Path(__file__).resolve().parents[1]
SEEDED = VERIF / "seeded"
WTPY = VERIF / "tools" / "wtpy"


def sh(cmd, **kw):
    return subprocess.run(cmd, shell=isinstance(cmd, str), capture_output=True, text=True, **kw)


def confirm(prop, src, name):
    src = Path(src)
    wt = Path(f"/tmp/wt/confirm-{name}")
    if wt.exists():
        sh(f"git -C /repo worktree remove --force {wt}")
    r = sh(f"git -C /repo worktree add -f {wt} HEAD")
    assert r.returncode == 0, r.stderr
    meta = {"property": prop, "name": name, "source_dir": str(src), "repo_head": sh("git -C /repo rev-parse HEAD").stdout.strip(),
            "confirmed_at": time.strftime("%Y-%m-%d %H:%M:%S")}
    try:
        demo_cmd = None
        if (src / "run.sh").exists():
            demo_cmd = f"bash {src / 'run.sh'} {wt}"             # C++ demo: build + run wrapper (a demo.py next to it only forwards to it)
        elif (src / "demo.py").exists():
            shutil.copy(src / "demo.py", wt / "demo.py")
            demo_cmd = f"{WTPY} {wt} demo.py"
        elif (src / "run.sh").exists():
            demo_cmd = f"bash {src / 'run.sh'} {wt}"             # build + run wrapper (added when build.sh only builds)
        elif (src / "build.sh").exists():
            demo_cmd = f"bash {src / 'build.sh'} {wt}"          # C++ demo: compiles the worktree's header standalone
        assert demo_cmd, "no demo"
        r0 = sh(demo_cmd, timeout=1800)
        meta["demo_exit_without_patch"] = r0.returncode
        ap = sh(f"git -C {wt} apply {src/'patch.diff'}")
        meta["patch_applies"] = ap.returncode == 0
        assert ap.returncode == 0, ap.stderr
        t = sh(f"{WTPY} {wt} -m pytest -q -p no:cacheprovider --timeout=900 tests --deselect tests/test_docs.py::test_mkdocs_build", timeout=3000)
        tail = t.stdout.strip().splitlines()[-1] if t.stdout.strip() else t.stderr[-300:]
        meta["tests_with_patch"] = tail
        r1 = sh(demo_cmd, timeout=1800)
        meta["demo_exit_with_patch"] = r1.returncode
        meta["demo_output_with_patch_tail"] = (r1.stdout + r1.stderr)[-1500:]
        ok = (r0.returncode == 0 and r1.returncode != 0 and "passed" in tail and "failed" not in tail and "error" not in tail.lower())
        meta["confirmed"] = bool(ok)
    finally:
        sh(f"git -C /repo worktree remove --force {wt}")
    out = SEEDED / name
    out.mkdir(parents=True, exist_ok=True)
    for p in src.iterdir():
        if p.is_file() and p.stat().st_size < 200_000:
            shutil.copy(p, out / p.name)
        elif p.is_dir():
            shutil.copytree(p, out / p.name, dirs_exist_ok=True)
    readme = (src / "README.md").read_text() if (src / "README.md").exists() else ""
    meta["needs_to_manifest"] = readme[:1500]
    (out / "meta.json").write_text(json.dumps(meta, indent=1))
    print(json.dumps({k: v for k, v in meta.items() if k not in ("needs_to_manifest", "demo_output_with_patch_tail")}, indent=1))
    return meta["confirmed"]


def run(name, tier="quick"):
    d = SEEDED / name
    meta = json.loads((d / "meta.json").read_text())
    prop = meta["property"]
    st = sh("git -C /repo status --porcelain --untracked-files=no").stdout.strip()
    assert not st, f"/repo not clean: {st}"
    ap = sh(f"git -C /repo apply {d/'patch.diff'}")
    if ap.returncode != 0:
        print("patch does not apply to /repo HEAD:", ap.stderr)
        meta.setdefault("runs", []).append({"tier": tier, "result": "patch-does-not-apply", "head": sh("git -C /repo rev-parse --short HEAD").stdout.strip()})
        (d / "meta.json").write_text(json.dumps(meta, indent=1))
        return None
    try:
        t0 = time.time()
        r = sh(f"python3 tools/run.py check {prop} --tier {tier}", cwd=str(VERIF), timeout=7200)
        lines = [l for l in r.stdout.splitlines() if l.startswith(("VIOLATION", "KNOWN-FINDING", "INFRA"))]
        res = {"tier": tier, "exit": r.returncode, "lines": lines[:5], "wall_s": round(time.time() - t0, 1),
               "head": sh("git -C /repo rev-parse --short HEAD").stdout.strip(), "detected": r.returncode == 1}
        # attach the first replay's summary
        for l in lines:
            if l.startswith("VIOLATION"):
                rp = l.split("replay=")[1].split()[0]
                try:
                    pl = json.loads((VERIF / rp).read_text())
                    res["replay_kind"] = pl.get("kind")
                    res["replay_what"] = pl.get("what") or pl.get("obligation")
                    res["replay_input"] = pl.get("input")
                except Exception:
                    pass
                break
        print(json.dumps(res, indent=1, default=str))
        if r.returncode not in (0, 1):
            print(r.stdout[-3000:], r.stderr[-3000:])
    finally:
        sh("git -C /repo checkout -- .")
    meta["runs"] = [x for x in meta.get("runs", []) if x.get("tier") != tier] + [res]
    (d / "meta.json").write_text(json.dumps(meta, indent=1, default=str))
    return res


if __name__ == "__main__":
    a = sys.argv[1:]
    if a[0] == "confirm":
        sys.exit(0 if confirm(a[1], a[2], a[3]) else 1)
    if a[0] == "run":
        tier = a[a.index("--tier") + 1] if "--tier" in a else "quick"
        r = run(a[1], tier)
        sys.exit(0 if r and r["detected"] else 1)
    if a[0] == "runall":
        for d in sorted(SEEDED.iterdir()):
            if (d / "meta.json").exists():
                print("==", d.name)
                run(d.name)
