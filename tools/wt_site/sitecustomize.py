import sys
sys.meta_path[:] = [f for f in sys.meta_path if "ScikitBuild" not in type(f).__name__]
sys.path[:] = [p for p in sys.path if p.rstrip("/") != "/repo/src"]
