#!/usr/bin/env python3
"""Regenerates MANIFEST.json from the table below (single source of truth for what is claimed)."""
import json
from pathlib import Path

VERIF = Path(__file__).resolve().parents[1]

# property -> dict(category, text, note, technique, design_ref) ; absent => not_applicable(reason)
CLAIMED: dict[str, dict] = {}
NOT_YET: dict[str, str] = {}

ALL = [f"C{i:02d}" for i in range(1, 19)]


def claim(pid, category, text, note, technique, ref):
    CLAIMED[pid] = dict(category=category, text=text, note=note, technique=technique, ref=ref)


# ---- claims (kept in sync with tools/checks/*.py) ------------------------------------------------
try:
    from claims import register, register_r4  # type: ignore
    register(claim)
    register_r4(CLAIMED)
except ImportError:
    pass


def main():
    checks = []
    for pid in ALL:
        if pid not in CLAIMED:
            continue
        c = CLAIMED[pid]
        checks.append({
            "property_id": pid,
            "quick_cmd": f"python3 tools/run.py check {pid} --tier quick",
            "thorough_cmd": f"python3 tools/run.py check {pid} --tier thorough",
            "evidence_file": f"evidence/{pid}.json",
            "replay_cmd_template": "python3 tools/run.py replay {path}",
            "engine": "lean4-proof+correspondence",
            "level_claimed": {"category": c["category"], "text": c["text"], "design_ref": c["ref"]},
            "level_note": c["note"],
            "technique": c["technique"],
        })
    na = [{"property_id": p, "reason": NOT_YET.get(p, "check not built yet in this round (machinery under construction; see DESIGN.md section 9)")}
          for p in ALL if p not in CLAIMED]
    m = {
        "version": 1,
        "setup_cmd": "python3 tools/run.py setup",
        "hooks": {
            "guard": "MRZIMU_PYBES3_VERIF",
            "enable": "no source hooks: all instrumentation is done from the harness process (monkey-patching); the variable is exported by tools/run.py for completeness",
            "baseline_off_cmd": "cd /repo && env -u MRZIMU_PYBES3_VERIF /venv/bin/python -m pytest -ra -q -p no:cacheprovider --timeout=900 --continue-on-collection-errors",
            "source_commits": [],
            "add_only": True,
        },
        "engines": [{
            "name": "lean4-proof+correspondence",
            "path": "lean/ (lake project Pybes3Verif), tools/ (translator, harnesses, runner), native/ (pybind11 stand-in + drivers)",
            "serves_properties": [c["property_id"] for c in checks],
            "kind_free_text": "Lean 4 theorems about models that are regenerated from /repo (translator) or hand-written and differentially tied to the implementation (correspondence); failing-input search on the real code when an obligation breaks",
        }],
        "checks": checks,
        "not_applicable": na,
        "notes": "See DESIGN.md. Exit 0 held / 1 VIOLATION / 2 infrastructure failure. known_findings.json lists recorded and fixed genuine defects.",
    }
    (VERIF / "MANIFEST.json").write_text(json.dumps(m, indent=1) + "\n")
    print(f"MANIFEST.json: {len(checks)} checks, {len(na)} not_applicable")


if __name__ == "__main__":
    import sys
    sys.path.insert(0, str(Path(__file__).resolve().parent))
    main()
