"""Per-property claims; imported by tools/manifest.py."""

K = "Lean 4.33 kernel; axioms propext / Classical.choice / Quot.sound only; "
BV = ("Lean 4.33 kernel; axioms propext/Classical.choice/Quot.sound plus one <theorem>._native.bv_decide.ax_* axiom per "
      "bv_decide call (LRAT certificate checked by compiled code, ofReduceBool-style); ")
TR = ("translator tools/translate (numba integer semantics = 64-bit two's complement; tables are evaluated from the working tree, "
      "both re-validated differentially against the real code on every run); ")
NAT = ("pybind11 stand-in native/standin used to compile the working-tree C++ natively (the installed extension cannot be "
       "rebuilt here); ")
REAL = ("theorems over the reals (Mathlib): IEEE rounding, libm and vector's coordinate conversions are outside the model and are "
        "covered only by the tolerance-based correspondence; ")


def register(claim):
    claim("C03", "proof",
          "parse_encode: for every well-formed block sequence (any number of events/blocks/fragments incl. empty ones, status words on either "
          "side, full-width fields) and every selection, the model of the C++ parser returns exactly the intended records; merge_spec for "
          "T/Q merging; unpack(pack)=id. Model tied to the working-tree C++ (native build) and to the real Python reader on generated files. The Python framing and batch loop are translated from raw_io.py on every run (Gen/RawPy) and proved equal to the file / reader models (Props/RawPyTie). The C++ parser itself (every function of RawBinaryParser reachable from arrays(): cursor primitives, read_event / read_sub_detector / read_ROS / read_ROB, fill_digi, the event loop) is translated from raw_io.cc on every run (Gen/RawCpp) and proved equal to the hand-written model (Props/RawCppTie::parse_eq).",
          K + NAT + "hand-written model Model/RawParser.lean + Spec/RawFormat.lean; constants/masks extracted from the C++ on every run (Props/RawTie); "
          "Python framing (_preprocess_file/_read_batch) is modelled on the bytes of the file (Model/RawFile.lean) and proved at file level (Props/C03File: any name/tag length, batch size, completion order); "
          "on corrupted block chains the model is stricter than the lazily walking reader; file I/O, np.frombuffer and the awkward assembly are compared, not proved.",
          "Lean 4 round-trip theorem (decode (encode x) = x by induction over the nested format) on a hand-written parser model; "
          "file-level theorem over the byte encoder; three-way correspondence model / native working-tree build / intended decode; byte-level model vs real reader on well-formed and framing-corrupted files; delayed-completion ordering on the real reader; long streams (> 2^16 fragments / words / events) on the native parser against the intended decode; AST translator (cursor program of _preprocess_file, _read_batch step, arrays loop) + tie theorems; strict C++ statement translator for raw_io.cc + tie theorems (translated = model)", "DESIGN.md §6 C03")
    claim("C04", "proof",
          "Termination of the batch loop within N+2 iterations for every n_blocks in {-1} U N and batch size >= 1; result = decode of the first "
          "min(n, N) blocks for every batch size, every completion order of the pool and every earlier cursor position (hence prefix, "
          "idempotence, batch/worker invariance); selection = projection of the full read (C03b). Real arrays() exercised over a grid with perturbed "
          "completion orders under a watchdog. File level (Props/C03File::file_prefix): reading the first n blocks of the bytes of any well-formed file returns the events of those blocks. The while loop of arrays(), its epilogue (empty batch, gather in submission order, cursor reset) and concatenate (list order, argument alignment) are translated from raw_io.py on every run and proved equal to the reader / concat models (Props/RawPyTie).",
          K + NAT + "thread interleavings are sampled (seeded sleeps), not enumerated; data-race freedom rests on each call owning its parser (partial for thread-safety).",
          "Lean 4 theorems on a fuelled loop model + pool-as-permutation model; correspondence against the real reader in a watched child process; concatenate_raw in list order with repeated / aliased files; really overlapping decode calls (ctypes releases the GIL) compared with sequential decodes in a child process, ThreadSanitizer build in the thorough tier; AST translator for raw_io.py + tie theorems",
          "DESIGN.md §6 C04")
    claim("C05", "proof",
          "36 Lean theorems over BitVec 64 about the kernels regenerated from digi_id.py on every run: decode(encode f) = f "
          "truncated to the field, tag/validity exclusivity, word->fields->word reproduces all defined bits, TOF one/two-"
          "argument forms agree, casts lossless; signed and unsigned variants. Universal over all 64-bit inputs, which "
          "subsumes every integer dtype under the widening semantics that the differential pass re-validates.",
          BV + TR + "the oracle's closed-form layout tables in tools/checks/c05.py (hand-copied from the docs).",
          "Lean 4 theorems (bv_decide) on a model regenerated from source by an AST translator; differential "
          "translator validation vs numba; exhaustive field-space oracle on the real kernels as failing-input search",
          "DESIGN.md §6 C05, §5.1")
    claim("C06", "proof",
          "Over the reals, for both charges: signed radius = -alpha/kappa, circle centre preserved, curvature and dip unchanged, the new parameters "
          "describe the same BOSS trajectory re-parametrised by the turning angle (same circle, same sense, same z-angle relation), the new "
          "reference point is the point of the circle closest to the new pivot and the momentum is tangent there. Float model tied to object/"
          "record/array forms; sign convention anchored on reconstructed fixture tracks vs their MDC hits. _change_pivot (object and array path, caller wiring r = self.radius) is translated from helix.py statement by statement on every run (Gen/HelixPy) and proved equal to the model over the reals (Props/HelixTie).",
          K + REAL + "hand-written model Model/Helix.lean mirrors _change_pivot after the fix: commits.",
          "Lean 4 + Mathlib theorems about one polymorphic model (run on Float, proved on R); tolerance-based correspondence; "
          "trajectory-residual oracle on the implementation; fixture hit residuals; AST translator (symbolic execution of _change_pivot) + tie theorem translated = model", "DESIGN.md §6 C06")
    claim("C08", "proof",
          "Whole-table kernel evaluation (decide +kernel over all 6796 wires / 6240 crystals / all (layer,wire) and (part,theta,phi) tuples): density, "
          "documented order, both inverse directions, layer_start = cumulative counts, ring starts equal the documented ranges, digi route; "
          "invalid-marker cases symbolically. Tables and kernels regenerated from the working tree and the docs on every run. The record parsers are translated from detectors/__init__.py on every run as compositions of the translated kernels (Gen/DetParse); Props/DetParseTie proves for all 64-bit inputs that the gid obtained by parsing a digi identifier is the gid of its decoded fields, whatever the wire-type flag, and that parsing the identifier built from any real wire / crystal returns its gid.",
          BV + TR + "documented EMC ring sizes (barrel 44x120 is not in the docs table; taken from the property text).",
          "Lean 4 kernel evaluation over complete finite tables (balanced allBlock + lifting lemma) on generated models; differential vs numba; "
          "documentation-derived numbering oracle incl. scalar call paths; identifiers with the wire-type flag opposite to the geometry and with undefined bits set; buffers refilled in place between two calls; AST translator for the record parsers + tie theorems", "DESIGN.md §6 C08, §5.2")
    claim("C10", "proof",
          "Index bound for every 32-bit word (symbolic), totality (invalid marker or own tag), injectivity on mapped entries (certificate-checked), "
          "MDC wire type = geometry stereo class, every wire / crystal has exactly one pre-image, field ranges, equality with the pinned reference - "
          "all over the complete tables as evaluated from the working tree; conversion checked on a real read containing every representable id. convert_reid_to_teid is translated block by block (Gen/ReidPy); Props/ReidTie proves on the translated code that exactly the id column of each of mdc / tof / emc / muc is replaced by its image under that detector's own table and that everything else (offsets, other columns, other keys, orders) is unchanged.",
          K + TR + NAT + "BOSS sources unavailable: 'equals the BOSS map' = equals reference/reid_tables.json (SHA-256 pinned); injectivity certificates "
          "are emitted by the generator and checked in the kernel.",
          "Lean 4 kernel evaluation over complete tables + certificate lemma; all-ids synthetic raw file through the real reader; the same relation through concatenate_raw with decoding passed explicitly; electronics ids returned with decoding disabled compared with the encoded ones; AST translator for convert_reid_to_teid + tie theorems",
          "DESIGN.md §6 C10")
    claim("C11", "proof",
          "Over the reals: output in normal form (phi0 in [0,2pi)), identity, (dr,phi0) depend only on the circle and the new pivot (path "
          "independence for any sequence by composition), dz equal up to whole pitches and exactly when the accumulated turning angle stays in "
          "(-pi,pi], there-and-back restores all five parameters and the error matrix (dphi != pi); error matrices are path independent within half a turn. Chained calls compared in object/record/array form (incl. integer-typed columns). _change_pivot (object and array path, caller wiring r = self.radius) is translated from helix.py statement by statement on every run (Gen/HelixPy) and proved equal to the model over the reals (Props/HelixTie).",
          K + REAL + "error matrices: J_back J_forth = 1, there-and-back restores E, chain rule J_2 J_1 = J_direct and path independence of E within half a turn are theorems (Props/C11b).",
          "Lean 4 + Mathlib theorems; chained Float-model correspondence; direct-move / identity / there-and-back oracle; AST translator (symbolic execution of _change_pivot) + tie theorem translated = model", "DESIGN.md §6 C11")
    claim("C12", "proof",
          "Implicit-differentiation theorems: along any differentiable family satisfying the defining relations the derivative of (dr', phi0', dz') "
          "is given by exactly the entries the code uses (rows 0,1,3; rows 2,4 identity), for the signed radius; J E J^T is the matrix product, "
          "symmetric / PSD preserved, identity move leaves E unchanged. Implementation compared with a Richardson finite-difference Jacobian of "
          "its own parameter map; error matrices stored as int64/int32/float32 compared with the float64 result. _change_pivot (object and array path, caller wiring r = self.radius) is translated from helix.py statement by statement on every run (Gen/HelixPy) and proved equal to the model over the reals (Props/HelixTie).",
          K + REAL + "differentiability of the parameter map itself away from the branch cuts is assumed (the theorem is conditional on a differentiable family).",
          "Lean 4 + Mathlib (HasDerivAt uniqueness, linear_combination, Matrix.PosSemidef); finite-difference oracle; Float-model correspondence; AST translator (symbolic execution of _change_pivot) + tie theorem translated = model",
          "DESIGN.md §6 C12")
    claim("C13", "proof",
          "Over the reals: documented position (pivot + offset), momentum (pt, azimuth mod 2pi, pz), charge and radius formulas; constructing a helix "
          "from its own reported position, momentum, charge and pivot reproduces it for every pivot, either charge, dr of either sign or zero, phi0 "
          "anywhere in [0,2pi). Object/record/array forms and the three constructor forms compared. The kernels (dr_phi0_to_x/y, phi0_to_phi, kappa_to_pt/charge/radius, _fix_dr_sign), the position / momentum / charge / radius properties of the object, record and array kinds and the (momentum, position, charge) constructors of helix_obj / helix_awk are translated from helix.py on every run (Gen/HelixProps) and proved equal to the model (Props/HelixTie2).",
          K + REAL + "sign of a dr below the rounding error of the position is not compared (unrecoverable in floating point).",
          "Lean 4 + Mathlib theorems; Float-model correspondence; documented-formula oracle at non-zero pivots; AST translator for the helix properties / constructors + tie theorems; special common pivots through every array constructor; reports read before a move", "DESIGN.md §6 C13")
    claim("C15", "proof",
          "For every word list and selection the parser model returns arrays or an error: never an out-of-bounds access, never out of fuel "
          "(loop bound length+1 always suffices), and a successful decode consumed the buffer; the same definition satisfies parse_encode (C03). "
          "Per-buffer agreement (outcome class and arrays) with the ASan+UBSan native build of the working tree on mutated / truncated / random buffers. The parser the theorems speak about is the translation of raw_io.cc of this run (Gen/RawCpp, Props/RawCppTie: readCpp_eq … parse_eq), bounds checks included: removing a require() breaks skipCpp_eq / readNCpp_eq.",
          K + NAT + "memory safety of std::vector/std::map internals and the pybind11/numpy glue is outside the model; the installed binary is not the subject.",
          "Lean 4 safety + termination theorems on a model with explicit memory accesses; sanitizer-instrumented native build as correspondence and oracle; strict C++ statement translator for raw_io.cc + tie theorems; source-based coverage of raw_io.cc reached by the generated buffers reported in the evidence",
          "DESIGN.md §6 C15")
    claim("C16", "proof",
          "Index expression translated from root_io.hh: idx = max(max+1)/2+min, symmetric, in range, lower triangle bijective; constructor accepts iff "
          "n(n+1)/2 <= flat; expansion M[i][j]=M[j][i]=packed[idx] for any content; fullDim(n(n+1)/2)=n and the factory's pair is always accepted. "
          "Native working-tree reader, installed reader, Python factory (incl. call histories) and all fixture matrix members compared. The matrix reader (constructor check, read loop, index expression) is translated from root_io.hh on every run (Gen/RootCpp) and proved equal to the model (Props/RootCppTie: symAcceptsCpp_eq, symExpandCpp_eq).",
          K + NAT + "dimensions > 46340 (C++ int overflow) unmodelled; IEEE sqrt exact on perfect squares < 2^53.",
          "Lean 4 theorems on translated index expression + hand-written reader model; native ASan build and installed reader as correspondence; "
          "independent-decode oracle on fixtures; content patterns (zero diagonal, one-hot, all zero) so that the expansion cannot depend on the values; strict C++ statement translator for root_io.hh + tie theorems", "DESIGN.md §6 C16")
    claim("C17", "proof",
          "Over all histories of table updates / process starts / loads / first uses / (interrupted) checks / forced clears: after a complete check no "
          "cache is older than its table; fresh caches untouched; force clears all; interruption only removes files. Content level: for atomic "
          "histories every surviving cache was built from the current table; machine-checked witness that this fails otherwise (recorded finding, "
          "replayed end-to-end on the real package every run). src_cache_list, the clearing decision, the aggregates over all matched files, the unconditional removal loop, both sweeps and the import-time call are translated from _cache_numba.py / __init__.py on every run (Gen/CachePy) and tied to the model (Props/CacheTie).",
          K + "timestamp granularity and concurrent importers are outside the model; numba's two file kinds (index file rewritten per new signature, one data file per signature) are modelled, its naming/locking are not; glob order fixed in the harness.",
          "Lean 4 invariants by induction over operation histories with crash points; real cache_auto_clear on a scratch layout as correspondence; "
          "end-to-end interpreter scenarios as oracle; package-wide static scan of cached numba kernels that read geometry-table data vs src_cache_list; end-to-end run over every public lookup with both tables replaced (fresh interpreter vs wiped caches); AST translator for _cache_numba.py + tie theorems", "DESIGN.md §6 C17")
    claim("C01", "proof",
          "readTObjArray_encode / readEntries_encode: for every element codec that reads exactly its own encoding, every list of objects per event "
          "(incl. empty events), every header variant (new-class tag with name vs class reference, any byte count with the mask bit, referenced bit) the "
          "reader returns the objects in order and stops right after them, entry by entry; processDigi_fields. Model tied three-way on synthetic streams "
          "(Lean / native working-tree build / installed extension with stock readers), by framing every real fixture basket, and member by member "
          "against uproot's own deserialisation obtained without pybes3. Bes3CgemClusterColReader: round trip for both class layouts, referenced and unreferenced clusters, version threading across events (Props/C01Cgem). The Python side (digi lifting loops, dispatch, branch / matrix-member tables, factory priorities, factory forms) is translated from root_io.py on every run (Gen/RootPy) and proved equal to the models (Props/RootTie). The read bodies of Bes3TObjArrayReader and Bes3CgemClusterColReader and the BinaryBuffer primitives they use are translated from root_io.hh / uproot-custom.hh on every run (Gen/RootCpp) and proved equal to the models (Props/RootCppTie).",
          K + NAT + "stock uproot-custom element readers enter as a contract (read exactly their own encoding); decompression/basket I/O and awkward record "
          "construction are outside the model; the independent decoder cannot read multimap, TRecExtTrack and the streamer-less CGEM cluster class (listed in the evidence).",
          "Lean 4 round-trip theorems on a hand-written byte-level parser model; three-way synthetic correspondence; framing-mode model on real baskets; "
          "independent-decoder oracle (translation-validation strength for member values on real files); AST translator for the Python logic of root_io.py + tie theorems; synthetic CGEM cluster streams incl. referenced clusters; strict C++ statement translator for root_io.hh + tie theorems", "DESIGN.md §6 C01")
    claim("C02", "proof",
          "finalArray_eq_slice: for every basket layout (empty baskets anywhere) and every non-empty interval the model of AsCustom.final_array returns the "
          "slice of the full read; partition invariance; chunks of any size concatenate to the whole; per-basket reader outputs re-based by concatenation "
          "represent the concatenated events; per-event post-processing commutes with trimming. Real final_array/basket_array driven with index-valued and "
          "re-partitioned real fixture baskets in every delivery order; public API (entry ranges, iterate, concatenate, subsets). CGEM cluster collections: keys independent of the basket layout when every basket holds a cluster (or the class has no m_recPositionY), with the recorded finding as a proved witness (Props/C01Cgem::cgem_keys_layout_dependent_witness) and reproduced on the real factory chain on every run (KNOWN-FINDING).",
          K + "uproot's entry-range to basket selection, ak.concatenate and decompression are third-party (exercised, not modelled); fixtures have one basket per "
          "branch, so multi-basket behaviour on real bytes comes from re-partitioning the payload.",
          "Lean 4 list-algebra theorems on a model of final_array; correspondence against the real method; exhaustive partition x interval testing on fixtures (thorough); synthetic CGEM cluster baskets through the real factory chain; the same branch from files of different releases in one process",
          "DESIGN.md §6 C02")
    claim("C07", "proof",
          "rebuild (levels t) (flat t) = t for every uniform-depth layout (any depth, empty lists); array-mode pivot change = per-track single-helix result in the "
          "input's nesting and order (hence independent of the other tracks and of the nesting); ufunc attributes act per track; permutation equivariance. "
          "Real helix_awk operations compared per track with helix_obj over generated layouts (depth 1-4, empty events, sliced/indexed views, records), "
          "pivot forms, error matrices, repeated calls (inputs not modified) and per-track isclose verdicts. The per-track pivot change and the per-track properties are the translated source (Props/HelixTie, Props/HelixTie2: object path = array path = model). The awkward-side wiring (_extract_index, _flat_to_numpy, _awk_change_pivot, the re-nesting loops, the pivot broadcast) is translated on every run (Gen/AwkPy); Props/AwkTie proves that extract -> flatten -> per-track map -> re-nest is the element-wise map of the model, and that the nesting is restored.",
          K + "awkward's own layout transformations are third-party; masked/union layouts are not generated; float results at 1e-9 relative.",
          "Lean 4 theorems on nested arrays (dependent depth) + single-track model; Lean driver vs _extract_index/flatten; per-track oracle; AST translators for helix.py + tie theorems; exact half-turn inputs; views re-ordered after construction; AST translator for the awkward-side wiring + tie theorems", "DESIGN.md §6 C07")
    claim("C09", "proof",
          "Every MDC accessor returns the published row (kernel reads the loader global; loader globals equal the npz columns chunk by chunk; same for all EMC "
          "columns incl. corner points); wire ends differ in z; stereo sign = sign of the exact cross product of the end points (doubles decoded exactly), "
          "flag = (sign != 0), uniform per layer and equal to the per-layer table; superlayer-by-layer = by-wire; position on the line through the end "
          "points for every z (reals); private copies for every get/write/lookup history; barrel crystal centres / front centres are the centroids of the stored corner points "
          "within 2^-30 cm in exact rational arithmetic (Props/C09b: fixed-point kernel evaluation over the whole table + soundness proof over Q).",
          K + TR + "float evaluation of the line formula compared at 1e-9.",
          "Lean 4 kernel evaluation over complete tables with exact IEEE decoding; real-analysis lemma; history model by induction; differential + exact-arithmetic oracle; tables of every library (np / ak / pd) column by column against the published file; kernels really compiled after the hand-out (accessor groups, uint64)",
          "DESIGN.md §6 C09")
    claim("C14", "other",
          "Partial by design: Lean theorems for pybes3's own assembly laws (element-wise kernels preserve nesting and act on the leaves at every depth; the "
          "flat option commutes with the kernels; records are tuples of field kernels). The dispatch half - numba per-dtype kernels and awkward's ufunc "
          "protocol, which is most of what the property quantifies over - is explored: every public function x integer dtypes x container kinds (scalars, "
          "0-d/n-d arrays, awkward flat/jagged/regular/depth-3/empty/sliced/indexed/masked/record field) x option combinations against a leaf-by-leaf reference. The record parsers are translated from the source on every run (Gen/DetParse): every output field is proved to be the stand-alone field function applied to the same input (Props/DetParseTie), the flat rule and the container switch are verified by the translator.",
          K + "numba type dispatch and awkward ufunc protocol are third-party and unmodelled; unknown-type (non-integer) empty arrays are not inputs of the property.",
          "Lean 4 theorems for the assembly laws + structured per-dtype / per-layout exploration for the dispatch; missing values and depth-3 nesting through the record parsers; dtype history with kernels compiled after a table hand-out (child process, private cache); AST translator for the record parsers + tie theorems (these rest on C05 / C08 theorems and inherit their bv_decide certificate axioms)", "DESIGN.md §6 C14, §8")
    claim("C18", "other",
          "Partial by design: Lean theorem that the lazily announced type equals the eager type for digi collections (naturality of the shared post-"
          "processing w.r.t. the content-to-type map, for every field list incl. clashes) and that the matrix factory's form mirrors its content. "
          "The dask/uproot machinery is explored: every fixture branch that supports lazy reading x steps_per_file x projections, comparing announced, "
          "computed and eager types and all values. process_digi_subbranch / process_digi_subbranch_form, the dispatch of preprocess_subbranch / preprocess_subbranch_form and the factories' form / content constructors are translated from root_io.py on every run and proved to agree (Props/RootTie: lazy_form_eq_eager_type_py, dispatch_agree, sym_form_mirrors_content_py, tobj_form_mirrors_content_py). m_recCgemClusterCol cannot be read lazily: recorded finding, reproduced on every run.",
          K + "dask graph construction and uproot's positional form-to-buffer mapping are third-party and unmodelled; branches without a form (streamer-less "
          "CGEM clusters) do not support lazy reading.",
          "Lean 4 naturality theorem on the form/content model + structured exploration of the lazy path; AST translator for root_io.py + tie theorems", "DESIGN.md §6 C18, §8")



# ---- round 4: what was added to each check (appended to the technique / claim texts above) -------------------------------------------
R4_TECH = {
    "C01": "; class-layout variants of one class name through the real factory chain in one process; the same collections read under python -O / -OO",
    "C02": "; the deprecated alias pybes3.concatenate with repeated files; package glue translated (Props/EntryTie: the besio wrappers forward their arguments unchanged); 65 - 300 baskets; basket_array called again for every request on one TBranch object, requests repeated",
    "C03": "; one data block larger than 64 MiB; unknown sub-detector ids whose low byte is a known id; package glue translated (Props/EntryTie)",
    "C04": "; package glue translated (Props/EntryTie: concatenate_raw is raw_io.concatenate itself)",
    "C05": "; scalar / array mixtures per argument and dtype; in-place refill histories; compiled-loop dispatch history in fresh child processes (recorded finding)",
    "C06": "; pivot arrays given in cylindrical / re-ordered coordinates; depth-3 views; earlier job configured through an environment variable the package reads, sharing the numba cache directory",
    "C07": "; depth-3 index-selected views; phi0 pairs straddling the 0 / 2 pi wrap in the three-kind closeness comparison",
    "C08": "; big-endian, Fortran-ordered and transposed array inputs; long hit lists (every element 24x / 44x, shuffled)",
    "C09": "; every accessor group as the first call of a fresh process with an empty numba cache; package glue translated (Props/EntryTie); one-element record histories (record edited by the caller, same lookup again); integer-typed z arrays; the _make_lazy wrapper checked as a pass-through by the geometry translator",
    "C10": "; the decode relation on the first decoding read of ten fresh processes (1-16 worker threads); selections naming a detector twice",
    "C11": "; pivot arrays in cylindrical / re-ordered coordinates",
    "C12": "; the same error matrices in transposed / Fortran-ordered / strided / swapped-axes memory layouts",
    "C13": "; caller-buffer histories for every constructor argument; package glue translated (Props/EntryTie)",
    "C14": "; float arguments of mdc_gid_z_to_x/_y in every container kind; big-endian parser inputs called twice on one array object (input unchanged); package glue translated (Props/EntryTie: every public detector name is the home definition of that name); two-level missing values; 2-d C- vs Fortran-ordered parser inputs; one-element record histories; byte-order call histories in fresh processes (recorded finding)",
    "C15": "; decoder calls overlapping in time (eight threads, ctypes releases the GIL)",
    "C17": "; end-to-end run under PYTHONPYCACHEPREFIX; table files that are symbolic links; first import after the update inside a spawned multiprocessing worker",
    "C18": "; lazy reads of the same collection from two files; compute() in spawned dask worker processes; every environment variable the package reads, perturbed, set before and after the import",
}


def register_r4(claimed):
    for pid, extra in R4_TECH.items():
        if pid in claimed and extra not in claimed[pid]["technique"]:
            claimed[pid]["technique"] += extra
