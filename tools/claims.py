"""Per-property claims; imported by tools/manifest.py."""


def register(claim):
    pass
