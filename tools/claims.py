"""Per-property claims; imported by tools/manifest.py."""

BV = ("Lean 4.33 kernel; axioms propext/Classical.choice/Quot.sound plus one <theorem>._native.bv_decide.ax_* axiom per "
      "bv_decide call (LRAT certificate checked by compiled code, ofReduceBool-style); ")
TR = ("translator tools/translate (numba integer semantics = 64-bit two's complement, re-validated differentially against "
      "the real numba kernels on every run); ")


def register(claim):
    claim("C05", "proof",
          "36 Lean theorems over BitVec 64 about the kernels regenerated from digi_id.py on every run: decode(encode f) = f "
          "truncated to the field, tag/validity exclusivity, word->fields->word reproduces all defined bits, TOF one/two-"
          "argument forms agree, casts lossless; signed and unsigned variants. Universal over all 64-bit inputs, which "
          "subsumes every integer dtype under the widening semantics that the differential pass re-validates.",
          BV + TR + "the oracle's closed-form layout tables in tools/checks/c05.py (hand-copied from the docs).",
          "Lean 4 theorems (bv_decide) on a model regenerated from source by an AST translator; differential "
          "translator validation vs numba; exhaustive field-space oracle on the real kernels as failing-input search",
          "DESIGN.md §6 C05, §5.1")
