"""Translator for the package glue of pybes3: the `__init__.py` files that decide WHICH object a public name is bound to
(`pybes3.parse_mdc_gid`, `pybes3.open_raw`, `pybes3.detectors.mdc_gid_to_layer`, ...) and the thin wrappers of `besio/__init__.py`
(`open`, `concatenate`, `open_raw`) -> Gen/EntryPy.lean.

The properties are observed at the public names.  Every other translator ties a *defining* module to its model; this one ties the
public name to the defining module:

  * every `__init__.py` of the package may contain only: a docstring, `from __future__`, imports, the `check_numba_cache()` call
    (top-level package only), `__all__ = [literal list]`, and `def`s (besio: the wrappers; detectors: the parsers, which
    tools/translate/detparse.py translates).  An assignment to any other name, a decorator applied after import, a `def` that shadows
    an imported name, a conditional / try block, `__getattr__` -> Unsupported;
  * every public name is followed through the `from .x import a as b` chain to the module that defines it (a `def`, a `class` or an
    assignment at module level); the result is the list `resolved` of (public dotted name, defining module, defined name);
  * a wrapper must be `def f(params..., **kwargs): [docstring] [warn(...)] return <callee>(params in order, **kwargs)`; the result is the
    list `wrappers` of (name, callee, parameters, arguments passed, has **kwargs, forwards **kwargs).
"""
from __future__ import annotations

import ast
from pathlib import Path


class Unsupported(Exception):
    pass


U = ast.unparse

PACKAGES = ["", "besio", "detectors", "detectors/geometry", "tracks"]        # __init__.py files, relative to src/pybes3


def _is_doc(st):
    return isinstance(st, ast.Expr) and isinstance(st.value, ast.Constant) and isinstance(st.value.value, str)


def modname(rel: str) -> str:
    return "pybes3" + ("." + rel.replace("/", ".") if rel else "")


def resolve_relative(pkg: str, level: int, module: str | None) -> str:
    """the absolute dotted module that `from <level dots><module> import ...` inside package `pkg` names"""
    parts = pkg.split(".")
    if level > len(parts):
        raise Unsupported(f"relative import beyond the package in {pkg}")
    base = parts[: len(parts) - (level - 1)] if level >= 1 else []
    if level == 0:
        return module or ""
    return ".".join(base + ([module] if module else []))


def module_file(root: Path, dotted: str) -> Path | None:
    rel = dotted.split(".")[1:]
    p = root.joinpath(*rel)
    if (p / "__init__.py").exists():
        return p / "__init__.py"
    if p.with_suffix(".py").exists():
        return p.with_suffix(".py")
    return None


def module_bindings(path: Path, dotted: str, is_pkg: bool):
    """top-level bindings of a module: name -> ("import", module, orig) | ("def"|"class"|"assign", dotted, name) | ("module", dotted)"""
    tree = ast.parse(path.read_text())
    pkg = dotted if is_pkg else dotted.rsplit(".", 1)[0]
    b: dict[str, tuple] = {}
    order = []

    def bind(name, val, st):
        if name in b and b[name][0] in ("import", "module") and val[0] in ("def", "class", "assign") and is_pkg:
            raise Unsupported(f"{dotted}: `{name}` is imported and then re-bound by `{U(st)[:80]}`")
        b[name] = val
        order.append(name)

    for st in tree.body:
        if isinstance(st, ast.ImportFrom):
            if st.module == "__future__":
                continue
            src = resolve_relative(pkg, st.level, st.module)
            for a in st.names:
                if a.name == "*":
                    raise Unsupported(f"{dotted}: star import")
                if st.level >= 1 and st.module is None:
                    bind(a.asname or a.name, ("module", src + "." + a.name), st)
                else:
                    bind(a.asname or a.name, ("import", src, a.name), st)
        elif isinstance(st, ast.Import):
            for a in st.names:
                bind((a.asname or a.name).split(".")[0], ("module", a.name if a.asname else a.name.split(".")[0]), st)
        elif isinstance(st, (ast.FunctionDef, ast.ClassDef)):
            bind(st.name, ("def" if isinstance(st, ast.FunctionDef) else "class", dotted, st.name), st)
        elif isinstance(st, (ast.Assign, ast.AnnAssign)):
            tg = st.targets if isinstance(st, ast.Assign) else [st.target]
            for t in tg:
                for n in ast.walk(t):
                    if isinstance(n, ast.Name):
                        bind(n.id, ("assign", dotted, n.id), st)
    return tree, b


def check_init_shape(tree: ast.Module, dotted: str, top: bool, allowed_defs: bool):
    """an `__init__.py` only imports, lists `__all__` and (where expected) defines functions"""
    all_list = None
    for st in tree.body:
        if _is_doc(st) or isinstance(st, (ast.Import, ast.ImportFrom)):
            continue
        if isinstance(st, ast.Expr) and U(st) == "check_numba_cache()" and top:
            continue
        if isinstance(st, ast.Assign) and len(st.targets) == 1 and U(st.targets[0]) == "__all__":
            if not (isinstance(st.value, ast.List) and all(isinstance(e, ast.Constant) and isinstance(e.value, str) for e in st.value.elts)):
                raise Unsupported(f"{dotted}: __all__ is not a literal list of strings")
            if all_list is not None:
                raise Unsupported(f"{dotted}: __all__ assigned twice")
            all_list = [e.value for e in st.value.elts]
            continue
        if isinstance(st, ast.FunctionDef) and allowed_defs:
            if st.decorator_list:
                raise Unsupported(f"{dotted}: decorated function `{st.name}` in a package __init__")
            if st.name.startswith("__"):
                raise Unsupported(f"{dotted}: module-level `{st.name}` hook")
            continue
        raise Unsupported(f"{dotted}/__init__.py: statement `{U(st)[:100]}` is neither an import, `__all__`, nor an expected definition")
    return all_list


def follow(root: Path, cache: dict, dotted: str, name: str, depth=0):
    """(defining module, defined name, kind) of `dotted.name`"""
    if depth > 8:
        raise Unsupported(f"import chain of {dotted}.{name} too long / cyclic")
    if dotted not in cache:
        f = module_file(root, dotted)
        if f is None:
            return (dotted, name, "external")
        cache[dotted] = module_bindings(f, dotted, f.name == "__init__.py")[1]
    b = cache[dotted]
    if name not in b:
        # a sub-module named like that?
        if module_file(root, dotted + "." + name) is not None:
            return (dotted + "." + name, "", "module")
        raise Unsupported(f"`{name}` is not bound in {dotted}")
    v = b[name]
    if v[0] == "import":
        if not v[1].startswith("pybes3"):
            return (v[1], v[2], "external")
        return follow(root, cache, v[1], v[2], depth + 1)
    if v[0] == "module":
        return (v[1], "", "module")
    return (v[1], v[2], v[0])


def translate_wrapper(fn: ast.FunctionDef, bindings: dict):
    a = fn.args
    if a.posonlyargs or a.kwonlyargs or a.vararg:
        raise Unsupported(f"wrapper {fn.name}: unexpected parameter kinds")
    params = [x.arg for x in a.args]
    has_kw = a.kwarg is not None
    body = [s for s in fn.body if not _is_doc(s)]
    warned = False
    if body and isinstance(body[0], ast.Expr) and isinstance(body[0].value, ast.Call) and U(body[0].value.func) == "warn":
        call = body[0].value
        if len(call.args) < 2 or U(call.args[1]) != "DeprecationWarning" or not isinstance(call.args[0], ast.Constant):
            raise Unsupported(f"wrapper {fn.name}: the warn(...) call is not a DeprecationWarning with a literal message")
        warned = True
        body = body[1:]
    if len(body) != 1 or not isinstance(body[0], ast.Return) or not isinstance(body[0].value, ast.Call):
        raise Unsupported(f"wrapper {fn.name}: body is not `[warn(...)] return <callee>(...)` (found `{'; '.join(U(s)[:60] for s in body)}`)")
    call = body[0].value
    passed = []
    for x in call.args:
        if not isinstance(x, ast.Name):
            raise Unsupported(f"wrapper {fn.name}: argument `{U(x)}` is not a plain parameter")
        passed.append(x.id)
    fwd_kw = False
    for k in call.keywords:
        if k.arg is None and isinstance(k.value, ast.Name) and a.kwarg is not None and k.value.id == a.kwarg.arg:
            fwd_kw = True
        else:
            raise Unsupported(f"wrapper {fn.name}: keyword argument `{U(k)}` added to the call")
    callee = U(call.func)
    head = callee.split(".")[0]
    if head in bindings:
        v = bindings[head]
        if v[0] == "import":
            callee = v[1] + "." + v[2] + callee[len(head):]
        elif v[0] == "module":
            callee = v[1] + callee[len(head):]
    defaults = [U(d) for d in a.defaults]
    return {"name": fn.name, "callee": callee, "params": params, "passed": passed, "has_kw": has_kw, "fwd_kw": fwd_kw, "warns": warned, "defaults": defaults}


def lstr(xs):
    return "[" + ", ".join('"' + x + '"' for x in xs) + "]"


def generate(root: Path):
    root = Path(root)
    cache: dict = {}
    resolved = []
    alls = {}
    wrappers = []
    for rel in PACKAGES:
        dotted = modname(rel)
        path = root / rel / "__init__.py" if rel else root / "__init__.py"
        if not path.exists():
            raise Unsupported(f"{path} missing")
        tree, b = module_bindings(path, dotted, True)
        cache[dotted] = b
        all_list = check_init_shape(tree, dotted, top=(rel == ""), allowed_defs=(rel in ("besio", "detectors")))
        if all_list is None and rel != "detectors":
            raise Unsupported(f"{dotted}: no __all__")
        alls[dotted] = all_list
        if rel == "besio":
            for st in tree.body:
                if isinstance(st, ast.FunctionDef):
                    wrappers.append(translate_wrapper(st, b))
    for rel in PACKAGES:
        dotted = modname(rel)
        names = alls[dotted] if alls[dotted] is not None else sorted(n for n, v in cache[dotted].items() if not n.startswith("_") and v[0] in ("import", "def"))
        seen = set()
        for n in names:
            if n in seen:
                raise Unsupported(f"{dotted}.__all__ lists `{n}` twice")
            seen.add(n)
            if n in ("__version__", "version"):
                continue
            m, d, kind = follow(root, cache, dotted, n)
            resolved.append((dotted, n, m, d, kind))
        # every name the package imports from its own sub-modules and that is public must be listed (nothing public outside __all__ that shadows)
    # top-level: the cache check runs before any sub-package is imported (also translated by cachepy; kept here as a wiring fact)
    top_tree = ast.parse((root / "__init__.py").read_text())
    stmts = [s for s in top_tree.body if not _is_doc(s) and not (isinstance(s, ast.ImportFrom) and s.module == "__future__")]
    first_two = [U(s) for s in stmts[:2]]
    cache_first = first_two == ["from ._cache_numba import check_numba_cache", "check_numba_cache()"]

    out = ["-- GENERATED by tools/translate/entrypy.py from the __init__.py files of /repo/src/pybes3. Do not edit.",
           "/-! Package glue: which definition every public name is bound to, and the thin wrappers of `besio/__init__.py`. -/",
           "namespace Pybes3Verif.Gen.EntryPy", "",
           "/-- (exporting package, public name, defining module, defined name, kind) — every name of every `__all__`, followed through the import chain -/",
           "def resolved : List (String × String × String × String × String) := ["]
    out.append(",\n".join(f'  ("{pk}", "{n}", "{m}", "{d}", "{k}")' for pk, n, m, d, k in resolved))
    out += ["]", "",
            "structure Wrapper where", "  name : String", "  callee : String", "  params : List String", "  passed : List String", "  hasKw : Bool", "  fwdKw : Bool", "  warns : Bool", "  defaults : List String",
            "deriving DecidableEq, Repr", "",
            "/-- the function definitions of `besio/__init__.py`: `def f(params, **kwargs): [warn(...)] return callee(passed, **kwargs)` -/",
            "def wrappers : List Wrapper := ["]
    out.append(",\n".join(f'  {{ name := "{w["name"]}", callee := "{w["callee"]}", params := {lstr(w["params"])}, passed := {lstr(w["passed"])}, hasKw := {str(w["has_kw"]).lower()}, fwdKw := {str(w["fwd_kw"]).lower()}, warns := {str(w["warns"]).lower()}, defaults := {lstr(w["defaults"])} }}' for w in wrappers))
    out += ["]", ""]
    for dotted, al in alls.items():
        nm = "all_" + dotted.replace(".", "_")
        out += [f"/-- `__all__` of {dotted} (the names `from {dotted} import *` and the documentation expose) -/", f"def {nm} : List String := {lstr(al or [])}", ""]
    out += ["/-- `check_numba_cache()` is imported and called before any sub-package is imported -/", f"def cacheCheckFirst : Bool := {str(cache_first).lower()}", "",
            "end Pybes3Verif.Gen.EntryPy", ""]
    info = {"public_names": len(resolved), "wrappers": [w["name"] for w in wrappers], "packages": list(alls)}
    return "\n".join(out), info


if __name__ == "__main__":
    import sys
    body, info = generate(Path(sys.argv[1]) if len(sys.argv) > 1 else Path("/repo/src/pybes3"))
    print(body)
    print(info, file=sys.stderr)
