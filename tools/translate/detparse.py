"""Translator for the record-returning parsers of src/pybes3/detectors/__init__.py into Lean (Gen/DetParse.lean).

The parsers (`parse_mdc_gid`, `parse_mdc_digi_id`, `parse_mdc_digi`, `parse_tof_digi_id`, `parse_emc_gid`, `parse_emc_digi_id`,
`parse_emc_digi`, `parse_muc_digi_id`, `parse_cgem_digi_id`) are plain Python that *composes* numba kernels.  The kernels are
translated by kernels.py / gen.py (Gen/DigiId.lean, Gen/Mdc.lean, Gen/Emc.lean); this module extracts the WIRING - which kernel,
applied to what, feeds which output field, in which order - by executing every parser body SYMBOLICALLY:

  * straight-line assignments, dict literals, `res[k] = ...`, `if with_pos:` blocks (fields / locals only present with positions),
  * `if library not in [...]: raise ValueError(...)`, `if flat and isinstance(x, ak.Array): x = ak.flatten(x)` (only in front of every
    use of the input), the final container switch (`library == "ak"` / `isinstance(x, ak.Array)` selects `ak.zip(res)` vs `res`),
  * delegation (`return parse_mdc_gid(gid, with_pos)`; `gid = parse_mdc_digi_id(mdc_digi["m_intId"], with_pos=with_pos)` followed by
    `gid["layer"]` subscripts), pass-through of input record fields, opaque float arithmetic on float-valued kernel results,
  * calls: only kernels of digi_id.py / geometry/mdc.py / geometry/emc.py as imported by the module (through the `_make_lazy` wrapper of
    the geometry modules and the `part is None` overload dispatch of digi_id.py, both re-read from their sources), and the parsers.

The value of every output field is an expression tree over: the parser's input, kernel calls (python name of the kernel actually
reached + argument trees), pass-through input fields, float arithmetic.  Anything outside that subset raises Unsupported (a broken
translator obligation, never a silent default): unknown calls, loops, memoisation (module-level dict / cache lookups, decorators),
identity checks on the input, table lookups that bypass the kernels, in-place mutation or rebinding of the input, module-level state.

`generate(src) -> (lean_text, info)`; CLI: `python3 detparse.py` writes /verif/lean/Pybes3Verif/Gen/DetParse.lean from /repo.
"""
from __future__ import annotations

import ast
import re
import sys
from dataclasses import dataclass, field
from pathlib import Path

sys.path.insert(0, str(Path(__file__).resolve().parents[1]))
from translate.kernels import ModuleTranslator, lean_ident  # noqa: E402
from translate.kernels import Unsupported as KernelUnsupported  # noqa: E402


class Unsupported(Exception):
    pass


PKG = Path("/repo/src/pybes3")
GEN_DIR = Path(__file__).resolve().parents[2] / "lean" / "Pybes3Verif" / "Gen"

PARSERS = ["parse_mdc_gid", "parse_mdc_digi_id", "parse_mdc_digi", "parse_tof_digi_id", "parse_emc_gid", "parse_emc_digi_id",
           "parse_emc_digi", "parse_muc_digi_id", "parse_cgem_digi_id"]

U = ast.unparse


def _body(fn):
    b = list(fn.body)
    if b and isinstance(b[0], ast.Expr) and isinstance(b[0].value, ast.Constant) and isinstance(b[0].value.value, str):
        b = b[1:]
    return b


def _lean_str(s: str) -> str:
    if not isinstance(s, str) or any(ord(c) < 32 or ord(c) > 126 or c == "\\" for c in s):
        raise Unsupported(f"string literal {s!r}")
    return '"' + s.replace('"', '\\"') + '"'


# ================================================================================================ kernel tables
@dataclass
class KInfo:
    py: str            # python name of the numba kernel
    ns: str            # Lean namespace below Pybes3Verif.Gen: DigiId | Mdc | Emc
    params: list
    ret: str           # bv | bool  (Lean result type BitVec 64 | Bool)
    ordered: bool      # has `_s` / `_u` variants
    vtype: str         # int | bool | float  (what the 64 bits mean)
    ptypes: list       # int | float per parameter (annotation)


@dataclass
class Forward:
    """plain python function of digi_id.py that only forwards to kernels: `if <opt> is None: return K1(..) else: return K2(..)`
    or a single `return K(..)`"""
    params: list
    opt: str | None              # parameter tested against None
    none_call: tuple | None      # (kernel, [param names]) when opt is None / the only call
    some_call: tuple | None


def _loader_globals(tree) -> list:
    names = []
    for st in tree.body:
        if isinstance(st, ast.FunctionDef) and st.name == "_ensure_loaded":
            for s in ast.walk(st):
                if isinstance(s, ast.Global):
                    names += [n for n in s.names if n != "_loaded"]
    return names


def _table_kinds(ns: str) -> dict:
    """kind of every module-global table as evaluated by gen_geom (doc comments of Gen/<Ns>Tables.lean); {} if not generated yet"""
    p = GEN_DIR / f"{ns}Tables.lean"
    if not p.exists():
        return {}
    kinds = {}
    for m in re.finditer(r"/-- module global `(\w+)` of geometry/\w+\.py after _ensure_loaded\(\) \(([a-z]+)(\d+), shape", p.read_text()):
        kinds[m.group(1)] = m.group(2)
    return kinds


def _check_lazy_wrapper(tree, path, kernel_names) -> list:
    """geometry modules rebind their kernels to `_make_lazy(kernel)`; the wrapper must be `_ensure_loaded(); return func(*args, **kwargs)`.
    Returns the wrapped names."""
    wrapped, maker = [], None
    for st in tree.body:
        if isinstance(st, ast.FunctionDef) and st.name == "_make_lazy":
            maker = st
        if isinstance(st, ast.For) and isinstance(st.iter, ast.List) and all(isinstance(e, ast.Constant) for e in st.iter.elts):
            if len(st.body) == 1 and isinstance(st.target, ast.Name) and \
                    U(st.body[0]) == f"globals()[{st.target.id}] = _make_lazy(globals()[{st.target.id}])":
                wrapped += [e.value for e in st.iter.elts]
            else:
                raise Unsupported(f"{path}:{st.lineno}: module-level loop `{U(st)[:120]}` rebinding functions is not the `_make_lazy` loop")
        if isinstance(st, (ast.Assign, ast.AugAssign, ast.AnnAssign)):
            tg = st.targets if isinstance(st, ast.Assign) else [st.target]
            for t in tg:
                if isinstance(t, ast.Name) and t.id in kernel_names:
                    raise Unsupported(f"{path}:{st.lineno}: kernel `{t.id}` is rebound at module level: `{U(st)[:120]}`")
    if wrapped:
        if maker is None:
            raise Unsupported(f"{path}: `_make_lazy` not found")
        inner = [s for s in maker.body if isinstance(s, ast.FunctionDef)]
        ok = len(inner) == 1 and [a.arg for a in maker.args.args] == ["func"] and inner[0].args.vararg is not None \
            and inner[0].args.kwarg is not None and not inner[0].args.args and not inner[0].decorator_list \
            and [U(s) for s in _body(inner[0])] == ["_ensure_loaded()", f"return func(*{inner[0].args.vararg.arg}, **{inner[0].args.kwarg.arg})"] \
            and isinstance(maker.body[-1], ast.Return) and U(maker.body[-1].value) == inner[0].name
        if not ok:
            raise Unsupported(f"{path}:{maker.lineno}: `_make_lazy` is not the pass-through wrapper `_ensure_loaded(); return func(*args, **kwargs)`")
    return wrapped


def load_kernels(pkg: Path = PKG):
    """-> (kernels: python name -> KInfo, forwards: python name -> Forward, geometry export map: name -> ns, untranslated: name -> why)"""
    kernels, forwards, untranslated = {}, {}, {}
    det = pkg / "detectors"
    for ns, path in (("DigiId", det / "digi_id.py"), ("Mdc", det / "geometry" / "mdc.py"), ("Emc", det / "geometry" / "emc.py")):
        try:
            tree = ast.parse(path.read_text())
        except (OSError, SyntaxError) as ex:
            raise Unsupported(f"{path}: {ex}")
        tn = {g: f"mod_{g}" for g in _loader_globals(tree)} if ns != "DigiId" else {}
        mt = ModuleTranslator(path, table_names=tn)
        kinds = _table_kinds(ns) if ns != "DigiId" else {}
        for st in mt.tree.body:
            if not isinstance(st, ast.FunctionDef):
                continue
            if not mt.is_vectorize(st):
                mt.plain_funcs[st.name] = st
                continue
            try:
                k = mt._kernel(st)
            except KernelUnsupported as ex:
                untranslated[st.name] = str(ex)
                continue
            mt.kernels[st.name] = k
            ann = U(st.returns) if st.returns is not None else "?"
            vtype = {"IntLike": "int", "BoolLike": "bool", "FloatLike": "float"}.get(ann)
            if vtype is None:
                raise Unsupported(f"{path}:{st.lineno}: kernel `{st.name}` has return annotation `{ann}` (expected IntLike / BoolLike / FloatLike)")
            if k.ret == "bool" and vtype != "bool":
                raise Unsupported(f"{path}:{st.lineno}: kernel `{st.name}` returns a comparison but is annotated `{ann}`")
            for t in k.tables:               # cross-check the annotation against the evaluated tables, when they are there
                kd = kinds.get(t)
                if kd is not None and (kd == "f") != (vtype == "float") and len(k.tables) == 1 and U(st.body[-1].value).startswith(t + "["):
                    raise Unsupported(f"{path}:{st.lineno}: kernel `{st.name}` is annotated `{ann}` but returns table `{t}` of kind {kd}")
            ptypes = []
            for a in st.args.args:
                pa = U(a.annotation) if a.annotation is not None else "?"
                if pa not in ("IntLike", "BoolLike", "FloatLike"):
                    raise Unsupported(f"{path}:{st.lineno}: parameter `{a.arg}` of kernel `{st.name}` annotated `{pa}`")
                ptypes.append("float" if pa == "FloatLike" else "int")
            kernels_entry = KInfo(st.name, ns, list(k.params), k.ret, k.ordered, vtype, ptypes)
            if st.name in kernels:
                raise Unsupported(f"kernel name `{st.name}` defined in two modules")
            kernels[st.name] = kernels_entry
        if ns == "DigiId":
            for name, fn in mt.plain_funcs.items():
                f = _forward(fn, mt.kernels)
                if f is not None:
                    forwards[name] = f
        else:
            _check_lazy_wrapper(tree, path, set(mt.kernels))
    # what `from .geometry import X` means
    gpath = det / "geometry" / "__init__.py"
    gexp = {}
    for st in ast.parse(gpath.read_text()).body:
        if isinstance(st, ast.ImportFrom) and st.level == 1 and st.module in ("mdc", "emc"):
            for a in st.names:
                gexp[a.asname or a.name] = ("Mdc" if st.module == "mdc" else "Emc", a.name)
        elif isinstance(st, (ast.ImportFrom, ast.Import)) or (isinstance(st, ast.Assign) and U(st.targets[0]) == "__all__") \
                or (isinstance(st, ast.Expr) and isinstance(st.value, ast.Constant)):
            continue
        else:
            raise Unsupported(f"{gpath}:{st.lineno}: unexpected module-level statement `{U(st)[:100]}`")
    return kernels, forwards, gexp, untranslated


def _forward(fn: ast.FunctionDef, kernels) -> Forward | None:
    if fn.decorator_list or fn.args.vararg or fn.args.kwarg or fn.args.kwonlyargs:
        return None
    params = [a.arg for a in fn.args.args]

    def call(ret):
        if not (isinstance(ret, ast.Return) and isinstance(ret.value, ast.Call) and isinstance(ret.value.func, ast.Name)
                and ret.value.func.id in kernels and not ret.value.keywords
                and all(isinstance(a, ast.Name) and a.id in params for a in ret.value.args)):
            return None
        return (ret.value.func.id, [a.id for a in ret.value.args])
    b = _body(fn)
    if len(b) == 1 and isinstance(b[0], ast.Return):
        c = call(b[0])
        return Forward(params, None, c, None) if c else None
    if len(b) == 1 and isinstance(b[0], ast.If) and len(b[0].body) == 1 and len(b[0].orelse) == 1:
        t = b[0].test
        if isinstance(t, ast.Compare) and len(t.ops) == 1 and isinstance(t.ops[0], ast.Is) and isinstance(t.left, ast.Name) \
                and t.left.id in params and isinstance(t.comparators[0], ast.Constant) and t.comparators[0].value is None:
            opt = t.left.id
            ndef = len(fn.args.defaults)
            defaults = dict(zip(params[len(params) - ndef:], fn.args.defaults))
            if not (opt in defaults and isinstance(defaults[opt], ast.Constant) and defaults[opt].value is None and ndef == 1):
                return None
            c1, c2 = call(b[0].body[0]), call(b[0].orelse[0])
            if c1 and c2 and opt not in c1[1]:
                return Forward(params, opt, c1, c2)
    return None


# ================================================================================================ symbolic values
@dataclass(frozen=True)
class In:
    """the parser's (effective) input: after the optional `ak.flatten` of the `flat` rule"""
    kind: str            # int | record


@dataclass(frozen=True)
class Fld:
    """pass-through of a field of the input record"""
    key: str


@dataclass(frozen=True)
class Call:
    kernel: str
    args: tuple


@dataclass(frozen=True)
class Num:
    v: object


@dataclass(frozen=True)
class Ar:
    op: str
    a: object
    b: object


@dataclass(frozen=True)
class Flag:
    name: str            # with_pos | flat | library


@dataclass(frozen=True)
class BoolConst:
    v: bool


@dataclass
class Rec:
    """what a parser returns (also the local `res` dict under construction)"""
    fields: list = field(default_factory=list)      # [name, value, pos_only]
    origin: str = "res"


@dataclass
class Result:
    name: str
    param: str
    kind: str                   # int | record
    fields: list                # (name, value, pos_only)
    container: str              # by-input-type | by-library | always-zip | delegates:<parser>
    has_flat: bool = False
    flat_ok: bool = False
    has_library: bool = False
    library_ok: bool = False
    libraries: list = field(default_factory=list)
    with_pos_default: bool | None = None
    delegates: str | None = None


ARITH = {ast.Add: "+", ast.Sub: "-", ast.Mult: "*", ast.Div: "/"}


class Tr:
    def __init__(self, tree, kernels, forwards, gexp, untranslated, fname="detectors/__init__.py"):
        self.tree, self.kernels, self.forwards, self.gexp, self.untranslated, self.fname = tree, kernels, forwards, gexp, untranslated, fname
        self.funcs = {}
        self.names = {}          # local name -> ("kernel", py) | ("forward", py)
        self.modalias = {}       # local name -> "DigiId"
        self.results = {}
        self._stack = []
        self._scan_module()

    def err(self, node, msg):
        raise Unsupported(f"{self.fname}:{getattr(node, 'lineno', '?')}: {msg}")

    # ------------------------------------------------------------------ module level
    def _scan_module(self):
        for st in self.tree.body:
            if isinstance(st, ast.ImportFrom):
                if st.level == 1 and st.module is None:
                    for a in st.names:
                        if a.name == "digi_id":
                            self.modalias[a.asname or a.name] = "DigiId"
                        elif a.name != "geometry":
                            self.err(st, f"`from . import {a.name}`: unknown sibling module")
                elif st.level == 1 and st.module == "digi_id":
                    for a in st.names:
                        self._bind(a.asname or a.name, a.name, "DigiId", st)
                elif st.level == 1 and st.module == "geometry":
                    for a in st.names:
                        if a.name in self.gexp:
                            ns, real = self.gexp[a.name]
                            self._bind(a.asname or a.name, real, ns, st)
                        else:
                            self.err(st, f"`{a.name}` is not exported by geometry/__init__.py from .mdc / .emc")
                elif st.level == 1 and st.module in ("geometry.mdc", "geometry.emc"):
                    for a in st.names:
                        self._bind(a.asname or a.name, a.name, "Mdc" if st.module.endswith("mdc") else "Emc", st)
                # every other import binds names the parsers may not call (checked at the call site)
            elif isinstance(st, ast.Import):
                continue
            elif isinstance(st, ast.FunctionDef):
                if st.name in self.funcs:
                    self.err(st, f"`{st.name}` defined twice")
                self.funcs[st.name] = st
            elif isinstance(st, ast.Assign) and len(st.targets) == 1 and U(st.targets[0]) == "__all__":
                continue
            elif isinstance(st, ast.Expr) and isinstance(st.value, ast.Constant):
                continue
            else:
                self.err(st, f"module-level statement `{U(st)[:100]}`: module-level state (tables, caches, memo cells, rebinding of imported "
                             "functions) is outside the translated subset")
        for n in self.funcs:
            if n in self.names or n in self.modalias:
                self.err(self.funcs[n], f"`{n}` shadows an imported kernel / module")
        for p in PARSERS:
            if p not in self.funcs:
                raise Unsupported(f"{self.fname}: parser `{p}` not found")

    def _bind(self, local, real, ns, node):
        if real in self.kernels and self.kernels[real].ns == ns:
            self.names[local] = ("kernel", real)
        elif ns == "DigiId" and real in self.forwards:
            self.names[local] = ("forward", real)
        else:
            self.names[local] = ("other", real)      # constants, untranslated functions: an error only if a parser calls them

    # ------------------------------------------------------------------ parsers
    def parser(self, name) -> Result:
        if name in self.results:
            return self.results[name]
        if name in self._stack:
            raise Unsupported(f"{self.fname}: recursive delegation {' -> '.join(self._stack + [name])}")
        self._stack.append(name)
        try:
            r = Exec(self, self.funcs[name]).run()
        finally:
            self._stack.pop()
        self.results[name] = r
        return r


def vtype(tr: Tr, v) -> str:
    if isinstance(v, In):
        return v.kind
    if isinstance(v, Fld):
        return "field"
    if isinstance(v, Call):
        return tr.kernels[v.kernel].vtype
    if isinstance(v, Num):
        return "num"
    if isinstance(v, Ar):
        return "float"
    if isinstance(v, Rec):
        return "rec"
    return "other"


def subst(v, repl):
    if isinstance(v, In):
        return repl
    if isinstance(v, Fld):
        raise Unsupported("delegation to a parser of a record input with a non-record argument")
    if isinstance(v, Call):
        return Call(v.kernel, tuple(subst(a, repl) for a in v.args))
    if isinstance(v, Ar):
        return Ar(v.op, subst(v.a, repl), subst(v.b, repl))
    return v


def show(v) -> str:
    if isinstance(v, In):
        return "in"
    if isinstance(v, Fld):
        return f'in["{v.key}"]'
    if isinstance(v, Call):
        return f"{v.kernel}(" + ", ".join(show(a) for a in v.args) + ")"
    if isinstance(v, Num):
        return repr(v.v)
    if isinstance(v, Ar):
        return f"({show(v.a)} {v.op} {show(v.b)})"
    raise Unsupported(f"internal: cannot print {v!r}")


def leaves(v, out=None):
    out = [] if out is None else out
    if isinstance(v, (In, Fld)):
        if v not in out:
            out.append(v)
    elif isinstance(v, Call):
        for a in v.args:
            leaves(a, out)
    elif isinstance(v, Ar):
        leaves(v.a, out)
        leaves(v.b, out)
    return out


def pure_kernel_tree(v) -> bool:
    if isinstance(v, (In, Fld)):
        return True
    if isinstance(v, Call):
        return all(pure_kernel_tree(a) for a in v.args)
    return False


class Exec:
    """symbolic execution of one parser body"""

    def __init__(self, tr: Tr, fn: ast.FunctionDef):
        self.tr, self.fn = tr, fn
        self.err = tr.err
        if fn.decorator_list:
            self.err(fn, f"`{fn.name}` is decorated with `{U(fn.decorator_list[0])}` (memoisation / wrapping is outside the translated subset)")
        a = fn.args
        if a.vararg or a.kwarg or a.kwonlyargs or a.posonlyargs:
            self.err(fn, f"`{fn.name}`: unsupported signature")
        self.params = [x.arg for x in a.args]
        nd = len(a.defaults)
        self.defaults = dict(zip(self.params[len(self.params) - nd:], a.defaults))
        if not self.params or self.params[0] in self.defaults:
            self.err(fn, f"`{fn.name}`: first parameter must be the input")
        self.input = self.params[0]
        ann = U(a.args[0].annotation) if a.args[0].annotation is not None else "?"
        if ann == "IntLike":
            self.kind = "int"
        elif ann in ("ak.Record", "ak.Array"):
            self.kind = "record"
        else:
            self.err(fn, f"`{fn.name}`: input annotated `{ann}` (expected IntLike or ak.Record)")
        self.env = {self.input: In(self.kind)}
        for p in self.params[1:]:
            if p not in ("with_pos", "flat", "library"):
                self.err(fn, f"`{fn.name}`: unknown parameter `{p}`")
            d = self.defaults.get(p)
            if d is None or not isinstance(d, ast.Constant):
                self.err(fn, f"`{fn.name}`: parameter `{p}` needs a literal default")
            self.env[p] = Flag(p)
        self.res = Result(fn.name, self.input, self.kind, [], "?")
        self.res.has_flat = "flat" in self.params
        self.res.has_library = "library" in self.params
        if "with_pos" in self.params:
            if not isinstance(self.defaults["with_pos"].value, bool):
                self.err(fn, "default of with_pos is not a bool")
            self.res.with_pos_default = self.defaults["with_pos"].value
        self.input_used = False
        self.in_pos = False
        self.pos_locals = set()
        self.returned = False

    # ------------------------------------------------------------------ statements
    def run(self) -> Result:
        body = _body(self.fn)
        for i, st in enumerate(body):
            if self.returned:
                self.err(st, "statement after the return")
            self.stmt(st, last=(i == len(body) - 1))
        if not self.returned:
            self.err(self.fn, f"`{self.fn.name}` does not end in a return")
        return self.res

    def stmt(self, st, last):
        if isinstance(st, ast.If):
            return self.if_(st, last)
        if isinstance(st, ast.Return):
            return self.ret(st)
        if isinstance(st, ast.Assign):
            return self.assign(st)
        if isinstance(st, (ast.For, ast.AsyncFor, ast.While)):
            self.err(st, f"loop `{U(st).splitlines()[0]}` (parsers must be straight-line compositions of kernels)")
        if isinstance(st, (ast.Global, ast.Nonlocal)):
            self.err(st, f"`{U(st)}`: module-level state (memoisation / caches) is outside the translated subset")
        if isinstance(st, ast.AugAssign):
            self.err(st, f"augmented assignment `{U(st)}` (in-place mutation)")
        if isinstance(st, ast.Expr):
            self.err(st, f"expression statement `{U(st)[:100]}` (side effect: cache update / in-place mutation?)")
        self.err(st, f"unsupported statement {type(st).__name__}: `{U(st).splitlines()[0][:100]}`")

    def _identity_hint(self, test) -> str:
        for n in ast.walk(test):
            if isinstance(n, ast.Compare) and any(isinstance(o, (ast.Is, ast.IsNot)) for o in n.ops):
                return " (identity check - on the input? - i.e. memoisation keyed on object identity)"
            if isinstance(n, ast.Compare) and any(isinstance(o, (ast.In, ast.NotIn)) for o in n.ops):
                return " (membership test: cache / table lookup?)"
        return ""

    def if_(self, st, last):
        t = st.test
        src = U(t)
        # 1. library validation
        if isinstance(t, ast.Compare) and len(t.ops) == 1 and isinstance(t.ops[0], ast.NotIn) and src.startswith("library not in "):
            if "library" not in self.params or self.in_pos:
                self.err(st, f"`{src}` without a `library` parameter")
            lst = t.comparators[0]
            if not (isinstance(lst, (ast.List, ast.Tuple, ast.Set)) and all(isinstance(e, ast.Constant) and isinstance(e.value, str) for e in lst.elts)):
                self.err(st, f"library validation `{src}`")
            if st.orelse or len(st.body) != 1 or not isinstance(st.body[0], ast.Raise):
                self.err(st, f"library validation `{src}` must only raise")
            self.res.libraries = [e.value for e in lst.elts]
            return
        # 2. the flat rule
        if isinstance(t, ast.BoolOp) and isinstance(t.op, ast.And) and any(U(v) == "flat" for v in t.values):
            if "flat" not in self.params or self.in_pos:
                self.err(st, f"`if {src}` without a `flat` parameter")
            want_t = f"flat and isinstance({self.input}, ak.Array)"
            want_b = f"{self.input} = ak.flatten({self.input})"
            if src != want_t:
                self.err(st, f"flat rule: condition is `{src}`, expected `{want_t}`")
            if st.orelse or len(st.body) != 1 or U(st.body[0]) != want_b:
                got = "; ".join(U(s) for s in st.body)
                self.err(st, f"flat rule: `flat=True` does `{got}`, expected exactly `{want_b}` (ak.flatten with its default axis=1 of the input, "
                             "nothing else) - `flatMeansFlattenInputFirst` cannot be stated")
            if self.input_used:
                self.err(st, "flat rule: the input is flattened only AFTER it has been used (kernels would see the unflattened input)")
            if self.res.flat_ok:
                self.err(st, "flat rule applied twice")
            self.res.flat_ok = True
            return
        # 3. with_pos block
        if src == "with_pos":
            if "with_pos" not in self.params or self.in_pos or st.orelse:
                self.err(st, "`if with_pos:` nested / with else / without a with_pos parameter")
            self.in_pos = True
            for s in st.body:
                if isinstance(s, ast.Assign):
                    self.assign(s)
                else:
                    self.err(s, f"only assignments are supported inside `if with_pos:`, got `{U(s).splitlines()[0][:100]}`")
            self.in_pos = False
            return
        # 4. container switch (must be the last statement)
        if len(st.body) == 1 and len(st.orelse) == 1 and isinstance(st.body[0], ast.Return) and isinstance(st.orelse[0], ast.Return):
            a, b = st.body[0], st.orelse[0]
            if src == f"isinstance({self.input}, ak.Array)":
                kind, zipped, plain = "by-input-type", a, b
            elif src == "library == 'ak'" and "library" in self.params:
                kind, zipped, plain = "by-library", a, b
            elif src == "library == 'np'" and "library" in self.params:
                kind, zipped, plain = "by-library", b, a
            else:
                self.err(st, f"unsupported `if` test `{src}`{self._identity_hint(t)}")
            if not last:
                self.err(st, "container switch is not the last statement")
            dict_name = self._res_name()
            if U(zipped.value) != f"ak.zip({dict_name})":
                self.err(zipped, f"container switch: the awkward branch returns `{U(zipped.value)}`, expected `ak.zip({dict_name})`")
            if U(plain.value) != dict_name:
                self.err(plain, f"container switch: the non-awkward branch returns `{U(plain.value)}`, expected the dict `{dict_name}` itself "
                                "(no conversion: `library` may only select the container) - `libraryOnlyChangesContainer` cannot be stated")
            if kind == "by-library":
                if self.res.libraries and sorted(self.res.libraries) != ["ak", "np"]:
                    self.err(st, f"library switch over {self.res.libraries}")
                self.res.library_ok = True
            self.finish(self.env[dict_name], kind)
            return
        self.err(st, f"unsupported `if` test `{src}`{self._identity_hint(t)}")

    def _res_name(self):
        names = [k for k, v in self.env.items() if isinstance(v, Rec) and v.origin == "res"]
        if len(names) != 1:
            self.err(self.fn, f"expected exactly one result dict, found {names}")
        return names[0]

    def finish(self, rec: Rec, container, delegates=None):
        self.res.fields = [tuple(f) for f in rec.fields]
        self.res.container = container
        self.res.delegates = delegates
        self.returned = True

    def ret(self, st):
        if self.in_pos or st.value is None:
            self.err(st, "bare / conditional return")
        v = st.value
        if isinstance(v, ast.Call) and U(v.func) == "ak.zip" and len(v.args) == 1 and not v.keywords and isinstance(v.args[0], ast.Name):
            rec = self.env.get(v.args[0].id)
            if not (isinstance(rec, Rec) and rec.origin == "res"):
                self.err(st, f"`{U(v)}`: not the result dict")
            return self.finish(rec, "always-zip")
        if isinstance(v, ast.Call) and isinstance(v.func, ast.Name) and v.func.id in PARSERS:
            rec = self.delegate(v)
            return self.finish(rec, f"delegates:{v.func.id}", delegates=v.func.id)
        self.err(st, f"unsupported return `{U(st)[:120]}` (expected `ak.zip(res)`, the container switch, or a delegation to another parser)")

    def assign(self, st):
        if len(st.targets) != 1:
            self.err(st, "chained assignment")
        t = st.targets[0]
        if isinstance(t, ast.Name):
            if t.id == self.input or t.id in self.params:
                self.err(st, f"`{U(st)[:100]}` rebinds the parameter `{t.id}` (only the flat rule may replace the input)")
            if t.id in self.tr.names or t.id in self.tr.modalias or t.id in self.tr.funcs or t.id in ("ak", "np"):
                self.err(st, f"`{U(st)[:100]}` shadows an imported name")
            val = self.dict_literal(st.value) if isinstance(st.value, ast.Dict) else self.expr(st.value)
            if isinstance(val, Rec) and val.origin == "res" and any(isinstance(x, Rec) and x.origin == "res" for x in self.env.values()):
                self.err(st, "second result dict")
            self.env[t.id] = val
            if self.in_pos:
                self.pos_locals.add(t.id)
            else:
                self.pos_locals.discard(t.id)
            return
        if isinstance(t, ast.Subscript) and isinstance(t.value, ast.Name):
            tgt = self.env.get(t.value.id)
            if t.value.id == self.input or isinstance(tgt, (In, Fld)):
                self.err(st, f"`{U(st)[:100]}`: in-place mutation of the input")
            if isinstance(tgt, Rec) and tgt.origin == "res":
                if not (isinstance(t.slice, ast.Constant) and isinstance(t.slice.value, str)):
                    self.err(st, "result key is not a string literal")
                self.set_field(tgt, t.slice.value, self.expr(st.value), st)
                return
            self.err(st, f"`{U(st)[:100]}`: store into `{t.value.id}` (module-level table / cache / a delegated result?)")
        self.err(st, f"unsupported assignment target `{U(t)}`")

    def set_field(self, rec: Rec, key, val, node):
        if isinstance(val, (Rec, Flag, BoolConst)) or vtype(self.tr, val) in ("record", "other", "num"):
            self.err(node, f"field `{key}` is bound to `{U(node.value) if hasattr(node, 'value') else '?'}`, not to a kernel result / pass-through field")
        for f in rec.fields:
            if f[0] == key:
                if f[2] != self.in_pos:
                    self.err(node, f"field `{key}` is set both with and without positions")
                f[1] = val               # python dict: re-assignment keeps the position
                return
        rec.fields.append([key, val, self.in_pos])

    def dict_literal(self, d: ast.Dict) -> Rec:
        rec = Rec([], "res")
        for k, v in zip(d.keys, d.values):
            if not (isinstance(k, ast.Constant) and isinstance(k.value, str)):
                self.err(d, "dict literal with a non-literal key / unpacking")
            fake = ast.Assign(targets=[], value=v, lineno=getattr(v, "lineno", d.lineno))
            self.set_field(rec, k.value, self.expr(v), fake)
        return rec

    # ------------------------------------------------------------------ expressions
    def expr(self, e):
        if isinstance(e, ast.Name):
            if e.id in self.env:
                if e.id in self.pos_locals and not self.in_pos:
                    self.err(e, f"`{e.id}` is only defined when with_pos is true")
                v = self.env[e.id]
                if isinstance(v, In):
                    self.input_used = True
                return v
            if e.id in self.tr.names or e.id in self.tr.funcs:
                self.err(e, f"function `{e.id}` used as a value")
            self.err(e, f"unknown name `{e.id}`: only parameters, locals and imported kernels may be used (a module-level table, cache or memo cell "
                        "would bypass the kernels)")
        if isinstance(e, ast.Constant):
            if isinstance(e.value, bool):
                return BoolConst(e.value)
            if isinstance(e.value, (int, float)):
                return Num(e.value)
            self.err(e, f"constant {e.value!r}")
        if isinstance(e, ast.Subscript):
            base = self.expr(e.value)
            if not (isinstance(e.slice, ast.Constant) and isinstance(e.slice.value, str)):
                self.err(e, f"subscript `{U(e)[:100]}`: only `x[\"field\"]` of the input record / of a delegated result is supported "
                            "(a table lookup here would bypass the kernels)")
            key = e.slice.value
            if isinstance(base, In) and base.kind == "record":
                return Fld(key)
            if isinstance(base, Rec) and base.origin != "res":
                for n, v, pos in base.fields:
                    if n == key:
                        if pos and not self.in_pos:
                            self.err(e, f"`{U(e)}` only exists when with_pos is true")
                        return v
                self.err(e, f"`{U(e)}`: `{base.origin}` has no field `{key}`")
            self.err(e, f"subscript `{U(e)[:100]}` of a value that is neither the input record nor a delegated result")
        if isinstance(e, ast.BinOp):
            op = ARITH.get(type(e.op))
            a, b = self.expr(e.left), self.expr(e.right)
            ta, tb = vtype(self.tr, a), vtype(self.tr, b)
            if op is None or not ({ta, tb} <= {"float", "num"} and "float" in (ta, tb)):
                self.err(e, f"`{U(e)[:100]}`: arithmetic outside the kernels is only supported on float-valued kernel results "
                            f"(operand kinds {ta}, {tb}; integer / bit arithmetic on identifiers belongs into a kernel)")
            return Ar(op, a, b)
        if isinstance(e, ast.Call):
            return self.call(e)
        if isinstance(e, ast.Compare):
            self.err(e, f"comparison `{U(e)[:100]}`{self._identity_hint(e)}")
        self.err(e, f"unsupported expression {type(e).__name__}: `{U(e)[:100]}`")

    def call(self, e: ast.Call):
        f = e.func
        target = None
        if isinstance(f, ast.Attribute) and isinstance(f.value, ast.Name) and f.value.id in self.tr.modalias and f.value.id not in self.env:
            nm = f.attr
            if nm in self.tr.kernels and self.tr.kernels[nm].ns == "DigiId":
                target = ("kernel", nm)
            elif nm in self.tr.forwards:
                target = ("forward", nm)
            elif nm in self.tr.untranslated:
                self.err(e, f"`{U(f)}` is a kernel the translator cannot translate: {self.tr.untranslated[nm]}")
            else:
                self.err(e, f"unknown call `{U(f)}` (not a translated kernel of digi_id.py)")
        elif isinstance(f, ast.Name) and f.id not in self.env:
            if f.id in PARSERS and f.id in self.tr.funcs:
                return self.delegate(e)
            target = self.tr.names.get(f.id)
            if target is None or target[0] == "other":
                if target and target[1] in self.tr.untranslated:
                    self.err(e, f"`{f.id}` is a kernel the translator cannot translate: {self.tr.untranslated[target[1]]}")
                self.err(e, f"unknown call `{U(f)}(...)`: only translated kernels of digi_id.py / geometry and the parsers may be called")
        else:
            self.err(e, f"unknown call `{U(f)}(...)`: only translated kernels of digi_id.py / geometry and the parsers may be called")
        # positional / keyword arguments -> parameter order of the python-level callee
        kind, nm = target
        params = self.tr.kernels[nm].params if kind == "kernel" else self.tr.forwards[nm].params
        if any(isinstance(a, ast.Starred) for a in e.args) or any(k.arg is None for k in e.keywords):
            self.err(e, "star arguments")
        if kind == "kernel" and e.keywords:
            self.err(e, f"keyword arguments in a call of the numba kernel `{nm}`")
        bound = {}
        if len(e.args) > len(params):
            self.err(e, f"too many arguments for `{nm}`")
        for p, a in zip(params, e.args):
            bound[p] = self.arg(a, e)
        for k in e.keywords:
            if k.arg not in params or k.arg in bound:
                self.err(e, f"bad keyword `{k.arg}` for `{nm}`")
            bound[k.arg] = self.arg(k.value, e)
        if kind == "forward":
            fw = self.tr.forwards[nm]
            if fw.opt is None:
                knm, kargs = fw.none_call
            elif fw.opt in bound:
                knm, kargs = fw.some_call        # the argument is a kernel result / input, never None
            else:
                knm, kargs = fw.none_call
            missing = [p for p in kargs if p not in bound]
            if missing or set(bound) - set(kargs):
                self.err(e, f"call `{U(e)[:100]}` does not match the forwarder `{nm}` ({missing or sorted(set(bound) - set(kargs))})")
            args = tuple(bound[p] for p in kargs)
            nm = knm
        else:
            if set(bound) != set(params):
                self.err(e, f"arity mismatch in kernel call `{U(e)[:100]}` (kernel takes {params})")
            args = tuple(bound[p] for p in params)
        ki = self.tr.kernels[nm]
        for a, pt, pn in zip(args, ki.ptypes, ki.params):
            ta = vtype(self.tr, a)
            if pt == "int" and ta not in ("int", "field"):
                self.err(e, f"argument `{pn}` of kernel `{nm}` is {ta}-valued (`{show(a)}`), an integer is expected")
            if pt == "float":
                self.err(e, f"kernel `{nm}` takes a float parameter: outside the translated subset")
        return Call(nm, args)

    def arg(self, a, call):
        v = self.expr(a)
        if not isinstance(v, (In, Fld, Call)):
            self.err(call, f"argument `{U(a)[:80]}` of `{U(call.func)}` is not the input, an input field or a kernel result")
        return v

    def delegate(self, e: ast.Call) -> Rec:
        """`parse_x(<value>, with_pos[=...])`: the callee's symbolic result with its input replaced by <value>"""
        if self.in_pos:
            self.err(e, "delegation inside `if with_pos:`")
        callee = self.tr.parser(e.func.id)
        fn = self.tr.funcs[e.func.id]
        cparams = [a.arg for a in fn.args.args]
        bound = {}
        if len(e.args) > len(cparams) or any(isinstance(a, ast.Starred) for a in e.args) or any(k.arg is None for k in e.keywords):
            self.err(e, f"arguments of `{U(e)[:100]}`")
        for p, a in zip(cparams, e.args):
            bound[p] = a
        for k in e.keywords:
            if k.arg not in cparams or k.arg in bound:
                self.err(e, f"bad keyword `{k.arg}` in `{U(e)[:100]}`")
            bound[k.arg] = k.value
        if cparams[0] not in bound:
            self.err(e, "delegation without the input argument")
        arg = self.expr(bound.pop(cparams[0]))
        if callee.kind == "int":
            if not isinstance(arg, (In, Fld, Call)) or vtype(self.tr, arg) not in ("int", "field"):
                self.err(e, f"`{e.func.id}` is applied to `{show(arg) if isinstance(arg, (In, Fld, Call, Ar, Num)) else arg}`: not an integer-valued input / kernel result")
        else:
            if not (isinstance(arg, In) and arg.kind == "record"):
                self.err(e, f"`{e.func.id}` takes a record: only the caller's own input can be passed on")
        # flags
        pos_mode = "default"
        for p, a in bound.items():
            if p == "with_pos":
                if isinstance(a, ast.Name) and a.id == "with_pos" and isinstance(self.env.get("with_pos"), Flag):
                    pos_mode = "caller"
                elif isinstance(a, ast.Constant) and isinstance(a.value, bool):
                    pos_mode = a.value
                else:
                    self.err(e, f"with_pos argument `{U(a)}` of the delegation")
            else:
                self.err(e, f"delegation passes `{p}` (flat / library of a delegated parser are not supported)")
        if pos_mode == "default":
            pos_mode = callee.with_pos_default if callee.with_pos_default is not None else False
        if callee.has_flat or callee.has_library:
            self.err(e, f"delegation to `{callee.name}`, which has flat / library parameters")
        out = Rec([], origin=f"{callee.name}(...)")
        for n, v, pos in callee.fields:
            v2 = subst(v, arg) if callee.kind == "int" else v
            if not pos:
                out.fields.append([n, v2, False])
            elif pos_mode == "caller":
                out.fields.append([n, v2, True])
            elif pos_mode is True:
                out.fields.append([n, v2, False])
            # pos_mode False: dropped
        return out


# ================================================================================================ emission
HEADER = """-- GENERATED by tools/translate/detparse.py from /repo/src/pybes3/detectors/__init__.py. Do not edit.
import Pybes3Verif.Gen.DigiId
import Pybes3Verif.Gen.Mdc
import Pybes3Verif.Gen.Emc
/-! The record-returning parsers of `pybes3.detectors` as compositions of the translated kernels, extracted from the parser source on
every run by symbolic execution: one definition per integer / Bool-valued output field (`<parser>.<field>`; `_s` / `_u` variants where a
kernel involved compares by order), the complete wiring (field order included, `pos:` = only present `with_pos`) as data, and the
facts about the `flat` / `library` parameters that the translator verified syntactically for every parser that has them. -/
namespace Pybes3Verif.Gen.DetParse
open Pybes3Verif.Gen

"""


def lean_term(tr: Tr, v, pname: str, V: str) -> str:
    if isinstance(v, (In, Fld)):
        return pname
    if isinstance(v, Call):
        ki = tr.kernels[v.kernel]
        head = f"{ki.ns}.{lean_ident(ki.py)}{V if ki.ordered else ''}"
        return "(" + " ".join([head] + [lean_term(tr, a, pname, V) for a in v.args]) + ")"
    raise Unsupported(f"internal: no Lean term for {v!r}")


def has_ordered(tr: Tr, v) -> bool:
    if isinstance(v, Call):
        return tr.kernels[v.kernel].ordered or any(has_ordered(tr, a) for a in v.args)
    return False


def result_lean_type(tr: Tr, v) -> str:
    if isinstance(v, Call) and tr.kernels[v.kernel].ret == "bool":
        return "Bool"
    return "BitVec 64"


def generate(src: str, pkg: Path = PKG):
    try:
        tree = ast.parse(src)
    except SyntaxError as ex:
        raise Unsupported(f"detectors/__init__.py: {ex}")
    try:
        kernels, forwards, gexp, untranslated = load_kernels(Path(pkg))
    except KernelUnsupported as ex:
        raise Unsupported(str(ex))
    tr = Tr(tree, kernels, forwards, gexp, untranslated)
    results = [tr.parser(p) for p in PARSERS]

    L = [HEADER]
    info = {"parsers": {}, "defs": []}
    for r in results:
        pinfo = {"input": r.param, "kind": r.kind, "container": r.container, "fields": [], "with_pos_default": r.with_pos_default,
                 "flat": r.flat_ok if r.has_flat else None, "library": r.library_ok if r.has_library else None}
        L.append(f"/-! ### `{r.name}({r.param}{', with_pos' if r.with_pos_default is not None else ''}"
                 f"{', flat, library' if r.has_flat else ''})` — result container: {r.container} -/\n\n")
        seen = set()
        for n, v, pos in r.fields:
            if n in seen:
                raise Unsupported(f"{r.name}: duplicate field {n}")
            seen.add(n)
            s = show(v)
            pinfo["fields"].append([n, ("pos:" if pos else "") + s])
            vt = vtype(tr, v)
            lv = leaves(v)
            if vt not in ("int", "bool") or not pure_kernel_tree(v) or len(lv) != 1:
                continue                                  # floats, bare pass-through fields: wiring only
            leaf = lv[0]
            if isinstance(leaf, Fld):
                pname = lean_ident(leaf.key)
            else:
                pname = lean_ident(r.param)
            ty = result_lean_type(tr, v)
            for V in (["_s", "_u"] if has_ordered(tr, v) else [""]):
                dn = f"{r.name}.{lean_ident(n)}{V}" if not V else f"{r.name}.{n}{V}"
                L.append(f"/-- `{r.name}(…)[\"{n}\"]`{' (only with_pos)' if pos else ''} = `{s}`"
                         f"{' with `in` = the field `' + leaf.key + '` of the input record' if isinstance(leaf, Fld) else ''} -/\n"
                         f"def {dn} ({pname} : BitVec 64) : {ty} :=\n  {lean_term(tr, v, pname, V)}\n\n")
                info["defs"].append(dn)
        info["parsers"][r.name] = pinfo

    L.append("/-- parser ↦ ordered (field, expression): `in` = the parser's input (after the `flat` rule), `in[\"f\"]` = field `f` of the input record,\n"
             "`k(a, …)` = the numba kernel `k` actually reached (overloads resolved), `pos:` = only present when `with_pos` -/\n"
             "def wiring : List (String × List (String × String)) := [\n")
    rows = []
    for r in results:
        fl = ",\n".join(f"    ({_lean_str(n)}, {_lean_str(e)})" for n, e in info["parsers"][r.name]["fields"])
        rows.append(f"  ({_lean_str(r.name)}, [\n{fl}])")
    L.append(",\n".join(rows) + "]\n\n")
    L.append("/-- parser ↦ how the result container is chosen (`by-input-type`: `ak.zip(res)` iff the input is an `ak.Array`; `by-library`: `ak.zip(res)` iff\n"
             "`library == \"ak\"`, the dict itself otherwise; `always-zip`; `delegates:p`: whatever `p` returns for the computed value) -/\n"
             "def containers : List (String × String) := [\n" +
             ",\n".join(f"  ({_lean_str(r.name)}, {_lean_str(r.container)})" for r in results) + "]\n\n")
    L.append("/-- parser ↦ the fields that are only present when `with_pos` (the same fields whose `wiring` expression carries the `pos:` prefix), in output order -/\n"
             "def posOnly : List (String × List String) := [\n" +
             ",\n".join(f"  ({_lean_str(r.name)}, [" + ", ".join(_lean_str(n) for n, _, pos in r.fields if pos) + "])" for r in results) + "]\n\n")
    L.append("/-- default of `with_pos` -/\ndef withPosDefaults : List (String × Bool) := [\n" +
             ",\n".join(f"  ({_lean_str(r.name)}, {'true' if r.with_pos_default else 'false'})" for r in results if r.with_pos_default is not None) + "]\n\n")
    flat_p = [r for r in results if r.has_flat]
    lib_p = [r for r in results if r.has_library]
    L.append("/-- parsers with a `flat` / a `library` parameter -/\n"
             "def flatParsers : List String := [" + ", ".join(_lean_str(r.name) for r in flat_p) + "]\n"
             "def libraryParsers : List String := [" + ", ".join(_lean_str(r.name) for r in lib_p) + "]\n\n")
    info["flatMeansFlattenInputFirst"] = bool(flat_p) and all(r.flat_ok for r in flat_p)
    info["libraryOnlyChangesContainer"] = bool(lib_p) and all(r.library_ok for r in lib_p)
    if info["flatMeansFlattenInputFirst"]:
        L.append("/-- verified for every parser of `flatParsers`: the ONLY use of `flat` is `if flat and isinstance(x, ak.Array): x = ak.flatten(x)` in front of every\n"
                 "use of the input, i.e. the kernels are applied to `ak.flatten(input)` when `flat` and the input is an awkward array, to the input otherwise -/\n"
                 "def flatMeansFlattenInputFirst : Bool := true\n\n")
    else:
        info["flat_missing"] = [r.name for r in flat_p if not r.flat_ok]
    if info["libraryOnlyChangesContainer"]:
        L.append("/-- verified for every parser of `libraryParsers`: the ONLY uses of `library` are the validation and the final `ak.zip(res)` vs `res` switch -/\n"
                 "def libraryOnlyChangesContainer : Bool := true\n\n")
    else:
        info["library_missing"] = [r.name for r in lib_p if not r.library_ok]
    L.append("end Pybes3Verif.Gen.DetParse\n")
    return "".join(L), info


if __name__ == "__main__":
    import json
    src_path = Path(sys.argv[1]) if len(sys.argv) > 1 else PKG / "detectors" / "__init__.py"
    out_path = Path(sys.argv[2]) if len(sys.argv) > 2 else GEN_DIR / "DetParse.lean"
    try:
        body, info = generate(src_path.read_text())
    except Unsupported as ex:
        print(f"Unsupported: {ex}", file=sys.stderr)
        sys.exit(1)
    if not out_path.exists() or out_path.read_text() != body:
        out_path.write_text(body)
    print(json.dumps(info, indent=1))
