"""Emission of numeric tables as chunked packed Nat literals with a balanced lookup tree (DESIGN.md 5.2).

One huge literal is not usable: Lean's literal parser is quadratic (108k hex digits: 5 s; 800k: > 5 min).
A table is therefore split into chunks of CHUNK entries; `<name>_chunk j` is a balanced `if j < k` tree whose
leaves are the chunk literals, and `<name>_raw i = (chunk (i / CHUNK) >>> (bits * (i % CHUNK))) &&& mask`.
"""
from __future__ import annotations

CHUNK = 64


def pack(data: list[int], bits: int) -> int:
    m = (1 << bits) - 1
    acc = 0
    for i, v in enumerate(data):
        acc |= (v & m) << (bits * i)
    return acc


def _tree(lits: list[str], lo: int, hi: int, ind: int) -> str:
    if hi - lo == 1:
        return lits[lo]
    mid = (lo + hi) // 2
    pad = " " * ind
    return (f"if j < {mid} then\n{pad}  {_tree(lits, lo, mid, ind + 2)}\n{pad}else\n{pad}  {_tree(lits, mid, hi, ind + 2)}")


def emit_table(name: str, t: dict, doc: str = "") -> str:
    """t = {kind: u|i|f, bits, shape, data}. Emits `<name>_chunk j : Nat`, `<name>_len`, `<name>_nchunks`,
    `<name>_raw i : Nat` and `<name> i [j] : BitVec 64` (sign-extended for signed columns; IEEE bits for floats)."""
    bits, shape, data, kind = t["bits"], t["shape"], t["data"], t["kind"]
    n = len(data)
    chunks = [data[i:i + CHUNK] for i in range(0, n, CHUNK)] or [[]]
    lits = [hex(pack(c, bits)) for c in chunks]
    mask = hex((1 << bits) - 1)
    out = [f"/-- {doc} ({kind}{bits}, shape {shape}) -/",
           f"def {name}_chunk (j : Nat) : Nat :=\n  {_tree(lits, 0, len(lits), 2)}",
           f"def {name}_len : Nat := {n}",
           f"def {name}_nchunks : Nat := {len(lits)}",
           f"@[kernel_defs] def {name}_raw (i : Nat) : Nat := ({name}_chunk (i / {CHUNK}) >>> ({bits} * (i % {CHUNK}))) &&& {mask}"]
    if kind == "i":
        conv = f"((BitVec.ofNat {bits} ({name}_raw IDX)).signExtend 64)"
    else:
        conv = f"(BitVec.ofNat 64 ({name}_raw IDX))"
    if len(shape) == 1:
        out.append(f"@[kernel_defs] def {name} (i : Nat) : BitVec 64 := " + conv.replace("IDX", "i"))
    elif len(shape) == 2:
        out.append(f"@[kernel_defs] def {name} (i j : Nat) : BitVec 64 := " + conv.replace("IDX", f"({shape[1]} * i + j)"))
    else:
        raise ValueError("unsupported rank")
    return "\n".join(out) + "\n"
