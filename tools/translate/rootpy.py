"""Translator for the pybes3-specific Python logic of src/pybes3/besio/root_io.py into Lean (Gen/RootPy.lean).

What is translated (each from its own AST, nothing assumed):
  * the two dict-building loops `process_digi_subbranch` (arrays) and `process_digi_subbranch_form` (forms): loop structure,
    the lifted field name, the guards in front of the loop  -> `processDigiArrPy`, `processDigiFormPy`
  * the dispatch of `preprocess_subbranch` and `preprocess_subbranch_form` (path normalisation + condition + callee)
    -> `arrDispatch`, `formDispatch : String -> String -> Bool`
  * the wiring of `Bes3Interpretation.final_array` / `awkward_form` (post-process the result of super() with the branch's
    regularised object path)
  * the tables `bes3_branch2types`, `Bes3SymMatrixArrayFactory.target_items`, the factory priorities
  * `make_awkward_content` / `make_awkward_form` of Bes3TObjArrayFactory and Bes3SymMatrixArrayFactory as *type constructors*
    (ListOffset over the element, Regular n over Regular n over float64)
Anything outside the recognised shapes raises Unsupported (a broken translator obligation - never a silent default).
"""
from __future__ import annotations

import ast


class Unsupported(Exception):
    pass


def _fn(tree, name):
    for n in tree.body:
        if isinstance(n, ast.FunctionDef) and n.name == name:
            return n
    raise Unsupported(f"function {name} not found")


def _cls(tree, name):
    for n in tree.body:
        if isinstance(n, ast.ClassDef) and n.name == name:
            return n
    raise Unsupported(f"class {name} not found")


def _method(cls, name):
    for n in cls.body:
        if isinstance(n, ast.FunctionDef) and n.name == name:
            return n
    raise Unsupported(f"{cls.name}.{name} not found")


def _body(fn):
    """statements without the docstring"""
    b = list(fn.body)
    if b and isinstance(b[0], ast.Expr) and isinstance(b[0].value, ast.Constant) and isinstance(b[0].value.value, str):
        b = b[1:]
    return b


def _lean_str(s: str) -> str:
    if not isinstance(s, str) or any(ord(c) < 32 or c in '"\\' for c in s):
        raise Unsupported(f"string literal {s!r}")
    return '"' + s + '"'


U = ast.unparse


# ------------------------------------------------------------------------------------------------ digi lifting loops
def _lift_loop(stmts, src_fields: str, src_item, what: str):
    """recognise
         fields = {}
         for NAME in <src>.fields [or zip(<rec>.fields, <rec>.contents)]:
             if NAME == "<LIT>":
                 for RAW in <sub fields>: fields[RAW] = <sub item RAW>
             else:
                 fields[NAME] = <item NAME>
       returns the literal."""
    if len(stmts) != 2:
        raise Unsupported(f"{what}: expected `fields = {{}}` followed by one for-loop, got {len(stmts)} statements")
    init, loop = stmts
    if not (isinstance(init, ast.Assign) and U(init) == "fields = {}"):
        raise Unsupported(f"{what}: accumulator is not initialised as `fields = {{}}` but `{U(init)}`")
    if not isinstance(loop, ast.For) or loop.orelse:
        raise Unsupported(f"{what}: no plain for-loop")
    return loop


def translate_process_digi_arr(tree):
    fn = _fn(tree, "process_digi_subbranch")
    if [a.arg for a in fn.args.args] != ["org_arr"]:
        raise Unsupported("process_digi_subbranch signature")
    b = _body(fn)
    # guards:  if not org_arr.fields: assert ...; return org_arr      assert "<LIT>" in org_arr.fields
    if len(b) != 5:
        raise Unsupported(f"process_digi_subbranch: expected guard, assert, init, loop, return; got {len(b)} statements")
    g, a, init, loop, ret = b
    if not (isinstance(g, ast.If) and U(g.test) == "not org_arr.fields" and not g.orelse and isinstance(g.body[-1], ast.Return) and U(g.body[-1].value) == "org_arr"
            and all(isinstance(x, (ast.Assert, ast.Return)) for x in g.body)):
        raise Unsupported(f"process_digi_subbranch: first guard is `{U(g)[:120]}`")
    if not (isinstance(a, ast.Assert) and isinstance(a.test, ast.Compare) and isinstance(a.test.ops[0], ast.In) and U(a.test.comparators[0]) == "org_arr.fields"
            and isinstance(a.test.left, ast.Constant)):
        raise Unsupported(f"process_digi_subbranch: second guard is `{U(a)[:120]}`")
    need = a.test.left.value
    loop = _lift_loop([init, loop], "org_arr.fields", None, "process_digi_subbranch")
    if not (isinstance(loop.target, ast.Name) and U(loop.iter) == "org_arr.fields"):
        raise Unsupported(f"process_digi_subbranch: loop header `for {U(loop.target)} in {U(loop.iter)}`")
    v = loop.target.id
    if len(loop.body) != 1 or not isinstance(loop.body[0], ast.If):
        raise Unsupported("process_digi_subbranch: loop body is not a single if/else")
    iff = loop.body[0]
    t = iff.test
    if not (isinstance(t, ast.Compare) and len(t.ops) == 1 and isinstance(t.ops[0], ast.Eq) and U(t.left) == v and isinstance(t.comparators[0], ast.Constant)):
        raise Unsupported(f"process_digi_subbranch: condition `{U(t)}`")
    lit = t.comparators[0].value
    if lit != need:
        raise Unsupported(f"process_digi_subbranch: asserts {need!r} but lifts {lit!r}")
    if len(iff.body) != 1 or not isinstance(iff.body[0], ast.For):
        raise Unsupported("process_digi_subbranch: lifting branch is not a single for-loop")
    inner = iff.body[0]
    if not (isinstance(inner.target, ast.Name) and U(inner.iter) == f"org_arr[{v}].fields" and len(inner.body) == 1
            and U(inner.body[0]) == f"fields[{inner.target.id}] = org_arr[{v}][{inner.target.id}]"):
        raise Unsupported(f"process_digi_subbranch: lifting loop is `{U(inner)[:160]}`")
    if len(iff.orelse) != 1 or U(iff.orelse[0]) != f"fields[{v}] = org_arr[{v}]":
        raise Unsupported(f"process_digi_subbranch: else branch is `{U(iff.orelse[0]) if iff.orelse else ''}`")
    if not (isinstance(ret, ast.Return) and U(ret.value) == "ak.zip(fields)"):
        raise Unsupported(f"process_digi_subbranch: returns `{U(ret)}`")
    return lit


def translate_process_digi_form(tree):
    fn = _fn(tree, "process_digi_subbranch_form")
    if [a.arg for a in fn.args.args] != ["org_form"]:
        raise Unsupported("process_digi_subbranch_form signature")
    b = _body(fn)
    if len(b) != 5:
        raise Unsupported(f"process_digi_subbranch_form: expected 5 statements, got {len(b)}")
    rec, guard, init, loop, ret = b
    if U(rec) != "record_form = getattr(org_form, 'content', None)":
        raise Unsupported(f"process_digi_subbranch_form: `{U(rec)}`")
    # guard: if not ListOffsetForm or not RecordForm or "<LIT>" not in record_form.fields: return org_form
    if not (isinstance(guard, ast.If) and not guard.orelse and len(guard.body) == 1 and U(guard.body[0]) == "return org_form" and isinstance(guard.test, ast.BoolOp) and isinstance(guard.test.op, ast.Or)):
        raise Unsupported(f"process_digi_subbranch_form: guard `{U(guard)[:160]}`")
    parts = [U(v) for v in guard.test.values]
    if parts[:2] != ["not isinstance(org_form, awkward.forms.ListOffsetForm)", "not isinstance(record_form, awkward.forms.RecordForm)"] or len(parts) != 3:
        raise Unsupported(f"process_digi_subbranch_form: guard tests {parts}")
    last = guard.test.values[2]
    if not (isinstance(last, ast.Compare) and isinstance(last.ops[0], ast.NotIn) and isinstance(last.left, ast.Constant) and U(last.comparators[0]) == "record_form.fields"):
        raise Unsupported(f"process_digi_subbranch_form: guard `{parts[2]}`")
    need = last.left.value
    loop = _lift_loop([init, loop], None, None, "process_digi_subbranch_form")
    if not (isinstance(loop.target, ast.Tuple) and len(loop.target.elts) == 2 and U(loop.iter) == "zip(record_form.fields, record_form.contents)"):
        raise Unsupported(f"process_digi_subbranch_form: loop header `for {U(loop.target)} in {U(loop.iter)}`")
    n, f = (e.id for e in loop.target.elts)
    iff = loop.body[0] if len(loop.body) == 1 and isinstance(loop.body[0], ast.If) else None
    if iff is None:
        raise Unsupported("process_digi_subbranch_form: loop body")
    t = iff.test
    if not (isinstance(t, ast.Compare) and isinstance(t.ops[0], ast.Eq) and U(t.left) == n and isinstance(t.comparators[0], ast.Constant)):
        raise Unsupported(f"process_digi_subbranch_form: condition `{U(t)}`")
    lit = t.comparators[0].value
    if lit != need:
        raise Unsupported(f"process_digi_subbranch_form: guard tests {need!r} but lifts {lit!r}")
    inner = iff.body[0] if len(iff.body) == 1 and isinstance(iff.body[0], ast.For) else None
    if inner is None or not (isinstance(inner.target, ast.Tuple) and U(inner.iter) == f"zip({f}.fields, {f}.contents)" and len(inner.body) == 1):
        raise Unsupported("process_digi_subbranch_form: lifting loop")
    rn, rf = (e.id for e in inner.target.elts)
    if U(inner.body[0]) != f"fields[{rn}] = {rf}":
        raise Unsupported(f"process_digi_subbranch_form: lifting assignment `{U(inner.body[0])}`")
    if len(iff.orelse) != 1 or U(iff.orelse[0]) != f"fields[{n}] = {f}":
        raise Unsupported("process_digi_subbranch_form: else branch")
    want = "awkward.forms.ListOffsetForm(org_form.offsets, awkward.forms.RecordForm(list(fields.values()), list(fields.keys())))"
    if not (isinstance(ret, ast.Return) and U(ret.value) == want):
        raise Unsupported(f"process_digi_subbranch_form: returns `{U(ret)[:200]}`")
    return lit


# ------------------------------------------------------------------------------------------------ dispatch
def _cond_to_lean(e, names):
    """and/or/not of (Name ==/!= "literal") over the two names -> Lean Bool"""
    if isinstance(e, ast.BoolOp):
        op = " && " if isinstance(e.op, ast.And) else " || "
        return "(" + op.join(_cond_to_lean(v, names) for v in e.values) + ")"
    if isinstance(e, ast.UnaryOp) and isinstance(e.op, ast.Not):
        return f"(!{_cond_to_lean(e.operand, names)})"
    if isinstance(e, ast.Compare) and len(e.ops) == 1 and isinstance(e.left, ast.Name) and e.left.id in names and isinstance(e.comparators[0], ast.Constant) \
            and isinstance(e.comparators[0].value, str):
        lean_name = names[e.left.id]
        if isinstance(e.ops[0], ast.Eq):
            return f"({lean_name} == {_lean_str(e.comparators[0].value)})"
        if isinstance(e.ops[0], ast.NotEq):
            return f"({lean_name} != {_lean_str(e.comparators[0].value)})"
    raise Unsupported(f"dispatch condition `{U(e)}`")


def translate_dispatch(tree, fname, arg, callee):
    fn = _fn(tree, fname)
    if [a.arg for a in fn.args.args] != ["full_branch_path", arg]:
        raise Unsupported(f"{fname} signature")
    b = _body(fn)
    if len(b) != 4:
        raise Unsupported(f"{fname}: expected 4 statements, got {len(b)}")
    if U(b[0]) != "full_branch_path = full_branch_path.replace('/Event:', '')" or U(b[1]) != "evt_name, subbranch_name = full_branch_path.split('/')":
        raise Unsupported(f"{fname}: path normalisation `{U(b[0])}` / `{U(b[1])}`")
    iff, ret = b[2], b[3]
    if not (isinstance(iff, ast.If) and not iff.orelse and len(iff.body) == 1 and U(iff.body[0]) == f"return {callee}({arg})"):
        raise Unsupported(f"{fname}: `{U(iff)[:160]}`")
    if U(ret) != f"return {arg}":
        raise Unsupported(f"{fname}: default `{U(ret)}`")
    return _cond_to_lean(iff.test, {"evt_name": "evt", "subbranch_name": "sub"})


def check_interpretation(tree):
    c = _cls(tree, "Bes3Interpretation")
    fa = _body(_method(c, "final_array"))
    if len(fa) != 3 or not U(fa[0]).startswith("arr = super().final_array(basket_arrays, entry_start, entry_stop, entry_offsets, library, branch, options)") \
            or U(fa[1]) != "full_branch_path = regularize_object_path(branch.object_path)" or U(fa[2]) != "return preprocess_subbranch(full_branch_path, arr)":
        raise Unsupported("Bes3Interpretation.final_array is not `preprocess_subbranch(regularize_object_path(branch.object_path), super().final_array(...))`")
    af = _body(_method(c, "awkward_form"))
    if len(af) != 3 or U(af[0]) != "form = super().awkward_form(file, *args, **kwargs)" or U(af[1]) != "full_branch_path = regularize_object_path(self._branch.object_path)" \
            or U(af[2]) != "return preprocess_subbranch_form(full_branch_path, form)":
        raise Unsupported("Bes3Interpretation.awkward_form is not `preprocess_subbranch_form(regularize_object_path(self._branch.object_path), super().awkward_form(...))`")


# ------------------------------------------------------------------------------------------------ tables
def tables(tree):
    b2t = None
    for n in tree.body:
        if isinstance(n, ast.Assign) and U(n.targets[0]) == "bes3_branch2types":
            b2t = ast.literal_eval(n.value)
    if not isinstance(b2t, dict):
        raise Unsupported("bes3_branch2types is not a dict literal")
    sm = _cls(tree, "Bes3SymMatrixArrayFactory")
    items = None
    for n in sm.body:
        if isinstance(n, ast.Assign) and U(n.targets[0]) == "target_items":
            items = ast.literal_eval(n.value)
    if not isinstance(items, set):
        raise Unsupported("Bes3SymMatrixArrayFactory.target_items is not a set literal")
    prio = {}
    for cname in ["Bes3TObjArrayFactory", "Bes3BaseObjectFactory", "Bes3CgemClusterColFactory", "Bes3SymMatrixArrayFactory"]:
        m = _body(_method(_cls(tree, cname), "priority"))
        if len(m) != 1 or not (isinstance(m[0], ast.Return) and isinstance(m[0].value, ast.Constant) and isinstance(m[0].value.value, int)):
            raise Unsupported(f"{cname}.priority")
        prio[cname] = m[0].value.value
    return b2t, sorted(items), prio


# ------------------------------------------------------------------------------------------------ forms / contents as type constructors
def factory_types(tree):
    """Bes3TObjArrayFactory: content = ListOffsetArray(Index64(offsets), element content), form = ListOffsetForm("i64", element form)
       Bes3SymMatrixArrayFactory: content = Regular(Regular(NumpyArray(raw.reshape(-1)), full_dim), full_dim), form = the same nest over float64"""
    t = _cls(tree, "Bes3TObjArrayFactory")
    mc = _body(_method(t, "make_awkward_content"))
    want_c = ["offsets, element_raw_data = raw_data", "element_content = self.element_factory.make_awkward_content(element_raw_data)",
              "return awkward.contents.ListOffsetArray(awkward.index.Index64(offsets), element_content)"]
    if [U(x) for x in mc] != want_c:
        raise Unsupported(f"Bes3TObjArrayFactory.make_awkward_content: {[U(x) for x in mc]}")
    mf = _body(_method(t, "make_awkward_form"))
    want_f = ["element_form = self.element_factory.make_awkward_form()", "return awkward.forms.ListOffsetForm('i64', element_form)"]
    if [U(x) for x in mf] != want_f:
        raise Unsupported(f"Bes3TObjArrayFactory.make_awkward_form: {[U(x) for x in mf]}")
    s = _cls(tree, "Bes3SymMatrixArrayFactory")

    def nest(e, leaf_ok):
        """Regular*(…, dim) nest -> list of dims (outermost first)"""
        dims = []
        while isinstance(e, ast.Call) and U(e.func) in ("awkward.contents.RegularArray", "awkward.forms.RegularForm") and len(e.args) == 2 and not e.keywords:
            dims.append(U(e.args[1])); e = e.args[0]
        if not leaf_ok(U(e)):
            raise Unsupported(f"Bes3SymMatrixArrayFactory: innermost node `{U(e)}`")
        return dims
    mc = _body(_method(s, "make_awkward_content"))
    if len(mc) != 1 or not isinstance(mc[0], ast.Return):
        raise Unsupported("Bes3SymMatrixArrayFactory.make_awkward_content")
    dc = nest(mc[0].value, lambda u: u == "awkward.contents.NumpyArray(raw_data.reshape(-1))")
    mf = _body(_method(s, "make_awkward_form"))
    if len(mf) != 1 or not isinstance(mf[0], ast.Return):
        raise Unsupported("Bes3SymMatrixArrayFactory.make_awkward_form")
    df = nest(mf[0].value, lambda u: u == "awkward.forms.NumpyForm('float64')")
    init = [U(x) for x in _body(_method(s, "__init__"))]
    if "assert ctype == 'd', 'Only double precision symmetric matrix is supported.'" not in init:
        raise Unsupported("Bes3SymMatrixArrayFactory.__init__ no longer asserts ctype == 'd' (form announces float64)")

    def dim(u):
        if u != "self.full_dim":
            raise Unsupported(f"Bes3SymMatrixArrayFactory: regular size `{u}` is not self.full_dim")
        return "n"
    return [dim(u) for u in dc], [dim(u) for u in df]


HEADER = """-- GENERATED by tools/translate/rootpy.py from /repo/src/pybes3/besio/root_io.py. Do not edit.
import Pybes3Verif.Model.Forms
/-! pybes3's own Python logic of `root_io.py`, translated from the source on every run: the digi lifting loops (arrays and forms),
the post-processing dispatch of the eager and the lazy path, the branch / matrix-member tables, the factories' content and form
constructors as type constructors. -/
namespace Pybes3Verif.Gen.RootPy
open Pybes3Verif.Root Pybes3Verif.Forms

"""


def generate(src: str):
    tree = ast.parse(src)
    lit_a = translate_process_digi_arr(tree)
    lit_f = translate_process_digi_form(tree)
    ca = translate_dispatch(tree, "preprocess_subbranch", "org_arr", "process_digi_subbranch")
    cf = translate_dispatch(tree, "preprocess_subbranch_form", "org_form", "process_digi_subbranch_form")
    check_interpretation(tree)
    b2t, items, prio = tables(tree)
    dc, df = factory_types(tree)
    L = [HEADER]
    L.append(f"""/-- `process_digi_subbranch`: `fields = {{}}; for name in arr.fields: if name == {lit_a!r}: for raw in arr[name].fields: fields[raw] = arr[name][raw]
else: fields[name] = arr[name]; ak.zip(fields)`; before the loop: no fields at all -> returned unchanged, {lit_a!r} missing -> AssertionError (`none`) -/
def processDigiArrPy {{α : Type}} (fields : List (String × Col α)) : Option (List (String × Col α)) :=
  if fields.isEmpty then some fields
  else if !(fields.any (fun x => x.1 == {_lean_str(lit_a)})) then none
  else some (fields.foldl (fun acc (name, col) =>
    if name == {_lean_str(lit_a)} then
      match col with
      | .record sub => sub.foldl (fun a (n, c) => dictSet a n c) acc
      | .leaf _ => acc
    else dictSet acc name col) [])

/-- `process_digi_subbranch_form`: the same loop over `zip(record.fields, record.contents)`; a record without {lit_f!r} is returned unchanged -/
def processDigiFormPy {{α : Type}} (fields : List (String × Col α)) : List (String × Col α) :=
  if !(fields.any (fun x => x.1 == {_lean_str(lit_f)})) then fields
  else fields.foldl (fun acc (name, col) =>
    if name == {_lean_str(lit_f)} then
      match col with
      | .record sub => sub.foldl (fun a (n, c) => dictSet a n c) acc
      | .leaf _ => acc
    else dictSet acc name col) []

/-- `preprocess_subbranch`: the condition under which the eager result is post-processed (`evt`, `sub` = the two components of the
regularised object path without `/Event:`) -/
def arrDispatch (evt sub : String) : Bool := {ca}

/-- `preprocess_subbranch_form`: the condition under which the announced form is post-processed -/
def formDispatch (evt sub : String) : Bool := {cf}

/-- keys of `bes3_branch2types` with their element class -/
def branch2types : List (String × String) := [
""")
    L.append(",\n".join(f"  ({_lean_str(k)}, {_lean_str(v)})" for k, v in b2t.items()) + "]\n")
    L.append("\n/-- `Bes3SymMatrixArrayFactory.target_items` (sorted) -/\ndef targetItems : List String := [\n" + ",\n".join(f"  {_lean_str(x)}" for x in items) + "]\n")
    L.append("\n/-- factory priorities -/\n" + "\n".join(f"def prio{k} : Nat := {v}" for k, v in prio.items()) + "\n")
    L.append(f"""
/-- awkward types as far as pybes3's own factories build them -/
inductive Ty
  | float64
  | other (name : String)
  | regular (size : Nat) (content : Ty)
  | listOffset (content : Ty)
  deriving DecidableEq, Repr

/-- `Bes3SymMatrixArrayFactory.make_awkward_content` as a type constructor (outermost regular dimension first) -/
def symContentTy (n : Nat) : Ty := {"".join(f"Ty.regular {d} (" for d in dc)}Ty.float64{")" * len(dc)}
/-- `Bes3SymMatrixArrayFactory.make_awkward_form` -/
def symFormTy (n : Nat) : Ty := {"".join(f"Ty.regular {d} (" for d in df)}Ty.float64{")" * len(df)}
/-- `Bes3TObjArrayFactory.make_awkward_content` / `make_awkward_form` over an element factory -/
def tobjContentTy (elem : Ty) : Ty := Ty.listOffset elem
def tobjFormTy (elem : Ty) : Ty := Ty.listOffset elem

end Pybes3Verif.Gen.RootPy
""")
    info = {"lifted_field": lit_a, "dispatch_arr": ca, "dispatch_form": cf, "branches": len(b2t), "target_items": len(items), "priorities": prio,
            "sym_content_dims": dc, "sym_form_dims": df}
    return "".join(L), info


if __name__ == "__main__":
    import sys
    body, info = generate(open("/repo/src/pybes3/besio/root_io.py").read())
    open("/verif/lean/Pybes3Verif/Gen/RootPy.lean", "w").write(body)
    print(info)
