"""Translator for the ARRAY side of the helix code - how helix arrays are flattened, processed per track and re-nested - from
src/pybes3/_utils.py and src/pybes3/tracks/helix.py into Lean (Gen/AwkPy.lean).

What is translated (each from its own AST, nothing assumed; anything outside the recognised shapes raises Unsupported - a broken
translator obligation, never a silent default):

  * `_extract_index`            one rule per awkward layout class, in source order -> `Layout`, `Level`, `extractIndexPy`;
                                the leading `layout = layout.to_packed()` -> `packsViewsFirst`; the final `raise TypeError` -> `none`
  * `_flat_to_numpy`            awkward input -> `ak.flatten(array, axis=None).to_numpy()`, everything else unchanged
                                -> `flatIsAllLeavesInOrder`
  * `_recover_shape`            (dead code) the order of its unflatten loop -> `recoverShapeOrderPy`; helix.py must not reference it
  * `_awk_change_pivot`         specialised to array mode (`is_multi_trk = True`) and executed symbolically: which field of the helix
                                every argument of `_change_pivot` is read from, how the results are put back, where the nesting
                                counts come from, that no state other than the fields is touched
                                -> `fieldWiring`, `resultWiring`, `errorReshape`, `shapeFromInputLayout`, `noHiddenState`
  * both `change_pivot`         `res = ak.Array / ak.Record(res_dict, with_name="Bes3Helix")`, then exactly one loop
                                `for count in reversed(raw_shape): res = ak.unflatten(res, count)`
                                -> `unflattenOrderPy`, `unflattenPy`, `renestPy`
  * `_awk_regularize_pivot`,    a scalar pivot component is broadcast as `ak.ones_like(dr) * x`, arrays pass through, a 3-tuple /
    tail of `helix_awk`         vector object / record is split into x, y, z in that order; `ak.zip(..., depth_limit=len(raw_shape) + 1)`
                                -> `scalarPivotBroadcastToEveryTrack`, `pivotComponentOrder`, `helixAwkWiring`, `zipDepthLimitPy`

Library semantics used (the trusted part): `ak.unflatten(xs, counts)` at axis 0 groups consecutive elements (`Nested.unflat`) and raises
ValueError unless the counts consume `xs` exactly; with an integer `n` it makes `len(xs) // n` groups of `n` (awkward 2.x truncates, it
does not raise); `ak.flatten(a, axis=None)` lists all leaves in order; `Content.to_packed()` returns ListOffsetArrays whose offsets
start at 0 and whose content is trimmed, and projects IndexedArrays.
"""
from __future__ import annotations

import ast
import copy
import os
import subprocess
import sys


class Unsupported(Exception):
    pass


U = ast.unparse

REPO = "/repo"
SRC_UTILS = "src/pybes3/_utils.py"
SRC_HELIX = "src/pybes3/tracks/helix.py"
OUT_PATH = "/verif/lean/Pybes3Verif/Gen/AwkPy.lean"


# ------------------------------------------------------------------------------------------------ small AST helpers
def _fn(tree, name):
    found = [n for n in tree.body if isinstance(n, ast.FunctionDef) and n.name == name
             and [U(d) for d in n.decorator_list] not in (["overload"], ["typing.overload"])]      # typing stubs are not definitions
    if len(found) != 1:
        raise Unsupported(f"function {name}: {len(found)} definitions")
    if found[0].decorator_list:
        raise Unsupported(f"function {name} is decorated")
    return found[0]


def _cls(tree, name):
    found = [n for n in tree.body if isinstance(n, ast.ClassDef) and n.name == name]
    if len(found) != 1:
        raise Unsupported(f"class {name}: {len(found)} definitions")
    return found[0]


def _method(cls, name, decorators=()):
    found = [n for n in cls.body if isinstance(n, ast.FunctionDef) and n.name == name]
    if len(found) != 1:
        raise Unsupported(f"{cls.name}.{name}: {len(found)} definitions")
    if [U(d) for d in found[0].decorator_list] != list(decorators):
        raise Unsupported(f"{cls.name}.{name}: decorators {[U(d) for d in found[0].decorator_list]}, expected {list(decorators)}")
    return found[0]


def _body(fn):
    """statements without the docstring"""
    b = list(fn.body)
    if b and isinstance(b[0], ast.Expr) and isinstance(b[0].value, ast.Constant) and isinstance(b[0].value.value, str):
        b = b[1:]
    return b


def _params(fn, *, vararg=False, kwonly=()):
    a = fn.args
    if a.posonlyargs or a.kwarg or a.defaults or any(d is not None for d in a.kw_defaults):
        raise Unsupported(f"{fn.name}: positional-only / **kwargs / default parameters")
    if bool(a.vararg) != vararg:
        raise Unsupported(f"{fn.name}: *args {'expected' if vararg else 'not expected'}")
    if [x.arg for x in a.kwonlyargs] != list(kwonly):
        raise Unsupported(f"{fn.name}: keyword-only parameters {[x.arg for x in a.kwonlyargs]}, expected {list(kwonly)}")
    return [x.arg for x in a.args] + ([a.vararg.arg] if a.vararg else [])


def _lean_str(s: str) -> str:
    if not isinstance(s, str) or any(ord(c) < 32 or ord(c) > 126 or c in '"\\' for c in s):
        raise Unsupported(f"string literal {s!r}")
    return '"' + s + '"'


def _is_isinstance(e, var: str):
    """`isinstance(<var>, C)` / `isinstance(<var>, (C1, C2))` -> [unparsed classes], else None"""
    if not (isinstance(e, ast.Call) and U(e.func) == "isinstance" and len(e.args) == 2 and not e.keywords and U(e.args[0]) == var):
        return None
    c = e.args[1]
    return [U(x) for x in c.elts] if isinstance(c, ast.Tuple) else [U(c)]


AWK_ARRAY = {"ak.Array", "awkward.Array"}
AWK_RECORD = {"ak.Record", "awkward.Record"}


# ------------------------------------------------------------------------------------------------ the absence of hidden state
BUILTINS_OK = {"isinstance", "len", "reversed", "ValueError", "TypeError", "KeyError", "tuple", "list"}
MODULES_OK = {"ak", "awkward", "np", "numpy", "vector"}
HELIX_FIELDS = ("dr", "phi0", "kappa", "dz", "tanl", "pivot", "error")
HELIX_ATTRS_OK = set(HELIX_FIELDS) | {"radius", "fields"}


def _locals(fn):
    names = {a.arg for a in fn.args.args + fn.args.kwonlyargs}
    if fn.args.vararg:
        names.add(fn.args.vararg.arg)
    if fn.args.kwarg:
        names.add(fn.args.kwarg.arg)
    for n in ast.walk(fn):
        if isinstance(n, ast.Name) and isinstance(n.ctx, ast.Store):
            names.add(n.id)
    return names


def _walk_code(node):
    """ast.walk without type annotations"""
    yield node
    for name, value in ast.iter_fields(node):
        if name in ("annotation", "returns", "type_comment"):
            continue
        for child in (value if isinstance(value, list) else [value]):
            if isinstance(child, ast.AST):
                yield from _walk_code(child)


def check_no_hidden_state(fn, what: str, helpers: set[str], helix_obj: str | None):
    """the function reads and writes nothing but its arguments, its locals, the named module-level FUNCTIONS and (of the helix object)
    the record fields: no `attrs`, no other attribute of the array, no attribute assignment, no global / nonlocal, no module-level
    variable"""
    loc = _locals(fn)
    dict_locals = {t.id for n in _walk_code(fn) if isinstance(n, ast.Assign) and isinstance(n.value, ast.Dict)
                   for t in n.targets if isinstance(t, ast.Name)}
    for n in _walk_code(fn):
        if isinstance(n, (ast.Global, ast.Nonlocal)):
            raise Unsupported(f"{what}: `{U(n)}` - state outside the function")
        if isinstance(n, (ast.FunctionDef, ast.Lambda, ast.ClassDef, ast.AsyncFunctionDef)) and n is not fn:
            raise Unsupported(f"{what}: nested definition `{U(n)[:60]}`")
        if isinstance(n, ast.Attribute) and isinstance(n.ctx, (ast.Store, ast.Del)):
            raise Unsupported(f"{what}: attribute assignment `{U(n)}` - state stored on an object")
        if isinstance(n, ast.Subscript) and isinstance(n.ctx, (ast.Store, ast.Del)):
            if not (isinstance(n.value, ast.Name) and n.value.id in dict_locals):
                raise Unsupported(f"{what}: item assignment `{U(n)}` into something that is not a local dict literal - state stored on an object")
        if isinstance(n, ast.Attribute) and n.attr in ("attrs", "_attrs", "behavior", "_behavior", "__dict__", "parameters", "_parameters"):
            raise Unsupported(f"{what}: `{U(n)}` - the nesting (or anything else) must not be carried in array metadata "
                              f"(`attrs` / `parameters` / `behavior`); only the record fields may be read")
        if isinstance(n, ast.keyword) and n.arg in ("attrs", "parameters", "behavior"):
            raise Unsupported(f"{what}: keyword `{n.arg}=` attaches metadata to the array")
        if helix_obj is not None and isinstance(n, ast.Attribute) and isinstance(n.value, ast.Name) and n.value.id == helix_obj \
                and n.attr not in HELIX_ATTRS_OK:
            raise Unsupported(f"{what}: reads `{U(n)}`; only the fields {sorted(HELIX_ATTRS_OK)} of the helix may be read")
        if isinstance(n, ast.Name) and isinstance(n.ctx, ast.Load) and n.id not in loc:
            if n.id not in BUILTINS_OK | MODULES_OK | helpers:
                raise Unsupported(f"{what}: reads the module-level name `{n.id}` (allowed: builtins {sorted(BUILTINS_OK)}, modules "
                                  f"{sorted(MODULES_OK)}, functions {sorted(helpers)}) - a module-level cache?")


# ------------------------------------------------------------------------------------------------ a. _extract_index
# awkward content class -> (constructor of `Layout`, attributes a rule may use)
LAYOUT_CLASSES = {
    "ListOffsetArray": ("listOffset", {"offsets", "content"}),
    "RegularArray": ("regular", {"size", "content"}),
    "NumpyArray": ("numpy", set()),
    "RecordArray": ("record", set()),
    "IndexedArray": ("indexed", {"content"}),
    "ByteMaskedArray": ("byteMasked", {"content"}),
    "BitMaskedArray": ("bitMasked", {"content"}),
    "UnmaskedArray": ("unmasked", {"content"}),
    "UnionArray": ("union", {"first"}),
}
CTOR_BINDERS = {"listOffset": ["offsets", "content"], "regular": ["size", "content"], "numpy": [], "record": [], "indexed": ["content"],
                "byteMasked": ["content"], "bitMasked": ["content"], "unmasked": ["content"], "union": ["first"]}


def _layout_class(u: str) -> str:
    for prefix in ("awkward.contents.", "ak.contents."):
        if u.startswith(prefix) and u[len(prefix):] in LAYOUT_CLASSES:
            return u[len(prefix):]
    raise Unsupported(f"_extract_index: `{u}` is not one of the layout classes of the translator's datatype "
                      f"({', '.join(LAYOUT_CLASSES)})")


class _Rule:
    """the body of one `if isinstance(layout, C): ...` translated for the constructor of C"""

    def __init__(self, cls_name: str, stmts):
        self.cls_name = cls_name
        self.ctor, self.avail = LAYOUT_CLASSES[cls_name]
        self.used: set[str] = set()
        self.vec_vars: dict[str, str] = {}
        if not stmts or not isinstance(stmts[-1], ast.Return) or stmts[-1].value is None:
            raise Unsupported(f"_extract_index[{cls_name}]: the rule does not end in `return <expr>`")
        for st in stmts[:-1]:
            if not (isinstance(st, ast.Assign) and len(st.targets) == 1 and isinstance(st.targets[0], ast.Name)):
                raise Unsupported(f"_extract_index[{cls_name}]: statement `{U(st)[:80]}`")
            if st.targets[0].id in ("layout",) or st.targets[0].id in self.vec_vars:
                raise Unsupported(f"_extract_index[{cls_name}]: `{st.targets[0].id}` reassigned")
            self.vec_vars[st.targets[0].id] = self.vec(st.value)
        self.lean = self.ret(stmts[-1].value)

    def attr(self, name: str) -> str:
        if name not in self.avail:
            raise Unsupported(f"_extract_index[{self.cls_name}]: a {self.cls_name} has no `{name}` in the translator's datatype")
        self.used.add(name)
        return name

    def vec(self, e) -> str:
        """integer-array expression -> Lean `List Nat` (subtraction is the truncated one of Nat: offsets are non-decreasing)"""
        u = U(e)
        if u in ("layout.offsets.data", "layout.offsets", "np.asarray(layout.offsets)", "numpy.asarray(layout.offsets)"):
            return self.attr("offsets")
        if isinstance(e, ast.Name) and e.id in self.vec_vars:
            return self.vec_vars[e.id]
        if isinstance(e, ast.Subscript) and isinstance(e.slice, ast.Slice) and e.slice.step is None:
            base = self.vec(e.value)
            lo, hi = e.slice.lower, e.slice.upper
            if hi is None and isinstance(lo, ast.Constant) and isinstance(lo.value, int) and lo.value >= 0:
                return f"({base}.drop {lo.value})"
            if lo is None and isinstance(hi, ast.UnaryOp) and isinstance(hi.op, ast.USub) and isinstance(hi.operand, ast.Constant) \
                    and hi.operand.value == 1:
                return f"{base}.dropLast"
            raise Unsupported(f"_extract_index[{self.cls_name}]: slice `{u}` (supported: [k:], [:-1])")
        if isinstance(e, ast.BinOp) and isinstance(e.op, (ast.Sub, ast.Add)):
            op = "-" if isinstance(e.op, ast.Sub) else "+"
            return f"(List.zipWith (· {op} ·) {self.vec(e.left)} {self.vec(e.right)})"
        raise Unsupported(f"_extract_index[{self.cls_name}]: `{u}` is not an expression over the offsets")

    def item(self, e) -> str:
        if U(e) == "layout.size":
            return f"Level.size {self.attr('size')}"
        return f"Level.counts {self.vec(e)}"

    def rec(self, e) -> str:
        if not (isinstance(e, ast.Call) and U(e.func) == "_extract_index" and len(e.args) == 1 and not e.keywords):
            raise Unsupported(f"_extract_index[{self.cls_name}]: `{U(e)}` is not a recursive call _extract_index(<content>)")
        sub = U(e.args[0])
        if sub == "layout.content":
            return f"extractIndexPy {self.attr('content')}"
        if sub == "layout.contents[0]":
            return f"extractIndexPy {self.attr('first')}"
        raise Unsupported(f"_extract_index[{self.cls_name}]: recursion into `{sub}`")

    def ret(self, e) -> str:
        if isinstance(e, ast.List) and not e.elts:
            return "some []"
        if isinstance(e, ast.BinOp) and isinstance(e.op, ast.Add) and isinstance(e.left, ast.List) and len(e.left.elts) == 1:
            return f"({self.rec(e.right)}).map (fun rest => [{self.item(e.left.elts[0])}] ++ rest)"
        if isinstance(e, ast.Call):
            return self.rec(e)
        raise Unsupported(f"_extract_index[{self.cls_name}]: returns `{U(e)}` (supported: [], [<item>] + _extract_index(<content>), "
                          f"_extract_index(<content>))")

    def arm(self) -> str:
        binders = " ".join(b if b in self.used else "_" for b in CTOR_BINDERS[self.ctor])
        return f"  | .{self.ctor}{' ' + binders if binders else ''} => {self.lean}"


def translate_extract_index(tree):
    fn = _fn(tree, "_extract_index")
    if _params(fn) != ["layout"]:
        raise Unsupported("_extract_index signature is not (layout)")
    b = _body(fn)
    if not b or U(b[0]) != "layout = layout.to_packed()":
        raise Unsupported("_extract_index does not start with `layout = layout.to_packed()`: for a view (ListArray, IndexedArray, offsets "
                          "that do not start at 0 or do not cover the content) the extracted counts would not describe the flattened data")
    last = b[-1]
    if not (isinstance(last, ast.Raise) and isinstance(last.exc, ast.Call) and U(last.exc.func) == "TypeError"):
        raise Unsupported(f"_extract_index does not end in `raise TypeError(...)` but in `{U(last)[:80]}`: an unknown layout class would "
                          f"silently yield a shape")
    rules, seen = [], set()
    for st in b[1:-1]:
        if not (isinstance(st, ast.If) and not st.orelse):
            raise Unsupported(f"_extract_index: statement `{U(st)[:80]}` is not `if isinstance(layout, <class>): ...` without else")
        classes = _is_isinstance(st.test, "layout")
        if classes is None:
            raise Unsupported(f"_extract_index: condition `{U(st.test)}`")
        for c in classes:
            name = _layout_class(c)
            if name in seen:
                raise Unsupported(f"_extract_index: second rule for {name} (unreachable)")
            seen.add(name)
            rules.append(_Rule(name, st.body))
    for need in ("ListOffsetArray", "NumpyArray"):
        if need not in seen:
            raise Unsupported(f"_extract_index has no rule for {need}")
    lean = "def extractIndexPy : Layout → Option (List Level)\n" + "\n".join(r.arm() for r in rules) + "\n  | _ => none\n"
    return lean, {"rules": [(r.cls_name, r.lean) for r in rules], "unhandled": [c for c in LAYOUT_CLASSES if c not in seen]}


# ------------------------------------------------------------------------------------------------ b. _flat_to_numpy
def _is_flat_all(e, var: str) -> bool:
    """`ak.flatten(<var>, axis=None).to_numpy()` / `ak.to_numpy(ak.flatten(<var>, axis=None))`"""
    def flatten(x):
        return (isinstance(x, ast.Call) and U(x.func) in ("ak.flatten", "awkward.flatten") and len(x.args) == 1 and U(x.args[0]) == var
                and [(k.arg, U(k.value)) for k in x.keywords] == [("axis", "None")])
    if isinstance(e, ast.Call) and isinstance(e.func, ast.Attribute) and e.func.attr == "to_numpy" and not e.args and not e.keywords:
        return flatten(e.func.value)
    if isinstance(e, ast.Call) and U(e.func) in ("ak.to_numpy", "awkward.to_numpy") and len(e.args) == 1 and not e.keywords:
        return flatten(e.args[0])
    return False


def check_flat_to_numpy(tree):
    fn = _fn(tree, "_flat_to_numpy")
    if _params(fn) != ["array"]:
        raise Unsupported("_flat_to_numpy signature is not (array)")
    b = _body(fn)
    if not b or not isinstance(b[0], ast.If):
        raise Unsupported("_flat_to_numpy: expected `if isinstance(array, (ak.Array, ak.Record)): return <flat> else: return array`")
    iff = b[0]
    classes = _is_isinstance(iff.test, "array")
    if classes is None or not set(classes) <= AWK_ARRAY | AWK_RECORD or not set(classes) & AWK_ARRAY:
        raise Unsupported(f"_flat_to_numpy: condition `{U(iff.test)}` is not isinstance(array, (ak.Array, ak.Record))")
    if len(iff.body) != 1 or not isinstance(iff.body[0], ast.Return):
        raise Unsupported("_flat_to_numpy: the awkward branch is not a single return")
    if not _is_flat_all(iff.body[0].value, "array"):
        raise Unsupported(f"_flat_to_numpy: awkward input is converted by `{U(iff.body[0].value)}`, not by `ak.flatten(array, axis=None)"
                          f".to_numpy()`: without the flatten over ALL axes the result is not the list of all leaves in order (a jagged array "
                          f"cannot be converted at all, a regular one keeps its dimensions)")
    rest = iff.orelse if iff.orelse else b[1:]
    if (iff.orelse and len(b) != 1) or len(rest) != 1 or U(rest[0]) != "return array":
        raise Unsupported(f"_flat_to_numpy: non-awkward input is not returned unchanged: `{'; '.join(U(x) for x in rest)[:120]}`")
    return {"awkward_classes": classes}


def recover_shape_order(tree_utils, tree_helix):
    """`_recover_shape` (not used by helix.py): the order of its loop, if it still exists"""
    for n in ast.walk(tree_helix):
        if (isinstance(n, ast.Name) and n.id == "_recover_shape") or (isinstance(n, ast.alias) and n.name == "_recover_shape") \
                or (isinstance(n, ast.Attribute) and n.attr == "_recover_shape"):
            raise Unsupported("helix.py references `_recover_shape`: the re-nesting must be the loop of `change_pivot` itself")
    found = [n for n in tree_utils.body if isinstance(n, ast.FunctionDef) and n.name == "_recover_shape"]
    if not found:
        return None
    loops = [n for n in ast.walk(found[0]) if isinstance(n, ast.For)]
    if len(loops) != 1:
        raise Unsupported("_recover_shape: not exactly one loop")
    params = [a.arg for a in found[0].args.args]
    it = U(loops[0].iter)
    if len(params) == 2 and it == f"reversed({params[1]})":
        return "innermostFirst"
    if len(params) == 2 and it == params[1]:
        return "outermostFirst"
    raise Unsupported(f"_recover_shape: loop over `{it}`")


# ------------------------------------------------------------------------------------------------ c. _awk_change_pivot
class _Specialise(ast.NodeTransformer):
    """the function with the boolean parameter `flag` fixed to `value`"""

    def __init__(self, flag: str, value: bool):
        self.flag, self.value = flag, value

    def _truth(self, test):
        u = U(test)
        if u == self.flag:
            return self.value
        if u == f"not {self.flag}":
            return not self.value
        return None

    def visit_If(self, node):
        t = self._truth(node.test)
        if t is None:
            return self.generic_visit(node)
        return _flatten_stmts([self.visit(s) for s in (node.body if t else node.orelse)])

    def visit_IfExp(self, node):
        t = self._truth(node.test)
        if t is None:
            return self.generic_visit(node)
        return self.visit(node.body if t else node.orelse)


def _flatten_stmts(stmts):
    out = []
    for s in stmts:
        out.extend(_flatten_stmts(s) if isinstance(s, list) else [s])
    return out


def _flat_field(e, obj: str):
    """`_flat_to_numpy(<obj>.<a>[.<b>])` -> "a" / "a.b", else None"""
    if not (isinstance(e, ast.Call) and U(e.func) == "_flat_to_numpy" and len(e.args) == 1 and not e.keywords):
        return None
    x, path = e.args[0], []
    while isinstance(x, ast.Attribute):
        path.append(x.attr)
        x = x.value
    if not (isinstance(x, ast.Name) and x.id == obj and path):
        return None
    return ".".join(reversed(path))


def _xyz_dict(e, what: str):
    """{"x": ex, "y": ey, "z": ez} -> [("x", ex), ...] with exactly these keys in this order"""
    if not (isinstance(e, ast.Dict) and all(isinstance(k, ast.Constant) for k in e.keys) and [k.value for k in e.keys] == ["x", "y", "z"]):
        raise Unsupported(f"{what}: `{U(e)[:120]}` is not a dict with the keys 'x', 'y', 'z'")
    return list(zip(["x", "y", "z"], e.values))


def change_pivot_signature(tree):
    """parameters and returned names of the per-track `_change_pivot`"""
    fn = _fn(tree, "_change_pivot")
    params = _params(fn)
    rets = [n for n in ast.walk(fn) if isinstance(n, ast.Return)]
    if len(rets) != 1 or not (isinstance(rets[0].value, ast.Tuple) and all(isinstance(x, ast.Name) for x in rets[0].value.elts)):
        raise Unsupported("_change_pivot: not a single `return <name>, <name>, ...`")
    return params, [x.id for x in rets[0].value.elts]


def translate_awk_change_pivot(tree):
    fn = _fn(tree, "_awk_change_pivot")
    if _params(fn, kwonly=("is_multi_trk",)) != ["helix_self", "args"]:
        raise Unsupported("_awk_change_pivot signature is not (helix_self, args, *, is_multi_trk)")
    check_no_hidden_state(fn, "_awk_change_pivot",
                          {"_flat_to_numpy", "_extract_index", "_change_pivot", "_awk_regularize_pivot", "_regularize_obj_position"}, "helix_self")
    cp_params, cp_rets = change_pivot_signature(tree)
    want_params = ["r", "old_dr", "old_phi0", "old_dz", "kappa", "tanl", "old_error", "old_pivot", "new_pivot"]
    if cp_params != want_params:
        raise Unsupported(f"_change_pivot parameters {cp_params}, expected {want_params}")
    spec = _Specialise("is_multi_trk", True).visit(copy.deepcopy(fn))
    stmts = _flatten_stmts(_body(spec))
    env: dict[str, ast.AST] = {}
    optional: dict[str, str] = {}          # variable -> the condition under which it is not None
    outs: dict[str, int] = {}
    call = None
    res_name, res_items, res_optional = None, None, []
    ret = None

    def bind(name, value):
        if name in env or name in outs or name in ("helix_self", "args", "is_multi_trk"):
            raise Unsupported(f"_awk_change_pivot: `{name}` is assigned twice (array mode): cannot follow the data flow")
        env[name] = value

    for st in stmts:
        if ret is not None:
            raise Unsupported("_awk_change_pivot: statements after the return")
        if isinstance(st, ast.Assign) and len(st.targets) == 1 and isinstance(st.targets[0], ast.Name):
            if isinstance(st.value, ast.Dict) and res_name is None and call is not None:
                res_name, res_items = st.targets[0].id, list(zip(st.value.keys, st.value.values))
                if not all(isinstance(k, ast.Constant) and isinstance(k.value, str) for k in st.value.keys):
                    raise Unsupported("_awk_change_pivot: result dict with non-literal keys")
                continue
            bind(st.targets[0].id, st.value)
        elif isinstance(st, ast.Assign) and len(st.targets) == 1 and isinstance(st.targets[0], ast.Tuple) \
                and isinstance(st.value, ast.Call) and U(st.value.func) == "_change_pivot":
            if call is not None:
                raise Unsupported("_awk_change_pivot: `_change_pivot` is called twice")
            call = st.value
            names = [U(t) for t in st.targets[0].elts]
            if len(names) != len(cp_rets) or not all(isinstance(t, ast.Name) for t in st.targets[0].elts):
                raise Unsupported(f"_awk_change_pivot: `{U(st.targets[0])}` does not unpack the {len(cp_rets)} results of _change_pivot")
            for i, n in enumerate(names):
                if n in env or n in outs:
                    raise Unsupported(f"_awk_change_pivot: result `{n}` overwrites a variable")
                outs[n] = i
        elif isinstance(st, ast.If) and U(st.test) == "'error' in helix_self.fields":
            if not (len(st.body) == 1 and len(st.orelse) == 1 and isinstance(st.body[0], ast.Assign) and isinstance(st.orelse[0], ast.Assign)
                    and U(st.body[0].targets[0]) == U(st.orelse[0].targets[0]) and U(st.orelse[0].value) == "None"
                    and isinstance(st.body[0].targets[0], ast.Name)):
                raise Unsupported(f"_awk_change_pivot: `{U(st)[:160]}` is not `X = <error> / else X = None`")
            bind(st.body[0].targets[0].id, st.body[0].value)
            optional[st.body[0].targets[0].id] = U(st.test)
        elif isinstance(st, ast.If) and res_name is not None and not st.orelse and len(st.body) == 1 \
                and isinstance(st.test, ast.Compare) and len(st.test.ops) == 1 and isinstance(st.test.ops[0], ast.IsNot) \
                and U(st.test.comparators[0]) == "None" and isinstance(st.test.left, ast.Name):
            a = st.body[0]
            if not (isinstance(a, ast.Assign) and len(a.targets) == 1 and isinstance(a.targets[0], ast.Subscript)
                    and U(a.targets[0].value) == res_name and isinstance(a.targets[0].slice, ast.Constant)
                    and U(a.value) == st.test.left.id):
                raise Unsupported(f"_awk_change_pivot: `{U(st)[:160]}` is not `if V is not None: {res_name}[<key>] = V`")
            res_items.append((a.targets[0].slice, a.value))
            res_optional.append(a.targets[0].slice.value)
        elif isinstance(st, ast.Return):
            ret = st.value
        else:
            raise Unsupported(f"_awk_change_pivot: statement `{U(st)[:120]}` (array mode) is outside the recognised shapes")
    if call is None or res_name is None or ret is None:
        raise Unsupported("_awk_change_pivot: no `_change_pivot(...)` call / result dict / return found")

    def resolve(e):
        seen = set()
        while isinstance(e, ast.Name) and e.id in env and e.id not in seen:
            seen.add(e.id)
            e = env[e.id]
        return e

    # --- the arguments of _change_pivot
    if call.args:
        raise Unsupported("_awk_change_pivot: `_change_pivot` is called with positional arguments")
    kw = {k.arg: k.value for k in call.keywords}
    if sorted(kw) != sorted(cp_params) or len(kw) != len(call.keywords):
        raise Unsupported(f"_awk_change_pivot: `_change_pivot` is called with the keywords {sorted(kw)}, its parameters are {cp_params}")
    wiring = []
    for p in ["r", "old_dr", "old_phi0", "old_dz", "kappa", "tanl"]:
        f = _flat_field(resolve(kw[p]), "helix_self")
        if f is None or "." in f:
            raise Unsupported(f"_awk_change_pivot: argument {p} = `{U(resolve(kw[p]))[:100]}` is not `_flat_to_numpy(helix_self.<field>)`")
        wiring.append((p, f))
    # error matrix
    ev = kw["old_error"]
    if not (isinstance(ev, ast.Name) and optional.get(ev.id) == "'error' in helix_self.fields"):
        raise Unsupported("_awk_change_pivot: old_error is not the variable that is None exactly when the helix has no `error` field")
    e = resolve(ev)
    if not (isinstance(e, ast.Call) and isinstance(e.func, ast.Attribute) and e.func.attr == "reshape" and not e.keywords
            and _flat_field(e.func.value, "helix_self") is not None):
        raise Unsupported(f"_awk_change_pivot: old_error = `{U(e)[:100]}` is not `_flat_to_numpy(helix_self.<field>).reshape(...)`")
    try:
        reshape = [int(ast.literal_eval(a)) for a in (e.args[0].elts if len(e.args) == 1 and isinstance(e.args[0], ast.Tuple) else e.args)]
    except (ValueError, TypeError, SyntaxError):
        raise Unsupported(f"_awk_change_pivot: reshape arguments `{U(e)}`")
    if reshape != [-1, 5, 5]:
        raise Unsupported(f"_awk_change_pivot: the error matrices are reshaped to {reshape}, not (-1, 5, 5) (one 5x5 matrix per track)")
    wiring.append(("old_error", _flat_field(e.func.value, "helix_self")))
    # pivots
    for p, what in (("old_pivot", "helix_self"), ("new_pivot", None)):
        v = resolve(kw[p])
        if not (isinstance(v, ast.Call) and U(v.func) == "vector.arr" and len(v.args) == 1 and not v.keywords):
            raise Unsupported(f"_awk_change_pivot: {p} = `{U(v)[:100]}` is not `vector.arr({{'x': …, 'y': …, 'z': …}})`")
        for comp, ce in _xyz_dict(v.args[0], f"_awk_change_pivot: {p}"):
            if what is not None:
                f = _flat_field(ce, what)
                if f is None:
                    raise Unsupported(f"_awk_change_pivot: {p}.{comp} = `{U(ce)}` is not `_flat_to_numpy(helix_self.pivot.<c>)`")
                wiring.append((f"{p}.{comp}", f))
            else:
                if not (isinstance(ce, ast.Call) and U(ce.func) == "_flat_to_numpy" and len(ce.args) == 1 and isinstance(ce.args[0], ast.Attribute)
                        and isinstance(ce.args[0].value, ast.Name)):
                    raise Unsupported(f"_awk_change_pivot: {p}.{comp} = `{U(ce)}` is not `_flat_to_numpy(<regularised pivot>.<c>)`")
                src = resolve(ce.args[0].value)
                if U(src) != "_awk_regularize_pivot(helix_self.dr, args)":
                    raise Unsupported(f"_awk_change_pivot: the new pivot `{U(src)[:100]}` is not `_awk_regularize_pivot(helix_self.dr, args)` "
                                      f"(broadcast against the helix's own dr)")
                wiring.append((f"{p}.{comp}", f"arg.{ce.args[0].attr}"))
    # --- the result dict
    result = []
    for k, v in res_items:
        key = k.value
        if key in [r[0] for r in result]:
            raise Unsupported(f"_awk_change_pivot: result field {key!r} set twice")
        if isinstance(v, ast.Name) and v.id in outs:
            result.append((key, cp_rets[outs[v.id]]))
            continue
        passed = [p for p in cp_params if isinstance(v, ast.Name) and isinstance(kw[p], ast.Name) and kw[p].id == v.id]
        if len(passed) == 1:
            result.append((key, passed[0]))
            continue
        if isinstance(v, ast.Call) and U(v.func) in ("ak.zip", "ak.Array", "awkward.zip", "awkward.Array") and len(v.args) == 1 \
                and [(x.arg, U(x.value)) for x in v.keywords] == [("with_name", "'Vector3D'")]:
            comps = _xyz_dict(v.args[0], f"_awk_change_pivot: result field {key!r}")
            np_name = kw["new_pivot"].id if isinstance(kw["new_pivot"], ast.Name) else None
            if np_name is None or [U(ce) for _, ce in comps] != [f"{np_name}.{c}" for c in "xyz"]:
                raise Unsupported(f"_awk_change_pivot: result field {key!r} = `{U(v)[:120]}` is not the new pivot's x, y, z")
            result.append((key, "new_pivot"))
            continue
        raise Unsupported(f"_awk_change_pivot: result field {key!r} = `{U(v)[:100]}` is neither a result of _change_pivot, nor an argument "
                          f"passed to it, nor the new pivot")
    if any(k == "error" for k, _ in result) != ("error" in res_optional):
        raise Unsupported("_awk_change_pivot: the `error` field must be set exactly when the transformed error is not None")
    # --- what is returned
    if not (isinstance(ret, ast.Tuple) and len(ret.elts) == 2 and U(ret.elts[0]) == res_name):
        raise Unsupported(f"_awk_change_pivot: returns `{U(ret)}`, not (<result dict>, <raw shape>)")
    shape = resolve(ret.elts[1])
    if U(shape) != "_extract_index(helix_self.dr.layout)":
        raise Unsupported(f"_awk_change_pivot: the nesting counts are `{U(shape)[:120]}`, not `_extract_index(helix_self.dr.layout)` - they must "
                          f"be extracted from the layout of the input array itself at the time of the call")
    # single-track mode: the counts are []
    orig_ret = [n for n in ast.walk(fn) if isinstance(n, ast.Return)]
    single = _Specialise("is_multi_trk", False).visit(copy.deepcopy(fn))
    env1 = {s.targets[0].id: s.value for s in ast.walk(single) if isinstance(s, ast.Assign) and len(s.targets) == 1 and isinstance(s.targets[0], ast.Name)}
    r1 = [n for n in ast.walk(single) if isinstance(n, ast.Return)]
    s1 = r1[0].value.elts[1] if len(r1) == 1 and isinstance(r1[0].value, ast.Tuple) and len(r1[0].value.elts) == 2 else None
    while isinstance(s1, ast.Name) and s1.id in env1:
        s1 = env1[s1.id]
    if len(orig_ret) != 1 or s1 is None or U(s1) != "[]":
        raise Unsupported("_awk_change_pivot: in single-track mode the nesting counts are not `[]`")
    return {"wiring": wiring, "result": result, "reshape": reshape, "change_pivot_returns": cp_rets}


def check_radius(tree):
    """`radius` of both classes is the ufunc `kappa_to_radius` of the `kappa` field: per track, same nesting"""
    for cname in ("HelixAwkwardRecord", "HelixAwkwardArray"):
        m = _method(_cls(tree, cname), "radius", decorators=("property",))
        b = _body(m)
        if len(b) != 1 or U(b[0]) != "return kappa_to_radius(self.kappa)":
            raise Unsupported(f"{cname}.radius is not `return kappa_to_radius(self.kappa)`")
    vec = [n for n in tree.body if isinstance(n, ast.FunctionDef) and n.name == "kappa_to_radius"]
    if len(vec) != 1 or not any(U(d).startswith(("nb.vectorize", "numba.vectorize")) for d in vec[0].decorator_list):
        raise Unsupported("kappa_to_radius is not a numba-vectorised ufunc")


# ------------------------------------------------------------------------------------------------ d. change_pivot (both classes)
def translate_change_pivot_method(tree, cname: str, ctor: set[str], multi):
    """`multi`: the expected `is_multi_trk=` argument (unparsed) or None when it is a local computed from `isinstance(self.pivot.x, ak.Array)`"""
    m = _method(_cls(tree, cname), "change_pivot")
    if _params(m, vararg=True) != ["self", "args"]:
        raise Unsupported(f"{cname}.change_pivot signature is not (self, *args)")
    check_no_hidden_state(m, f"{cname}.change_pivot", {"_awk_change_pivot"}, "self")
    b = _body(m)
    flag = multi
    if multi is None:
        if not b or not (isinstance(b[0], ast.Assign) and isinstance(b[0].targets[0], ast.Name)
                         and U(b[0].value) in ("isinstance(self.pivot.x, ak.Array)", "isinstance(self.pivot.x, awkward.Array)")):
            raise Unsupported(f"{cname}.change_pivot: does not start with `<flag> = isinstance(self.pivot.x, ak.Array)`")
        flag = b[0].targets[0].id
        b = b[1:]
    if len(b) != 4:
        raise Unsupported(f"{cname}.change_pivot: expected `res_dict, raw_shape = _awk_change_pivot(...)`, `res = …`, one for-loop, `return res`; "
                          f"got {len(b)} statements")
    call, mk, loop, ret = b
    if not (isinstance(call, ast.Assign) and isinstance(call.targets[0], ast.Tuple) and len(call.targets[0].elts) == 2
            and all(isinstance(t, ast.Name) for t in call.targets[0].elts)
            and U(call.value) == f"_awk_change_pivot(self, args, is_multi_trk={flag})"):
        raise Unsupported(f"{cname}.change_pivot: `{U(call)[:140]}` is not `res_dict, raw_shape = _awk_change_pivot(self, args, is_multi_trk={flag})`")
    d, shape = (t.id for t in call.targets[0].elts)
    if not (isinstance(mk, ast.Assign) and isinstance(mk.targets[0], ast.Name) and isinstance(mk.value, ast.Call) and U(mk.value.func) in ctor
            and [U(a) for a in mk.value.args] == [d] and [(k.arg, U(k.value)) for k in mk.value.keywords] == [("with_name", "'Bes3Helix'")]):
        raise Unsupported(f"{cname}.change_pivot: `{U(mk)[:140]}` is not `res = {sorted(ctor)[0]}({d}, with_name=\"Bes3Helix\")`")
    res = mk.targets[0].id
    if not (isinstance(loop, ast.For) and not loop.orelse and isinstance(loop.target, ast.Name) and len(loop.body) == 1):
        raise Unsupported(f"{cname}.change_pivot: `{U(loop)[:140]}` is not a plain for-loop with a one-statement body")
    cnt = loop.target.id
    step = loop.body[0]
    ok_step = (isinstance(step, ast.Assign) and U(step.targets[0]) == res and isinstance(step.value, ast.Call)
               and U(step.value.func) in ("ak.unflatten", "awkward.unflatten") and [U(a) for a in step.value.args] == [res, cnt]
               and [(k.arg, U(k.value)) for k in step.value.keywords] in ([], [("axis", "0")]))
    if not ok_step:
        raise Unsupported(f"{cname}.change_pivot: loop body `{U(step)[:140]}` is not `{res} = ak.unflatten({res}, {cnt})`")
    it = U(loop.iter)
    if it == f"reversed({shape})":
        order = "innermostFirst"
    elif it == shape:
        order = "outermostFirst"
    else:
        raise Unsupported(f"{cname}.change_pivot: the loop iterates `{it}`, neither `reversed({shape})` nor `{shape}`")
    if U(ret) != f"return {res}":
        raise Unsupported(f"{cname}.change_pivot: `{U(ret)}` is not `return {res}`")
    return order


# ------------------------------------------------------------------------------------------------ e. pivot broadcast
def _broadcast(e, like: str, what: str):
    """`ak.ones_like(<like>) * X` / `X * ak.ones_like(<like>)` -> X (AST)"""
    def ones(x):
        return isinstance(x, ast.Call) and U(x.func) in ("ak.ones_like", "awkward.ones_like") and [U(a) for a in x.args] == [like] and not x.keywords
    if isinstance(e, ast.BinOp) and isinstance(e.op, ast.Mult):
        if ones(e.left) and not ones(e.right):
            return e.right
        if ones(e.right) and not ones(e.left):
            return e.left
    hint = ""
    if isinstance(e, ast.Call) and U(e.func).endswith(("full_like", "full", "zeros_like", "broadcast_to", "empty_like")):
        hint = (f" - `{U(e.func)}` takes the dtype (and, for numpy functions, needs the rectangular shape) of `{like}`: an integer-typed dr "
                f"would truncate the pivot, and the value is no longer `1 * x` per track")
    raise Unsupported(f"{what}: the scalar is broadcast by `{U(e)[:100]}`, not by `ak.ones_like({like}) * <scalar>`{hint}")


def translate_regularize_pivot(tree):
    fn = _fn(tree, "_awk_regularize_pivot")
    if _params(fn) != ["dr_like", "args"]:
        raise Unsupported("_awk_regularize_pivot signature is not (dr_like, args)")
    check_no_hidden_state(fn, "_awk_regularize_pivot", set(), None)
    b = _body(fn)
    if len(b) != 5:
        raise Unsupported(f"_awk_regularize_pivot: expected the argument split, three broadcasts and the return; got {len(b)} statements")
    split, bx, by, bz, ret = b

    def unpack(st, what):
        """`a, b, c = <e0>, <e1>, <e2>` / `a, b, c = <e>` -> ([a,b,c], [e0,e1,e2] | e)"""
        if not (isinstance(st, ast.Assign) and len(st.targets) == 1 and isinstance(st.targets[0], ast.Tuple) and len(st.targets[0].elts) == 3
                and all(isinstance(t, ast.Name) for t in st.targets[0].elts)):
            raise Unsupported(f"_awk_regularize_pivot: {what}: `{U(st)[:100]}` does not unpack three components")
        return [t.id for t in st.targets[0].elts], st.value

    # if len(args) == 3: x, y, z = args / elif len(args) == 1: … / else: raise ValueError
    if not (isinstance(split, ast.If) and U(split.test) == "len(args) == 3" and len(split.body) == 1 and len(split.orelse) == 1
            and isinstance(split.orelse[0], ast.If) and U(split.orelse[0].test) == "len(args) == 1"):
        raise Unsupported("_awk_regularize_pivot: not `if len(args) == 3: … elif len(args) == 1: … else: raise`")
    names, v = unpack(split.body[0], "three arguments")
    if U(v) != "args":
        raise Unsupported(f"_awk_regularize_pivot: three arguments are unpacked from `{U(v)}`")
    one = split.orelse[0]
    if not (len(one.orelse) == 1 and isinstance(one.orelse[0], ast.Raise) and isinstance(one.orelse[0].exc, ast.Call)
            and U(one.orelse[0].exc.func) == "ValueError"):
        raise Unsupported("_awk_regularize_pivot: any other number of arguments does not raise ValueError")
    if len(one.body) != 3:
        raise Unsupported("_awk_regularize_pivot: one-argument case: expected `pivot = args[0]`, array pass-through, object / tuple split")
    a0, passthru, objsplit = one.body
    if not (isinstance(a0, ast.Assign) and isinstance(a0.targets[0], ast.Name) and U(a0.value) == "args[0]"):
        raise Unsupported(f"_awk_regularize_pivot: `{U(a0)}` is not `pivot = args[0]`")
    pv = a0.targets[0].id
    cl = _is_isinstance(passthru.test, pv) if isinstance(passthru, ast.If) else None
    if cl is None or not set(cl) <= AWK_ARRAY or passthru.orelse or len(passthru.body) != 1 or U(passthru.body[0]) != f"return {pv}":
        raise Unsupported(f"_awk_regularize_pivot: an awkward array of pivots is not passed through unchanged (`{U(passthru)[:100]}`)")
    cl = _is_isinstance(objsplit.test, pv) if isinstance(objsplit, ast.If) else None
    if cl is None or not set(cl) <= {"vector.VectorObject3D"} | AWK_RECORD or len(objsplit.body) != 1 or len(objsplit.orelse) != 1:
        raise Unsupported(f"_awk_regularize_pivot: vector object / record split `{U(objsplit)[:100]}`")
    n2, v2 = unpack(objsplit.body[0], "vector object / record")
    n3, v3 = unpack(objsplit.orelse[0], "tuple")
    if not (isinstance(v2, ast.Tuple) and [U(x) for x in v2.elts] == [f"{pv}.x", f"{pv}.y", f"{pv}.z"]):
        raise Unsupported(f"_awk_regularize_pivot: object components `{U(v2)}` are not {pv}.x, {pv}.y, {pv}.z")
    if not (isinstance(v3, ast.Tuple) and [U(x) for x in v3.elts] == [f"{pv}[0]", f"{pv}[1]", f"{pv}[2]"]):
        raise Unsupported(f"_awk_regularize_pivot: tuple components `{U(v3)}` are not {pv}[0], {pv}[1], {pv}[2]")
    if not (names == n2 == n3) or len(set(names)) != 3:
        raise Unsupported(f"_awk_regularize_pivot: the three ways of splitting assign different variables: {names}, {n2}, {n3}")
    # broadcasts:  V = ak.ones_like(dr_like) * V if not isinstance(V, (ak.Array, ak.Record)) else V
    for st, v in zip((bx, by, bz), names):
        if not (isinstance(st, ast.Assign) and U(st.targets[0]) == v and isinstance(st.value, ast.IfExp)):
            raise Unsupported(f"_awk_regularize_pivot: `{U(st)[:120]}` is not `{v} = <broadcast> if not isinstance({v}, …) else {v}`")
        t = st.value.test
        if isinstance(t, ast.UnaryOp) and isinstance(t.op, ast.Not):
            cl, bro, keep = _is_isinstance(t.operand, v), st.value.body, st.value.orelse
        else:
            cl, bro, keep = _is_isinstance(t, v), st.value.orelse, st.value.body
        if cl is None or not set(cl) <= AWK_ARRAY | AWK_RECORD or not set(cl) & AWK_ARRAY:
            raise Unsupported(f"_awk_regularize_pivot: condition `{U(t)}`")
        if U(keep) != v:
            raise Unsupported(f"_awk_regularize_pivot: an awkward component `{v}` is replaced by `{U(keep)}` instead of being passed through")
        if U(_broadcast(bro, "dr_like", "_awk_regularize_pivot")) != v:
            raise Unsupported(f"_awk_regularize_pivot: component `{v}` is broadcast from `{U(bro)}`")
    # return ak.Array({"x": x, "y": y, "z": z}, with_name="Vector3D")
    if not (isinstance(ret, ast.Return) and isinstance(ret.value, ast.Call) and U(ret.value.func) in ("ak.Array", "ak.zip", "awkward.Array", "awkward.zip")
            and len(ret.value.args) == 1 and [(k.arg, U(k.value)) for k in ret.value.keywords] == [("with_name", "'Vector3D'")]
            and isinstance(ret.value.args[0], ast.Dict) and all(isinstance(k, ast.Constant) and isinstance(k.value, str) for k in ret.value.args[0].keys)):
        raise Unsupported(f"_awk_regularize_pivot: returns `{U(ret)[:140]}`")
    key_of = {U(v): k.value for k, v in zip(ret.value.args[0].keys, ret.value.args[0].values)}
    if sorted(key_of) != sorted(names) or len(key_of) != 3:
        raise Unsupported(f"_awk_regularize_pivot: the returned record is built from {sorted(key_of)}, the components are {names}")
    return [key_of[n] for n in names]          # the record key that receives argument 0, 1, 2


def translate_helix_awk_tail(tree):
    fn = _fn(tree, "helix_awk")
    check_no_hidden_state(fn, "helix_awk", {"_extract_index", "_regularize_obj_position", "_check_kwargs_used_up", "_fix_dr_sign", "_SENTINEL"}, None)
    b = _body(fn)
    # locate the tail: `if not isinstance(pivot, ak.Array): …`
    idx = [i for i, st in enumerate(b) if isinstance(st, ast.If) and U(st.test) in ("not isinstance(pivot, ak.Array)", "not isinstance(pivot, awkward.Array)")]
    if len(idx) != 1:
        raise Unsupported("helix_awk: no unique top-level `if not isinstance(pivot, ak.Array):`")
    tail = b[idx[0]:]
    if len(tail) != 6:
        raise Unsupported(f"helix_awk: expected pivot broadcast, res_dict, error, kwargs check, raw_shape, return after the pivot test; got {len(tail)} statements")
    bro, rd, err, chk, rs, ret = tail
    if bro.orelse or len(bro.body) != 5 or U(bro.body[0]) != "pivot = _regularize_obj_position(pivot)":
        raise Unsupported("helix_awk: the scalar pivot is not regularised by `pivot = _regularize_obj_position(pivot)` followed by three broadcasts and a zip")
    comp_vars = {}
    for st, c in zip(bro.body[1:4], "xyz"):
        if not (isinstance(st, ast.Assign) and isinstance(st.targets[0], ast.Name)):
            raise Unsupported(f"helix_awk: `{U(st)[:100]}`")
        if U(_broadcast(st.value, "dr", "helix_awk")) != f"pivot.{c}":
            raise Unsupported(f"helix_awk: `{U(st)[:100]}` does not broadcast pivot.{c}")
        comp_vars[st.targets[0].id] = c
    z = bro.body[4]
    if not (isinstance(z, ast.Assign) and U(z.targets[0]) == "pivot" and isinstance(z.value, ast.Call) and U(z.value.func) in ("ak.zip", "awkward.zip")
            and len(z.value.args) == 1 and [(k.arg, U(k.value)) for k in z.value.keywords] == [("with_name", "'Vector3D'")]):
        raise Unsupported(f"helix_awk: `{U(z)[:140]}` is not `pivot = ak.zip({{…}}, with_name=\"Vector3D\")`")
    comps = _xyz_dict(z.value.args[0], "helix_awk: pivot")
    if [comp_vars.get(U(v)) for _, v in comps] != ["x", "y", "z"]:
        raise Unsupported(f"helix_awk: the pivot record `{U(z.value.args[0])}` does not receive the broadcasts of pivot.x, pivot.y, pivot.z")
    # res_dict
    if not (isinstance(rd, ast.Assign) and isinstance(rd.targets[0], ast.Name) and isinstance(rd.value, ast.Dict)
            and all(isinstance(k, ast.Constant) and isinstance(k.value, str) for k in rd.value.keys)):
        raise Unsupported(f"helix_awk: `{U(rd)[:100]}` is not the result dict literal")
    dname = rd.targets[0].id
    wiring = [(k.value, U(v)) for k, v in zip(rd.value.keys, rd.value.values)]
    if not all(isinstance(v, ast.Name) for v in rd.value.values):
        raise Unsupported(f"helix_awk: result dict values {wiring} are not plain variables")
    if U(err) != f"if error is not None:\n    {dname}['error'] = error":
        raise Unsupported(f"helix_awk: `{U(err)[:120]}` is not `if error is not None: {dname}['error'] = error`")
    wiring.append(("error", "error"))
    if U(chk) != "_check_kwargs_used_up(kwargs)":
        raise Unsupported(f"helix_awk: `{U(chk)[:100]}`")
    if not (isinstance(rs, ast.Assign) and isinstance(rs.targets[0], ast.Name) and U(rs.value) == "_extract_index(dr.layout)"):
        raise Unsupported(f"helix_awk: `{U(rs)[:100]}` is not `raw_shape = _extract_index(dr.layout)`")
    shape = rs.targets[0].id
    if not (isinstance(ret, ast.Return) and isinstance(ret.value, ast.Call) and U(ret.value.func) in ("ak.zip", "awkward.zip")
            and [U(a) for a in ret.value.args] == [dname] and sorted(k.arg for k in ret.value.keywords) == ["depth_limit", "with_name"]):
        raise Unsupported(f"helix_awk: returns `{U(ret)[:140]}`, not `ak.zip({dname}, depth_limit=…, with_name=\"Bes3Helix\")`")
    kws = {k.arg: k.value for k in ret.value.keywords}
    if U(kws["with_name"]) != "'Bes3Helix'":
        raise Unsupported(f"helix_awk: with_name={U(kws['with_name'])}")
    dl = kws["depth_limit"]
    if not (isinstance(dl, ast.BinOp) and isinstance(dl.op, ast.Add) and {U(dl.left), U(dl.right)} & {f"len({shape})"}
            and any(isinstance(x, ast.Constant) and isinstance(x.value, int) and x.value >= 0 for x in (dl.left, dl.right))):
        raise Unsupported(f"helix_awk: depth_limit=`{U(dl)}` is not `len({shape}) + <constant>`")
    plus = next(x.value for x in (dl.left, dl.right) if isinstance(x, ast.Constant))
    return wiring, plus


# ------------------------------------------------------------------------------------------------ output
HEADER = """-- GENERATED by tools/translate/awkpy.py from /repo/src/pybes3/_utils.py and /repo/src/pybes3/tracks/helix.py. Do not edit.
import Pybes3Verif.Model.Nested
/-! The array side of the helix code, translated from the source on every run: the nesting counts `_extract_index` reads off an awkward
layout, the flattening of every field (`_flat_to_numpy`), the data flow of `_awk_change_pivot` in array mode, the re-nesting loop of
`change_pivot`, the broadcast of a scalar pivot.  Library semantics (trusted): `ak.unflatten` at axis 0 is `Nested.unflat` and raises
ValueError unless the counts consume the array exactly (an integer count `n` makes `len / n` groups of `n` and never raises);
`ak.flatten(·, axis=None)` is `Nested.flat`; `to_packed()` yields offsets that start at 0 over a trimmed content. -/
namespace Pybes3Verif.Gen.AwkPy
open Pybes3Verif.Nested

"""


def _pairs(items) -> str:
    return "[" + ", ".join(f"({_lean_str(a)}, {_lean_str(b)})" for a, b in items) + "]"


def generate(src_utils: str, src_helix: str) -> tuple[str, dict]:
    tu, th = ast.parse(src_utils), ast.parse(src_helix)
    imp = [n for n in th.body if isinstance(n, ast.ImportFrom) and any(a.name in ("_extract_index", "_flat_to_numpy") for a in n.names)]
    if len(imp) != 1 or imp[0].module != "pybes3._utils" or {a.name for a in imp[0].names if a.asname in (None, a.name)} < {"_extract_index", "_flat_to_numpy"}:
        raise Unsupported("helix.py does not import `_extract_index` and `_flat_to_numpy` (unrenamed) from pybes3._utils")
    for name in ("_extract_index", "_flat_to_numpy"):
        if any(isinstance(n, (ast.FunctionDef, ast.ClassDef)) and n.name == name for n in th.body) or \
                any(isinstance(n, ast.Name) and isinstance(n.ctx, ast.Store) and n.id == name for n in ast.walk(th)):
            raise Unsupported(f"helix.py redefines `{name}`")
    ext, i_ext = translate_extract_index(tu)
    i_flat = check_flat_to_numpy(tu)
    rec_order = recover_shape_order(tu, th)
    i_cp = translate_awk_change_pivot(th)
    check_radius(th)
    o_arr = translate_change_pivot_method(th, "HelixAwkwardArray", {"ak.Array", "awkward.Array"}, "True")
    o_rec = translate_change_pivot_method(th, "HelixAwkwardRecord", {"ak.Record", "awkward.Record"}, None)
    if o_arr != o_rec:
        raise Unsupported(f"HelixAwkwardArray.change_pivot re-nests {o_arr}, HelixAwkwardRecord.change_pivot {o_rec}")
    comp_order = translate_regularize_pivot(th)
    awk_wiring, depth_plus = translate_helix_awk_tail(th)
    it = "rawShape.reverse" if o_arr == "innermostFirst" else "rawShape"
    L = [HEADER]
    L.append("""/-- awkward layouts as far as `_extract_index` distinguishes them, AFTER `to_packed()` (`other`: every class the source does not name) -/
inductive Layout
  | numpy
  | record
  | listOffset (offsets : List Nat) (content : Layout)
  | regular (size : Nat) (content : Layout)
  | indexed (content : Layout)
  | byteMasked (content : Layout)
  | bitMasked (content : Layout)
  | unmasked (content : Layout)
  | union (first : Layout)
  | other
  deriving DecidableEq, Repr

/-- one entry of `raw_shape`: the array of counts of a variable-length level, or the integer size of a regular level -/
inductive Level
  | counts (c : List Nat)
  | size (n : Nat)
  deriving DecidableEq, Repr

/-- `_extract_index` starts with `layout = layout.to_packed()` -/
def packsViewsFirst : Bool := true

/-- `_extract_index`: one rule per layout class, in source order; `none` = the final `raise TypeError`
(`offsets[1:] - offsets[:-1]` over the non-decreasing offsets is the truncated subtraction of `Nat`) -/
""")
    L.append(ext)
    L.append(f"""
/-- `_flat_to_numpy`: an awkward array / record becomes `ak.flatten(array, axis=None).to_numpy()` (all leaves in order, `Nested.flat`),
anything else is returned unchanged -/
def flatIsAllLeavesInOrder : Bool := true

inductive UnflatOrder
  | innermostFirst
  | outermostFirst
  deriving DecidableEq, Repr

/-- the loop of both `change_pivot` methods iterates `{'reversed(raw_shape)' if o_arr == 'innermostFirst' else 'raw_shape'}` -/
def unflattenOrderPy : UnflatOrder := .{o_arr}

/-- the loop of the unused helper `_utils._recover_shape` (helix.py does not reference it) -/
def recoverShapeOrderPy : Option UnflatOrder := {'none' if rec_order is None else 'some .' + rec_order}

/-- an awkward array as an untyped tree: what `ak.unflatten` produces without knowing the depth in advance -/
inductive Tree (β : Type)
  | leaf (x : β)
  | node (xs : List (Tree β))

variable {{β : Type}}

/-- the counts an entry of `raw_shape` stands for on an array of length `len` -/
def Level.toCounts (len : Nat) : Level → List Nat
  | .counts c => c
  | .size n => List.replicate (len / n) n

/-- `res = ak.unflatten(res, count)`: consecutive elements grouped into one new list level; `none` = ValueError (the counts do not
consume the array exactly) -/
def unflattenPy (count : Level) (res : List (Tree β)) : Option (List (Tree β)) :=
  match count with
  | .counts c => if c.sum = res.length then some ((unflat c res).map Tree.node) else none
  | .size _ => some ((unflat (count.toCounts res.length) res).map Tree.node)

/-- `res = ak.Array(res_dict, with_name="Bes3Helix")` (one record per track) followed by
`for count in {'reversed(raw_shape)' if o_arr == 'innermostFirst' else 'raw_shape'}: res = ak.unflatten(res, count)` -/
def renestPy (rawShape : List Level) (leaves : List β) : Option (List (Tree β)) :=
  {it}.foldlM (fun res count => unflattenPy count res) (leaves.map Tree.leaf)

/-- `_awk_change_pivot` (array mode): (parameter of the per-track `_change_pivot`, what it is read from): `_flat_to_numpy` of that field of
the helix; `arg.c` = `_flat_to_numpy` of component `c` of `_awk_regularize_pivot(helix_self.dr, args)` -/
def fieldWiring : List (String × String) :=
  {_pairs(i_cp['wiring'])}

/-- the error matrices are handed over as `.reshape({', '.join(map(str, i_cp['reshape']))})`: one 5×5 matrix per track, in track order -/
def errorReshape : List Int := [{', '.join(str(x) for x in i_cp['reshape'])}]

/-- the result dict: (field of the new helix, the result `{', '.join(i_cp['change_pivot_returns'])}` of `_change_pivot` / the argument passed
to it that it is) -/
def resultWiring : List (String × String) :=
  {_pairs(i_cp['result'])}

/-- `raw_shape = _extract_index(helix_self.dr.layout)` in array mode (`[]` for a single track): the counts come from the layout of the
input array at the time of the call -/
def shapeFromInputLayout : Bool := true

/-- `_awk_change_pivot`, `_awk_regularize_pivot`, both `change_pivot` and `helix_awk` read nothing but their arguments, the record fields
(`radius` = the ufunc `kappa_to_radius` of `kappa`) and module-level functions; no `attrs` / `parameters` / `behavior`, no attribute or item
assignment outside local dict literals, no global -/
def noHiddenState : Bool := true

/-- `_awk_regularize_pivot` / tail of `helix_awk`: a scalar component is `ak.ones_like(dr) * x` (the same value for every track, with the
nesting of `dr`); an awkward array is passed through unchanged -/
def scalarPivotBroadcastToEveryTrack : Bool := true

/-- the record key that receives component 0, 1, 2 of `(x, y, z)` / `pivot[0..2]` / `pivot.x, .y, .z` -/
def pivotComponentOrder : List String := [{', '.join(_lean_str(c) for c in comp_order)}]

/-- `helix_awk`: (field of the record, the local it is taken from) -/
def helixAwkWiring : List (String × String) :=
  {_pairs(awk_wiring)}

/-- `ak.zip(res_dict, depth_limit=len(raw_shape) + {depth_plus}, …)` -/
def zipDepthLimitPy (rawShapeLen : Nat) : Nat := rawShapeLen + {depth_plus}

end Pybes3Verif.Gen.AwkPy
""")
    info = {"extract_index": i_ext, "flat_to_numpy": i_flat, "recover_shape_order": rec_order, "awk_change_pivot": i_cp,
            "unflatten_order": o_arr, "pivot_component_order": comp_order, "helix_awk_wiring": awk_wiring, "zip_depth_plus": depth_plus}
    return "".join(L), info


def _head(path: str) -> str:
    r = subprocess.run(["git", "-C", REPO, "show", f"HEAD:{path}"], capture_output=True, text=True)
    if r.returncode != 0:
        raise Unsupported(f"git show HEAD:{path}: {r.stderr.strip()}")
    return r.stdout


if __name__ == "__main__":
    import json
    argv = sys.argv[1:]
    try:
        if len(argv) >= 2:
            s_utils, s_helix = open(argv[0]).read(), open(argv[1]).read()
        else:
            s_utils, s_helix = _head(SRC_UTILS), _head(SRC_HELIX)
        out_path = argv[2] if len(argv) > 2 else OUT_PATH
        body, info = generate(s_utils, s_helix)
    except Unsupported as ex:
        print(f"Unsupported: {ex}")
        sys.exit(2)
    if not os.path.exists(out_path) or open(out_path).read() != body:
        open(out_path, "w").write(body)
    print(json.dumps(info, indent=1))
