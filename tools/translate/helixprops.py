"""Translator for the *property* code of src/pybes3/tracks/helix.py into Lean definitions over the polymorphic `Ops α`
of Model/Helix.lean (companion of tools/translate/helix.py, which covers `_change_pivot`).

Translated, each from its own source text (stdlib `ast` only), statement by statement (one Python assignment = one `let`):
  a. the `@nb.vectorize` kernels  dr_phi0_to_x, dr_phi0_to_y, phi0_to_phi, kappa_to_pt, kappa_to_charge, kappa_to_radius,
     _fix_dr_sign                                     -> `k_dr_phi0_to_x` ... `k_fix_dr_sign`
  b. `HelixObject.momentum / .position / .charge / .radius`  -> `objMomentum`, `objPosition`, `objCharge`, `objRadius`
  c. `_compute_momentum`, `_compute_position`            -> `computeMomentum`, `computePosition`
     `HelixAwkwardRecord.momentum / .position / .charge / .radius` -> `awkMomentum`, `awkPosition`, `awkCharge`, `awkRadius`
     (`HelixAwkwardArray`'s property bodies are *checked* to be identical to the Record's, docstrings aside)
  d. the "given momentum, position and charge" branch of `helix_obj` -> `objFromPhysics`, and of `helix_awk` -> `awkFromPhysics`
  e. the closeness test, per track: `_obj_isclose` -> `objIsclosePyFull` / `objIsclosePy`, `_arr_isclose` -> `arrIsclosePyFull` /
     `arrIsclosePy` (the other helix moved with `changePivotWiredObj / changePivotWiredArr` of Gen/HelixPy.lean, the tests in source
     order, `np.abs(vector)` = `.mag`, the error matrices compared entry by entry when both helices carry one), and the three public
     `isclose` methods: helper called, arguments passed, defaults -> `objIscloseDefaults / recIscloseDefaults / arrIscloseDefaults`,
     `objIscloseHelper / recIscloseHelper / arrIscloseHelper`.  The wiring of `change_pivot` (new pivot, error matrix present iff
     the old one is) is checked on the callers.  NaN / `equal_nan` have no counterpart over `Ops`.

What is abstracted (and only this): numba/numpy/awkward broadcasting is elementwise, so a kernel applied to arrays is the
kernel applied to each track; `vector` objects are expanded into cartesian components (`.to_2D()`, `-`, `.rho`, `.phi` with the
meaning written in Model/NumpySem.lean); `_regularize_obj_position / _regularize_obj_momentum` are coercions (identity on the
mathematical value); `int(charge)` is the identity on the admissible charges -1, +1.

Everything outside the supported subset raises `Unsupported` - never a silent default.
"""
from __future__ import annotations

import ast
import re
import sys

try:                                            # same exception type as the sibling translator when importable
    from translate.helix import Unsupported
except Exception:                               # pragma: no cover - stand-alone use
    try:
        sys.path.insert(0, "/verif/tools")
        from translate.helix import Unsupported
    except Exception:
        class Unsupported(Exception):
            pass


KERNELS = ["dr_phi0_to_x", "dr_phi0_to_y", "phi0_to_phi", "kappa_to_pt", "kappa_to_charge", "kappa_to_radius", "_fix_dr_sign"]
HELPERS = {"_compute_momentum": "computeMomentum", "_compute_position": "computePosition"}
PARAM_FIELDS = ("dr", "phi0", "kappa", "dz", "tanl")


def lean_kernel_name(py: str) -> str:
    return "k_" + py.lstrip("_")


# ------------------------------------------------------------------------------------------------ symbolic values
class S:
    """scalar (Lean text of type α)"""
    def __init__(self, t): self.t = t


class B:
    """boolean (Lean text of type Bool)"""
    def __init__(self, t): self.t = t


class V2:
    """cartesian 2-vector (component texts)"""
    def __init__(self, x, y): self.x, self.y = x, y


class V3:
    """cartesian 3-vector (component texts)"""
    def __init__(self, x, y, z): self.x, self.y, self.z = x, y, z

    @staticmethod
    def named(n): return V3(f"{n}.x", f"{n}.y", f"{n}.z")

    def comps(self): return (self.x, self.y, self.z)


class Mom:
    """the momentum *input* `mom : α × α × α` = (pt, phi, pz)"""
    def __init__(self, name): self.name = name


class MomV:
    """a momentum *built* from pt, phi, pz (vector.obj(pt=, phi=, pz=) / ak.zip({...}, with_name='Momentum3D'))"""
    def __init__(self, pt, phi, pz): self.pt, self.phi, self.pz = pt, phi, pz


class Trip:
    """Lean expression of type α × α × α (result of a translated helper)"""
    def __init__(self, t): self.t = t

    def comps(self): return [S(f"{par(self.t)}.1"), S(f"{par(self.t)}.2.1"), S(f"{par(self.t)}.2.2")]


class Tup:
    def __init__(self, items): self.items = list(items)


class ParamsV:
    def __init__(self, d): self.d = d


class SelfV:
    """`self` of a helix object / record: fields dr, phi0, kappa, dz, tanl -> `h.<field>`; `.pivot` -> `p` (if available)"""
    def __init__(self, has_pivot): self.has_pivot = has_pivot


class Marker:
    """an opaque value that may only be passed along (error matrix, kwargs)"""
    def __init__(self, name): self.name = name


_ATOM = re.compile(r"^[A-Za-z_][A-Za-z0-9_.']*$")


def par(t: str) -> str:
    return t if _ATOM.match(t) else f"({t})"


# ------------------------------------------------------------------------------------------------ blocks
class Blk:
    """items: ('let', name, text) | ('ret', text) | ('if', cond, Blk, Blk)"""
    def __init__(self): self.items = []

    def lets(self):
        if any(i[0] != "let" for i in self.items):
            raise Unsupported("return inside a branch that must fall through")
        return [(i[1], i[2]) for i in self.items]

    def render(self, ind="  "):
        out = []
        for it in self.items:
            if it[0] == "let":
                out.append(f"{ind}let {it[1]} := {it[2]}")
            elif it[0] == "ret":
                out.append(f"{ind}{it[1]}")
            else:
                out.append(f"{ind}if {it[1]} then")
                out += it[2].render(ind + "  ")
                out.append(f"{ind}else")
                out += it[3].render(ind + "  ")
        return out


def strip_doc(body):
    if body and isinstance(body[0], ast.Expr) and isinstance(body[0].value, ast.Constant) and isinstance(body[0].value.value, str):
        return body[1:]
    return body


def is_lit(e, v):
    return isinstance(e, ast.Constant) and not isinstance(e.value, bool) and isinstance(e.value, (int, float)) and e.value == v


class Tr:
    """symbolic execution of a statement list; `kind` is the Lean result type: 'S' | 'trip' | 'vec3' | 'params' | None"""

    def __init__(self, env: dict, calls: dict, kind, inputs=None, noop_calls=()):
        self.env = dict(env)
        self.calls = calls              # python function name -> (lean name, arity, 'S' | 'trip')
        self.kind = kind
        self.inputs = inputs or {}      # kwargs.pop(<key>) -> value
        self.popped = set()
        self.noop_calls = set(noop_calls)
        self.nstmts = 0

    # ---- literals
    def num(self, v):
        if isinstance(v, bool) or not isinstance(v, (int, float)):
            raise Unsupported(f"literal {v!r}")
        if v == 0: return "R.zero"
        if v == 1: return "R.one"
        if v == 2: return "R.two"
        if isinstance(v, float) and v == 1e-10: return "R.eps"
        raise Unsupported(f"numeric literal {v!r} has no counterpart in Ops")

    # ---- expressions
    def scalar(self, e):
        v = self.expr(e)
        if not isinstance(v, S):
            raise Unsupported(f"`{ast.unparse(e)}` is not a scalar")
        return v

    def expr(self, e):
        src = ast.unparse(e)
        if isinstance(e, ast.Name):
            if e.id not in self.env:
                raise Unsupported(f"unknown name {e.id}")
            return self.env[e.id]
        if isinstance(e, ast.Constant):
            return S(self.num(e.value))
        if isinstance(e, ast.Attribute):
            if src in ("np.pi", "math.pi"):
                return S("R.pi")
            if isinstance(e.value, ast.Name) and e.value.id in ("np", "math", "vector", "ak", "nb"):
                raise Unsupported(f"attribute {src}")
            base = self.expr(e.value)
            if isinstance(base, SelfV):
                if e.attr in PARAM_FIELDS:
                    return S(f"h.{e.attr}")
                if e.attr == "pivot" and base.has_pivot:
                    return V3.named("p")
                raise Unsupported(f"attribute {src} of the helix is not part of the model of this property")
            if isinstance(base, V3) and e.attr in ("x", "y", "z"):
                return S(getattr(base, e.attr))
            if isinstance(base, V2) and e.attr == "rho":
                return S(f"vecRho R {par(base.x)} {par(base.y)}")
            if isinstance(base, V2) and e.attr == "phi":
                return S(f"vecPhi R {par(base.x)} {par(base.y)}")
            if isinstance(base, Mom) and e.attr in ("pt", "phi", "pz"):
                proj = {"pt": "1", "phi": "2.1", "pz": "2.2"}[e.attr]
                return S(f"{base.name}.{proj}")
            raise Unsupported(f"attribute {src}")
        if isinstance(e, ast.UnaryOp) and isinstance(e.op, ast.USub):
            return S(f"R.neg {par(self.scalar(e.operand).t)}")
        if isinstance(e, ast.BinOp):
            if isinstance(e.op, ast.Div) and is_lit(e.left, 1000) and is_lit(e.right, 2.99792458):
                return S("R.alpha")
            a, b = self.expr(e.left), self.expr(e.right)
            if isinstance(a, V3) and isinstance(b, V3) and isinstance(e.op, (ast.Add, ast.Sub)):
                f = "R.add" if isinstance(e.op, ast.Add) else "R.sub"
                return V3(*(f"{f} {par(x)} {par(y)}" for x, y in zip(a.comps(), b.comps())))
            if isinstance(a, S) and isinstance(b, S):
                f = {ast.Add: "R.add", ast.Sub: "R.sub", ast.Mult: "R.mul", ast.Div: "R.div"}.get(type(e.op))
                if f:
                    return S(f"{f} {par(a.t)} {par(b.t)}")
                if isinstance(e.op, ast.Mod):
                    return S(f"pmod R {par(a.t)} {par(b.t)}")
            raise Unsupported(f"binary operation {src}")
        if isinstance(e, ast.Compare):
            if len(e.ops) != 1:
                raise Unsupported(f"chained comparison {src}")
            l, r = self.scalar(e.left), self.scalar(e.comparators[0])
            if isinstance(e.ops[0], ast.Lt):
                return B(f"R.lt {par(l.t)} {par(r.t)}")
            if isinstance(e.ops[0], ast.Gt):
                return B(f"R.lt {par(r.t)} {par(l.t)}")
            raise Unsupported(f"comparison {src} (only < and > exist in Ops)")
        if isinstance(e, ast.IfExp):
            c = self.expr(e.test)
            a, b = self.scalar(e.body), self.scalar(e.orelse)
            if not isinstance(c, B):
                raise Unsupported(f"condition {ast.unparse(e.test)}")
            return S(f"if {c.t} then {a.t} else {b.t}")
        if isinstance(e, ast.Tuple):
            return Tup(self.expr(x) for x in e.elts)
        if isinstance(e, ast.Call):
            return self.call(e)
        raise Unsupported(f"expression {src}")

    def kwdict(self, e: ast.Call, names):
        if e.args or any(k.arg is None for k in e.keywords):
            raise Unsupported(f"call {ast.unparse(e)}: keyword arguments only")
        got = [k.arg for k in e.keywords]
        if sorted(got) != sorted(names):
            raise Unsupported(f"call {ast.unparse(e)}: keywords {got}, expected {sorted(names)}")
        return {k.arg: self.expr(k.value) for k in e.keywords}

    def call(self, e: ast.Call):
        f = ast.unparse(e.func)
        src = ast.unparse(e)
        if f in ("np.cos", "math.cos", "np.sin", "math.sin", "np.sqrt", "math.sqrt", "np.abs", "abs", "np.absolute", "math.fabs"):
            if len(e.args) != 1 or e.keywords:
                raise Unsupported(f"call {src}")
            op = {"cos": "cos", "sin": "sin", "sqrt": "sqrt", "abs": "abs", "absolute": "abs", "fabs": "abs"}[f.split(".")[-1]]
            return S(f"R.{op} {par(self.scalar(e.args[0]).t)}")
        if f == "np.int8":
            a = e.args[0] if len(e.args) == 1 and not e.keywords else None
            lit = a.operand if isinstance(a, ast.UnaryOp) and isinstance(a.op, ast.USub) else a
            if not (isinstance(lit, ast.Constant) and isinstance(lit.value, int) and not isinstance(lit.value, bool) and lit.value in (0, 1)):
                raise Unsupported(f"call {src}: only np.int8 of the literals 1, -1, 0 (exactly representable) is supported")
            return self.scalar(a)
        if f in self.calls:
            lean, arity, kind = self.calls[f]
            if e.keywords or len(e.args) != arity:
                raise Unsupported(f"call {src}: expected {arity} positional arguments")
            args = " ".join(par(self.scalar(a).t) for a in e.args)
            return S(f"{lean} R {args}") if kind == "S" else Trip(f"{lean} R {args}")
        if f in ("vector.obj", "vector.MomentumObject3D") and {k.arg for k in e.keywords} == {"pt", "phi", "pz"}:
            kw = self.kwdict(e, ["pt", "phi", "pz"])
            if not all(isinstance(v, S) for v in kw.values()):
                raise Unsupported(f"call {src}")
            return MomV(kw["pt"].t, kw["phi"].t, kw["pz"].t)
        if f in ("vector.obj", "vector.VectorObject3D") and {k.arg for k in e.keywords} == {"x", "y", "z"}:
            kw = self.kwdict(e, ["x", "y", "z"])
            if not all(isinstance(v, S) for v in kw.values()):
                raise Unsupported(f"call {src}")
            return V3(kw["x"].t, kw["y"].t, kw["z"].t)
        if f == "ak.zip":
            if len(e.args) != 1 or not isinstance(e.args[0], ast.Dict) or [k.arg for k in e.keywords] != ["with_name"]:
                raise Unsupported(f"call {src}")
            d = e.args[0]
            if not all(isinstance(k, ast.Constant) and isinstance(k.value, str) for k in d.keys):
                raise Unsupported(f"call {src}: dict keys")
            keys = [k.value for k in d.keys]
            if len(set(keys)) != len(keys):
                raise Unsupported(f"call {src}: duplicate keys")
            vals = {k: self.scalar(v) for k, v in zip(keys, d.values)}
            wn = e.keywords[0].value
            wn = wn.value if isinstance(wn, ast.Constant) else None
            if set(keys) == {"pt", "phi", "pz"} and wn == "Momentum3D":
                return MomV(vals["pt"].t, vals["phi"].t, vals["pz"].t)
            if set(keys) == {"x", "y", "z"} and wn == "Vector3D":
                return V3(vals["x"].t, vals["y"].t, vals["z"].t)
            raise Unsupported(f"call {src}: fields {keys} with_name {wn!r}")
        if f == "HelixObject":
            kw = self.kwdict(e, list(PARAM_FIELDS) + ["pivot", "error"])
            if not all(isinstance(kw[k], S) for k in PARAM_FIELDS):
                raise Unsupported(f"call {src}: non-scalar helix parameter")
            pv = kw["pivot"]
            if not (isinstance(pv, V3) and pv.comps() == V3.named("p").comps()):
                raise Unsupported(f"call {src}: the pivot of the new helix is not the given pivot")
            if not (isinstance(kw["error"], Marker) and kw["error"].name == "error"):
                raise Unsupported(f"call {src}: the error matrix of the new helix is not the given one")
            return ParamsV({k: kw[k].t for k in PARAM_FIELDS})
        if isinstance(e.func, ast.Attribute) and e.func.attr == "to_2D" and not e.args and not e.keywords:
            base = self.expr(e.func.value)
            if isinstance(base, V3):
                return V2(base.x, base.y)
            raise Unsupported(f"call {src}")
        if f == "kwargs.pop":
            if not (isinstance(self.env.get("kwargs"), Marker) and e.args and isinstance(e.args[0], ast.Constant) and not e.keywords):
                raise Unsupported(f"call {src}")
            key = e.args[0].value
            if key not in self.inputs or key in self.popped:
                raise Unsupported(f"call {src}: not an input of the translated branch (or popped twice)")
            want_default = {"pivot": "(0, 0, 0)"}.get(key)
            got_default = ast.unparse(e.args[1]) if len(e.args) == 2 else None
            if len(e.args) > 2 or got_default != want_default:
                raise Unsupported(f"call {src}: default {got_default}, expected {want_default}")
            self.popped.add(key)
            return self.inputs[key]
        if f == "int" and len(e.args) == 1 and not e.keywords and ast.unparse(e.args[0]) == "kwargs.pop('charge')":
            return self.expr(e.args[0])             # identity on the admissible charges -1, +1
        if f == "_regularize_obj_position" and len(e.args) == 1 and not e.keywords:
            v = self.expr(e.args[0])
            if isinstance(v, V3):
                return v
            raise Unsupported(f"call {src}")
        if f == "_regularize_obj_momentum" and len(e.args) == 1 and not e.keywords:
            v = self.expr(e.args[0])
            if isinstance(v, Mom):
                return v
            raise Unsupported(f"call {src}")
        raise Unsupported(f"call {src}")

    # ---- binding
    def bind(self, blk: Blk, name: str, val):
        if isinstance(val, (S, B)):
            blk.items.append(("let", name, val.t))
            self.env[name] = type(val)(name)
        elif isinstance(val, V2):
            blk.items.append(("let", name + "_x", val.x)); blk.items.append(("let", name + "_y", val.y))
            self.env[name] = V2(name + "_x", name + "_y")
        elif isinstance(val, V3):
            if all(_ATOM.match(c) for c in val.comps()):
                self.env[name] = val                                    # alias of an input vector
            else:
                for c, t in zip("xyz", val.comps()):
                    blk.items.append(("let", f"{name}_{c}", t))
                self.env[name] = V3(f"{name}_x", f"{name}_y", f"{name}_z")
        elif isinstance(val, (Mom, Marker)):
            self.env[name] = val
        else:
            raise Unsupported(f"cannot bind {name} to a {type(val).__name__}")

    # ---- statements
    def final(self, val) -> str:
        k = self.kind
        if k == "S" and isinstance(val, S):
            return val.t
        if k == "bool" and isinstance(val, B):
            return val.t
        if k == "trip" and isinstance(val, Tup) and len(val.items) == 3 and all(isinstance(v, S) for v in val.items):
            return "(" + ", ".join(v.t for v in val.items) + ")"
        if k == "trip" and isinstance(val, MomV):
            return f"({val.pt}, {val.phi}, {val.pz})"
        if k == "trip" and isinstance(val, Trip):
            return val.t
        if k == "vec3" and isinstance(val, V3):
            return f"{{ x := {val.x}, y := {val.y}, z := {val.z} }}"
        if k == "params" and isinstance(val, ParamsV):
            return "{ " + ", ".join(f"{f} := {val.d[f]}" for f in PARAM_FIELDS) + " }"
        raise Unsupported(f"return value of type {type(val).__name__} where `{k}` is expected")

    def block(self, stmts, need_return: bool) -> Blk:
        blk = Blk()
        stmts = strip_doc(list(stmts))
        for i, st in enumerate(stmts):
            self.nstmts += 1
            if self.special(blk, st):
                continue
            if isinstance(st, ast.Return):
                if i != len(stmts) - 1:
                    raise Unsupported("statement after return")
                if st.value is None:
                    raise Unsupported("bare return")
                blk.items.append(("ret", self.final(self.expr(st.value))))
                return blk
            if isinstance(st, ast.If) and self.is_coercion_guard(st):
                continue
            if isinstance(st, ast.If):
                c = self.expr(st.test)
                if not isinstance(c, B):
                    raise Unsupported(f"condition {ast.unparse(st.test)}")
                if st.body and isinstance(st.body[-1], ast.Return):
                    # if c: ...; return a        ->   if c then a else <the rest>
                    if not need_return:
                        raise Unsupported("return inside a branch that must fall through")
                    snap = dict(self.env)
                    b1 = self.block(st.body, True)
                    self.env = dict(snap)
                    b2 = self.block(list(st.orelse) + stmts[i + 1:], True)
                    blk.items.append(("if", c.t, b1, b2))
                    return blk
                # data-dependent re-binding of scalars: merge with if-then-else
                snap = dict(self.env)
                l1 = self.block(st.body, False).lets()
                self.env = dict(snap)
                l2 = self.block(st.orelse, False).lets()
                self.env = dict(snap)
                for n in dict.fromkeys([n for n, _ in l1] + [n for n, _ in l2]):
                    if not isinstance(snap.get(n), S):
                        raise Unsupported(f"variable {n} defined only inside a data-dependent branch")

                    def arm(lets):
                        if not lets: return n
                        if len(lets) == 1 and lets[0][0] == n: return lets[0][1]
                        return "(" + "; ".join(f"let {m} := {t}" for m, t in lets) + f"; {n})"
                    blk.items.append(("let", n, f"if {c.t} then {arm(l1)} else {arm(l2)}"))
                    self.env[n] = S(n)
                continue
            if isinstance(st, ast.AnnAssign) and st.value is not None and isinstance(st.target, ast.Name):
                self.bind(blk, st.target.id, self.expr(st.value)); continue
            if isinstance(st, ast.Assign):
                if len(st.targets) != 1:
                    raise Unsupported("multiple assignment")
                tgt, val = st.targets[0], self.expr(st.value)
                if isinstance(tgt, ast.Name):
                    self.bind(blk, tgt.id, val); continue
                if isinstance(tgt, ast.Tuple) and all(isinstance(x, ast.Name) for x in tgt.elts):
                    if isinstance(val, Trip):
                        tmp = "r_" + val.t.split()[0]
                        blk.items.append(("let", tmp, val.t))
                        vals = Trip(tmp).comps()
                    elif isinstance(val, Tup):
                        vals = val.items
                    else:
                        raise Unsupported(f"unpacking of {ast.unparse(st.value)}")
                    if len(vals) != len(tgt.elts):
                        raise Unsupported(f"unpacking {len(vals)} values into {len(tgt.elts)} names")
                    for x, v in zip(tgt.elts, vals):
                        self.bind(blk, x.id, v)
                    continue
                raise Unsupported(f"assignment target {ast.unparse(tgt)}")
            if isinstance(st, ast.AugAssign) and isinstance(st.target, ast.Name):
                cur = self.expr(st.target)
                if not isinstance(cur, S):
                    raise Unsupported(ast.unparse(st))
                v = st.value
                if isinstance(st.op, ast.Mult) and isinstance(v, ast.UnaryOp) and isinstance(v.op, ast.USub) \
                        and isinstance(v.operand, ast.Constant) and type(v.operand.value) is int and v.operand.value == 1:
                    self.bind(blk, st.target.id, S(f"R.neg {par(cur.t)}")); continue         # exactly `x *= -1`
                f = {ast.Add: "R.add", ast.Sub: "R.sub", ast.Mult: "R.mul", ast.Div: "R.div"}.get(type(st.op))
                if f is None:
                    raise Unsupported(ast.unparse(st))
                self.bind(blk, st.target.id, S(f"{f} {par(cur.t)} {par(self.scalar(v).t)}")); continue
            if isinstance(st, ast.Expr) and ast.unparse(st.value) in self.noop_calls:
                continue
            raise Unsupported(f"statement `{ast.unparse(st)[:90]}`")
        if need_return:
            raise Unsupported("the translated code falls off its end without a return")
        return blk

    def special(self, blk: Blk, st) -> bool:
        """hook for subclasses: statements with a dedicated translation (True = handled)"""
        return False

    def is_coercion_guard(self, st: ast.If) -> bool:
        """`if not isinstance(v, ak.Array): v = _regularize_obj_position(v)` - a coercion, the value is unchanged"""
        t = st.test
        if not (isinstance(t, ast.UnaryOp) and isinstance(t.op, ast.Not) and isinstance(t.operand, ast.Call)
                and ast.unparse(t.operand.func) == "isinstance" and len(t.operand.args) == 2
                and isinstance(t.operand.args[0], ast.Name) and ast.unparse(t.operand.args[1]) == "ak.Array"):
            return False
        n = t.operand.args[0].id
        if st.orelse or len(st.body) != 1 or ast.unparse(st.body[0]) != f"{n} = _regularize_obj_position({n})":
            raise Unsupported(f"statement `{ast.unparse(st)[:90]}`")
        if not isinstance(self.env.get(n), V3):
            raise Unsupported(f"`{n}` is not a position")
        return True


# ------------------------------------------------------------------------------------------------ lookup helpers
def top_function(tree, name):
    fs = [n for n in tree.body if isinstance(n, ast.FunctionDef) and n.name == name
          and not any(ast.unparse(d).split(".")[-1] == "overload" for d in n.decorator_list)]
    if len(fs) != 1:
        raise Unsupported(f"{len(fs)} definitions of {name} (besides @overload stubs)")
    return fs[0]


def plain_params(fn: ast.FunctionDef, skip_self=False):
    a = fn.args
    if a.vararg or a.kwarg or a.kwonlyargs or a.posonlyargs or a.defaults or a.kw_defaults:
        raise Unsupported(f"{fn.name}: only plain positional parameters are supported")
    names = [x.arg for x in a.args]
    if skip_self:
        if not names or names[0] != "self":
            raise Unsupported(f"{fn.name}: first parameter is not self")
        names = names[1:]
    return names


def the_class(tree, name):
    cs = [n for n in tree.body if isinstance(n, ast.ClassDef) and n.name == name]
    if len(cs) != 1:
        raise Unsupported(f"{len(cs)} classes named {name}")
    return cs[0]


def the_property(cls: ast.ClassDef, name):
    fs = [n for n in cls.body if isinstance(n, ast.FunctionDef) and n.name == name]
    if len(fs) != 1:
        raise Unsupported(f"{len(fs)} definitions of {cls.name}.{name}")
    fn = fs[0]
    if [ast.unparse(d) for d in fn.decorator_list] != ["property"]:
        raise Unsupported(f"{cls.name}.{name}: decorators {[ast.unparse(d) for d in fn.decorator_list]} (a memoised property of a mutable object is not the model)")
    if plain_params(fn, skip_self=True):
        raise Unsupported(f"{cls.name}.{name}: a property with parameters")
    return fn


def lean_def(doc, name, sig, rtype, blk: Blk) -> str:
    return "\n".join([f"/-- {doc} -/", f"def {name} (R : Ops α){sig} : {rtype} :="] + blk.render()) + "\n"


# ------------------------------------------------------------------------------------------------ a. kernels
def translate_kernel(tree, name, calls):
    fn = top_function(tree, name)
    decs = [ast.unparse(d.func) if isinstance(d, ast.Call) else ast.unparse(d) for d in fn.decorator_list]
    if decs != ["nb.vectorize"]:
        raise Unsupported(f"{name}: decorators {decs}, expected nb.vectorize (elementwise application is what the model assumes)")
    params = plain_params(fn)
    tr = Tr({p: S(p) for p in params}, calls, "S")
    blk = tr.block(fn.body, True)
    lean = lean_kernel_name(name)
    text = lean_def(f"`{name}` (numba-vectorised kernel, applied elementwise)", lean, f" ({' '.join(params)} : α)", "α", blk)
    return text, lean, len(params), tr.nstmts


# ------------------------------------------------------------------------------------------------ c. helpers
def translate_helper(tree, name, calls):
    fn = top_function(tree, name)
    if fn.decorator_list:
        raise Unsupported(f"{name}: unexpected decorators")
    params = plain_params(fn)
    tr = Tr({p: S(p) for p in params}, calls, "trip")
    blk = tr.block(fn.body, True)
    lean = HELPERS[name]
    text = lean_def(f"`{name}`", lean, f" ({' '.join(params)} : α)", "α × α × α", blk)
    return text, lean, len(params), tr.nstmts


# ------------------------------------------------------------------------------------------------ b./c. properties
PROPS = {   # property -> (suffix, needs pivot, kind, lean type)
    "momentum": ("Momentum", False, "trip", "α × α × α"),
    "position": ("Position", True, "vec3", "Vec3 α"),
    "charge": ("Charge", False, "S", "α"),
    "radius": ("Radius", False, "S", "α"),
}


def translate_property(cls, prop, prefix, calls):
    fn = the_property(cls, prop)
    suffix, has_pivot, kind, rtype = PROPS[prop]
    tr = Tr({"self": SelfV(has_pivot)}, calls, kind)
    blk = tr.block(fn.body, True)
    sig = " (h : Params α)" + (" (p : Vec3 α)" if has_pivot else "")
    what = "(pt, phi, pz) of " if prop == "momentum" else ""
    text = lean_def(f"{what}`{cls.name}.{prop}`" + (" (`self.pivot` is `p`)" if has_pivot else ""), prefix + suffix, sig, rtype, blk)
    return text, prefix + suffix, tr.nstmts


def check_same_bodies(rec, arr, prop):
    a = [ast.dump(s) for s in strip_doc(the_property(rec, prop).body)]
    b = [ast.dump(s) for s in strip_doc(the_property(arr, prop).body)]
    if a != b:
        raise Unsupported(f"{arr.name}.{prop} differs from {rec.name}.{prop} (only the Record version is translated)")


# ------------------------------------------------------------------------------------------------ d. constructors
FROM_SIG = " (pos : Vec3 α) (mom : α × α × α) (q : α) (p : Vec3 α)"


def physics_inputs():
    return {"momentum": Mom("mom"), "position": V3.named("pos"), "charge": S("q"), "pivot": V3.named("p")}


def assigned_names(nodes):
    out = []
    for n in nodes:
        for x in ast.walk(n):
            tg = []
            if isinstance(x, ast.Assign): tg = x.targets
            elif isinstance(x, (ast.AnnAssign, ast.AugAssign)): tg = [x.target]
            elif isinstance(x, (ast.For, ast.comprehension)): tg = [x.target]
            elif isinstance(x, ast.NamedExpr): tg = [x.target]
            elif isinstance(x, (ast.With,)): tg = [i.optional_vars for i in x.items if i.optional_vars is not None]
            for t in tg:
                out += [y.id for y in ast.walk(t) if isinstance(y, ast.Name)]
    return out


def check_noop(tree):
    """`_check_kwargs_used_up(kwargs)` only warns"""
    fn = top_function(tree, "_check_kwargs_used_up")
    for x in ast.walk(fn):
        if isinstance(x, (ast.Raise, ast.Return, ast.Global, ast.Nonlocal, ast.Assign, ast.AugAssign, ast.Delete)):
            raise Unsupported("_check_kwargs_used_up does more than warn")
        if isinstance(x, ast.Call) and isinstance(x.func, ast.Attribute) and x.func.attr in ("pop", "clear", "update", "popitem", "setdefault"):
            raise Unsupported("_check_kwargs_used_up mutates its argument")
    return "_check_kwargs_used_up(kwargs)"


def translate_helix_obj(tree, calls):
    fn = top_function(tree, "helix_obj")
    if fn.args.args or not (fn.args.vararg and fn.args.vararg.arg == "args" and fn.args.kwarg and fn.args.kwarg.arg == "kwargs"):
        raise Unsupported("helix_obj: signature is not (*args, **kwargs)")
    body = strip_doc(fn.body)
    inputs = ("pivot", "charge", "momentum", "position")
    where = {}
    for i, st in enumerate(body):
        t = st.targets[0] if isinstance(st, ast.Assign) and len(st.targets) == 1 else st.target if isinstance(st, ast.AnnAssign) else None
        if isinstance(t, ast.Name) and t.id in inputs:
            if t.id in where:
                raise Unsupported(f"helix_obj: {t.id} bound twice before the physics branch")
            where[t.id] = i
    if set(where) != set(inputs):
        raise Unsupported(f"helix_obj: inputs bound at top level: {sorted(where)}")
    start = max(where[k] for k in ("charge", "momentum", "position")) + 1
    if where["pivot"] >= start:
        raise Unsupported("helix_obj: pivot bound inside the physics branch")
    # nothing else before the branch touches the inputs, and every earlier `if` that does not return only adapts `error`
    pre = body[:start]
    names = assigned_names(pre)
    for k in inputs:
        if names.count(k) != 1:
            raise Unsupported(f"helix_obj: {k} is assigned {names.count(k)} times before the physics branch")
    tr = Tr({"kwargs": Marker("kwargs"), "error": Marker("error")}, calls, "params", inputs=physics_inputs(), noop_calls=[check_noop(tree)])
    pre_items = []
    for i, st in enumerate(pre):
        if i in where.values():
            pre_items += tr.block([st], False).items                    # e.g. `let charge := q`
        elif isinstance(st, ast.If):
            if st.body and isinstance(st.body[-1], ast.Return) and not st.orelse:
                continue                                                # another calling convention, returns
            if set(assigned_names([st])) <= {"error"}:
                continue
            raise Unsupported(f"helix_obj: `{ast.unparse(st)[:60]}` before the physics branch")
        elif isinstance(st, ast.Assign) and assigned_names([st]) == ["error"] and ast.unparse(st.value) == "kwargs.pop('error', None)":
            continue
        elif isinstance(st, ast.Assert) and ast.unparse(st.test) == "charge in (-1, 1)":
            continue
        else:
            raise Unsupported(f"helix_obj: `{ast.unparse(st)[:60]}` before the physics branch")
    if any(it[0] != "let" for it in pre_items):
        raise Unsupported("helix_obj: the input bindings are not plain assignments")
    blk = tr.block(body[start:], True)
    blk.items[:0] = pre_items
    if tr.popped != set(inputs):
        raise Unsupported(f"helix_obj: inputs read: {sorted(tr.popped)}")
    text = lean_def("`helix_obj(momentum=mom, position=pos, charge=q, pivot=p)`: the branch \"given momentum, position and charge\"",
                    "objFromPhysics", FROM_SIG, "Params α", blk)
    return text, tr.nstmts


def translate_helix_awk(tree, calls):
    fn = top_function(tree, "helix_awk")
    body = strip_doc(fn.body)
    chains = [i for i, st in enumerate(body) if isinstance(st, ast.If) and st.orelse]
    chains = [i for i in chains if ast.unparse(body[i].test) == "len(args) > 0"]
    if len(chains) != 1:
        raise Unsupported("helix_awk: the if/elif chain over the calling conventions was not found")
    ci = chains[0]
    node = body[ci]
    arms = 1
    while len(node.orelse) == 1 and isinstance(node.orelse[0], ast.If):
        node = node.orelse[0]; arms += 1
    branch = node.orelse
    if not branch:
        raise Unsupported("helix_awk: the chain has no final else")
    # statements before the chain must not bind the inputs / results
    bad = set(assigned_names(body[:ci])) & ({"momentum", "position", "charge"} | set(PARAM_FIELDS))
    if bad:
        raise Unsupported(f"helix_awk: {sorted(bad)} assigned before the if/elif chain")
    tr = Tr({"kwargs": Marker("kwargs")}, calls, None, inputs=physics_inputs())
    blk = tr.block(branch, False)
    blk.lets()
    if tr.popped != {"momentum", "position", "charge", "pivot"}:
        raise Unsupported(f"helix_awk: inputs read: {sorted(tr.popped)}")
    # after the chain: the five parameters are not touched again and go into res_dict under their own names
    post = body[ci + 1:]
    bad = set(assigned_names(post)) & set(PARAM_FIELDS)
    if bad:
        raise Unsupported(f"helix_awk: {sorted(bad)} re-assigned after the if/elif chain")
    rd = [st for st in post if isinstance(st, ast.Assign) and len(st.targets) == 1 and ast.unparse(st.targets[0]) == "res_dict"]
    if len(rd) != 1 or not isinstance(rd[0].value, ast.Dict):
        raise Unsupported("helix_awk: res_dict literal not found")
    d = rd[0].value
    if not all(isinstance(k, ast.Constant) for k in d.keys):
        raise Unsupported("helix_awk: res_dict keys")
    keys = [k.value for k in d.keys]
    if len(set(keys)) != len(keys):
        raise Unsupported("helix_awk: duplicate res_dict keys")
    m = dict(zip(keys, d.values))
    for k in list(PARAM_FIELDS) + ["pivot"]:
        if not (k in m and isinstance(m[k], ast.Name) and m[k].id == k):
            raise Unsupported(f"helix_awk: res_dict[{k!r}] is `{ast.unparse(m[k]) if k in m else None}`, expected the variable {k}")
    for st in post:         # res_dict[...] = ... may only add the error matrix
        for x in ast.walk(st):
            if isinstance(x, (ast.Assign, ast.AugAssign)):
                for t in (x.targets if isinstance(x, ast.Assign) else [x.target]):
                    if isinstance(t, ast.Subscript) and ast.unparse(t.value) == "res_dict" and ast.unparse(t.slice) != "'error'":
                        raise Unsupported(f"helix_awk: `{ast.unparse(x)}`")
    last = post[-1] if post else None
    if not (isinstance(last, ast.Return) and isinstance(last.value, ast.Call) and ast.unparse(last.value.func) == "ak.zip"
            and len(last.value.args) == 1 and ast.unparse(last.value.args[0]) == "res_dict"
            and any(k.arg == "with_name" and ast.unparse(k.value) == "'Bes3Helix'" for k in last.value.keywords)):
        raise Unsupported("helix_awk: does not end with `return ak.zip(res_dict, ..., with_name='Bes3Helix')`")
    vals = {}
    for k in PARAM_FIELDS:
        v = tr.env.get(k)
        if not isinstance(v, S):
            raise Unsupported(f"helix_awk: {k} is not computed by the physics branch")
        vals[k] = v.t
    pv = tr.env.get("pivot")
    if not (isinstance(pv, V3) and pv.comps() == V3.named("p").comps()):
        raise Unsupported("helix_awk: the pivot of the new helix is not the given pivot")
    tr.kind = "params"
    blk.items.append(("ret", tr.final(ParamsV(vals))))
    text = lean_def("`helix_awk(momentum=mom, position=pos, charge=q, pivot=p)`: the final `else:` of the if/elif chain, then `res_dict`",
                    "awkFromPhysics", FROM_SIG, "Params α", blk)
    return text, tr.nstmts, arms


# ------------------------------------------------------------------------------------------------ e. closeness test
class HelixV:
    """a helix operand of the closeness test: five parameter texts, pivot (V3), error (Lean text of an `Option` matrix, or
    the name of a matrix inside a branch where it is known to be present)"""
    def __init__(self, fields, pivot, error):
        self.fields, self.pivot, self.error = dict(fields), pivot, error


class ErrV:
    """the error matrix a helix carries, if any; `via` = how the source got hold of it: 'attr' (`x.error` - raises for a record
    without that field) or 'helper' (`_error_or_none(x)`)"""
    def __init__(self, owner: HelixV, via: str): self.owner, self.via = owner, via


class FieldsV:
    def __init__(self, owner: HelixV): self.owner = owner


class SomeT:
    """the test "this helix carries an error matrix" (`x.error is not None` / `'error' in x.fields`)"""
    def __init__(self, owner: HelixV, via: str): self.owner, self.via = owner, via


class BothSome:
    """both helices carry an error matrix; `via` = how each presence was decided ('attr' | 'helper' | 'fields')"""
    def __init__(self, owners, via): self.owners, self.via = owners, via


class StrV:
    def __init__(self, v): self.v = v


class MatB:
    """`ak.isclose(errA, errB, **kwargs)`, reduced by `ak.all(.., axis=-1)` `level` times"""
    def __init__(self, a, b, level=0): self.a, self.b, self.level = a, b, level


class KindTest:
    """`isinstance(self, ak.Record)`: single record or array - both arms must define the same values"""


def parb(t: str) -> str:
    return f"({t})" if (" && " in t or t.startswith("if ") or t.startswith("match ")) else t


class IscloseTr(Tr):
    """`_obj_isclose` / `_arr_isclose`, per track"""

    def __init__(self, mover: str, tree=None):
        self.tree = tree
        self.present = {}           # id(helix) -> name of its error matrix, inside the branch where both are known to be present
        self.presence_via = None
        self_h = HelixV({f: f"h.{f}" for f in PARAM_FIELDS}, V3.named("p"), "E")
        other_h = HelixV({f: f"h'.{f}" for f in PARAM_FIELDS}, V3.named("p'"), "E'")
        super().__init__({"self": self_h, "other": other_h, "rtol": S("rtol"), "atol": S("atol"), "equal_nan": Marker("equal_nan")},
                         {}, "bool")
        self.mover = mover
        self.moved = False
        self.tested = []            # (a, b) of every isclose, in order
        self.error_rule = None

    def need_kwargs(self, e: ast.Call):
        ok = len(e.keywords) == 1 and e.keywords[0].arg is None and isinstance(e.keywords[0].value, ast.Name) \
            and isinstance(self.env.get(e.keywords[0].value.id), Marker) and self.env[e.keywords[0].value.id].name == "isclose_kwargs"
        if not ok:
            raise Unsupported(f"call {ast.unparse(e)}: tolerances are not passed on as **kwargs (numpy's own defaults would apply)")

    def helix_name(self, hv):
        names = [k for k, v in self.env.items() if v is hv]
        if len(names) != 1:
            raise Unsupported("a helix operand is bound to several names")
        return names[0]

    def expr(self, e):
        src = ast.unparse(e)
        if isinstance(e, ast.Constant) and isinstance(e.value, str):
            return StrV(e.value)
        if isinstance(e, ast.Attribute) and not (isinstance(e.value, ast.Name) and e.value.id in ("np", "math", "vector", "ak", "nb")):
            base = self.expr(e.value)
            if isinstance(base, HelixV):
                if e.attr in PARAM_FIELDS: return S(base.fields[e.attr])
                if e.attr == "pivot": return base.pivot
                if e.attr == "error": return ErrV(base, "attr")
                if e.attr == "fields": return FieldsV(base)
                raise Unsupported(f"attribute {src}")
        if isinstance(e, ast.Subscript):
            base, idx = self.expr(e.value), self.expr(e.slice)
            if isinstance(base, HelixV) and isinstance(idx, StrV) and idx.v in PARAM_FIELDS:
                return S(base.fields[idx.v])
            raise Unsupported(f"subscript {src}")
        if isinstance(e, ast.Dict):
            keys = [k.value if isinstance(k, ast.Constant) else None for k in e.keys]
            if keys == ["rtol", "atol", "equal_nan"] and [ast.unparse(v) for v in e.values] == keys \
                    and all(k in self.env for k in keys) and self.env["rtol"].t == "rtol" and self.env["atol"].t == "atol":
                return Marker("isclose_kwargs")
            raise Unsupported(f"dict {src}")
        if isinstance(e, ast.Compare) and len(e.ops) == 1:
            op, l, r = e.ops[0], e.left, e.comparators[0]
            if isinstance(op, ast.IsNot) and isinstance(r, ast.Constant) and r.value is None:
                v = self.expr(l)
                if isinstance(v, ErrV):
                    return SomeT(v.owner, v.via)
                raise Unsupported(f"test {src}")
            if isinstance(op, ast.In):
                a, b = self.expr(l), self.expr(r)
                if isinstance(a, StrV) and a.v == "error" and isinstance(b, FieldsV):
                    return SomeT(b.owner, "fields")
                raise Unsupported(f"test {src}")
        if isinstance(e, ast.BoolOp) and isinstance(e.op, ast.And):
            vals = [self.expr(v) for v in e.values]
            if all(isinstance(v, B) for v in vals):
                return B(" && ".join(parb(v.t) for v in vals))
            if len(vals) == 2 and all(isinstance(v, SomeT) for v in vals) and vals[0].owner is not vals[1].owner:
                return BothSome([v.owner for v in vals], [v.via for v in vals])
            raise Unsupported(f"boolean expression {src}")
        if isinstance(e, ast.BinOp) and isinstance(e.op, ast.BitAnd):
            a, b = self.expr(e.left), self.expr(e.right)
            if isinstance(a, B) and isinstance(b, B):
                return B(f"{parb(a.t)} && {parb(b.t)}")
            raise Unsupported(f"expression {src}")
        return super().expr(e)

    def call(self, e: ast.Call):
        f, src = ast.unparse(e.func), ast.unparse(e)
        if f in ("np.isclose", "ak.isclose"):
            self.need_kwargs(e)
            if len(e.args) != 2:
                raise Unsupported(f"call {src}")
            a, b = self.expr(e.args[0]), self.expr(e.args[1])
            if isinstance(a, S) and isinstance(b, S):
                self.tested.append((a.t, b.t))
                return B(f"iscloseScalar R rtol atol {par(a.t)} {par(b.t)}")
            if f == "ak.isclose" and isinstance(a, ErrV) and isinstance(b, ErrV) and id(a.owner) in self.present and id(b.owner) in self.present:
                return MatB(self.present[id(a.owner)], self.present[id(b.owner)])
            raise Unsupported(f"call {src}")
        if f == "np.allclose":
            self.need_kwargs(e)
            a, b = (self.expr(x) for x in e.args) if len(e.args) == 2 else (None, None)
            if isinstance(a, ErrV) and isinstance(b, ErrV) and id(a.owner) in self.present and id(b.owner) in self.present:
                return B(f"allclose25 R rtol atol {self.present[id(a.owner)]} {self.present[id(b.owner)]}")
            raise Unsupported(f"call {src}")
        if f == "ak.all":
            if len(e.args) != 1 or [k.arg for k in e.keywords] != ["axis"] or ast.unparse(e.keywords[0].value) != "-1":
                raise Unsupported(f"call {src}")
            v = self.expr(e.args[0])
            if isinstance(v, MatB) and v.level == 0:
                return MatB(v.a, v.b, 1)                                   # the 5 columns of each row
            if isinstance(v, MatB) and v.level == 1:
                return B(f"allclose25 R rtol atol {v.a} {v.b}")            # ... and the 5 rows
            raise Unsupported(f"call {src}")
        if f in ("np.abs", "abs", "np.absolute") and len(e.args) == 1 and not e.keywords:
            v = self.expr(e.args[0])
            if isinstance(v, V3):
                return S(f"vecMag3 R {par(v.x)} {par(v.y)} {par(v.z)}")
            if isinstance(v, S):
                return S(f"R.abs {par(v.t)}")
            raise Unsupported(f"call {src}")
        if f == "ak.ones_like":
            if len(e.args) == 1 and isinstance(self.expr(e.args[0]), S) and [(k.arg, ast.unparse(k.value)) for k in e.keywords] == [("dtype", "bool")]:
                return B("true")
            raise Unsupported(f"call {src}")
        if f == "bool" and len(e.args) == 1 and not e.keywords:
            v = self.expr(e.args[0])
            if isinstance(v, B):
                return v
            raise Unsupported(f"call {src}")
        if f == "ak.Record":
            z = ast.Call(func=ast.Attribute(value=ast.Name(id="ak", ctx=ast.Load()), attr="zip", ctx=ast.Load()), args=e.args, keywords=e.keywords)
            return super().call(ast.fix_missing_locations(ast.copy_location(z, e)))          # same field-wise meaning as ak.zip
        if f == "isinstance" and src == "isinstance(self, ak.Record)":
            return KindTest()
        if f == "_error_or_none":
            check_error_or_none(self.tree)
            v = self.expr(e.args[0]) if len(e.args) == 1 and not e.keywords else None
            if isinstance(v, HelixV):
                return ErrV(v, "helper")                # the matrix the helix carries, if any (record: the field, if it exists)
            raise Unsupported(f"call {src}")
        return super().call(e)

    def bind(self, blk, name, val):
        if isinstance(val, (HelixV, ErrV)):
            self.env[name] = val
        else:
            super().bind(blk, name, val)

    def special(self, blk: Blk, st) -> bool:
        # other = other.change_pivot(self.pivot)
        if isinstance(st, ast.Assign) and isinstance(st.value, ast.Call) and isinstance(st.value.func, ast.Attribute) \
                and st.value.func.attr == "change_pivot":
            tgt = st.targets[0] if len(st.targets) == 1 else None
            who = self.expr(st.value.func.value)
            args = [self.expr(a) for a in st.value.args]
            selfh = self.env["self"]
            if not (isinstance(tgt, ast.Name) and isinstance(who, HelixV) and who is self.env.get(tgt.id) and who is not selfh
                    and len(args) == 1 and not st.value.keywords and isinstance(args[0], V3) and args[0].comps() == selfh.pivot.comps()
                    and not self.moved):
                raise Unsupported(f"statement `{ast.unparse(st)}`: expected `other = other.change_pivot(self.pivot)`")
            n = tgt.id
            old, new = who.pivot, args[0]
            blk.items.append(("let", n, f"{self.mover} R h' {old.x.split('.')[0]} {new.x.split('.')[0]}"))
            blk.items.append(("let", f"{n}_error", f"Option.map (propagate R {n}.2.2.2) {who.error}"))
            # wiring of the new helix (checked on the callers by translate.helix.check_callers and check_move_wiring)
            self.env[n] = HelixV({"dr": f"{n}.1", "phi0": f"{n}.2.1", "dz": f"{n}.2.2.1", "kappa": who.fields["kappa"], "tanl": who.fields["tanl"]},
                                 new, f"{n}_error")
            self.moved = True
            return True
        # for f in [...]: <body>          (unrolled)
        if isinstance(st, ast.For):
            if st.orelse or not isinstance(st.target, ast.Name) or not isinstance(st.iter, (ast.List, ast.Tuple)) \
                    or not all(isinstance(x, ast.Constant) and isinstance(x.value, str) for x in st.iter.elts):
                raise Unsupported(f"loop `{ast.unparse(st)[:70]}`")
            for x in st.iter.elts:
                self.env[st.target.id] = StrV(x.value)
                blk.items += self.block(st.body, False).items
            del self.env[st.target.id]
            return True
        if isinstance(st, ast.If):
            c = self.expr(st.test)
            if isinstance(c, KindTest):
                snap = dict(self.env)
                b1 = self.block(st.body, False); e1 = self.env
                self.env = dict(snap)
                b2 = self.block(st.orelse, False); e2 = self.env
                if b1.items or b2.items or set(e1) != set(e2):
                    raise Unsupported("the record and the array arm of `isinstance(self, ak.Record)` do not bind the same names")
                for k in e1:
                    if k in snap and e1[k] is snap[k] and e2[k] is snap[k]:
                        continue
                    if not (isinstance(e1[k], V3) and isinstance(e2[k], V3) and e1[k].comps() == e2[k].comps()):
                        raise Unsupported(f"`{k}` differs between the record and the array arm of `isinstance(self, ak.Record)`")
                self.env = e1
                return True
            if isinstance(c, BothSome):
                if st.orelse or self.error_rule is not None:
                    raise Unsupported(f"statement `{ast.unparse(st)[:70]}`")
                snap = dict(self.env)
                names = [self.helix_name(hv) for hv in c.owners]
                self.present = {id(hv): f"e_{n}" for hv, n in zip(c.owners, names)}
                lets = self.block(st.body, False).lets()
                self.present = {}
                self.env = snap
                if [n for n, _ in lets] != ["condition"] or not isinstance(snap.get("condition"), B):
                    raise Unsupported("the error-matrix branch does more than refine `condition`")
                a, b = (hv.error for hv in c.owners)
                blk.items.append(("let", "condition", f"ifBothErrors {a} {b} (fun {' '.join('e_' + n for n in names)} => {lets[0][1]}) condition"))
                self.error_rule = names
                self.presence_via = list(c.via)
                return True
            return False
        return False


def translate_isclose_helper(tree, name, lean, mover):
    fn = top_function(tree, name)
    a = fn.args
    if [x.arg for x in a.args] != ["self", "other"] or [x.arg for x in a.kwonlyargs] != ["rtol", "atol", "equal_nan"] \
            or a.vararg or a.kwarg or a.defaults or any(d is not None for d in a.kw_defaults) or fn.decorator_list:
        raise Unsupported(f"{name}: signature is not (self, other, *, rtol, atol, equal_nan)")
    tr = IscloseTr(mover, tree)
    blk = tr.block(fn.body, True)
    if not tr.moved:
        raise Unsupported(f"{name}: the other helix is not moved to self's pivot")
    if tr.error_rule != ["self", "other"]:
        raise Unsupported(f"{name}: the error matrices are not compared as (self.error, other.error) when both are present")
    sig = " (rtol atol : α) (h : Params α) (p : Vec3 α) (E : Option (Nat → Nat → α)) (h' : Params α) (p' : Vec3 α) (E' : Option (Nat → Nat → α))"
    text = lean_def(f"`{name}(self, other, rtol=, atol=, equal_nan=)` for one track; `E`, `E'` are the error matrices (`none` = no matrix)",
                    lean + "Full", sig, "Bool", blk)
    text += f"\n/-- `{name}` for helices without error matrices -/\n" \
            f"def {lean} (R : Ops α) (rtol atol : α) (h : Params α) (p : Vec3 α) (h' : Params α) (p' : Vec3 α) : Bool :=\n" \
            f"  {lean}Full R rtol atol h p none h' p' none\n"
    return text, {"lean": lean, "statements": tr.nstmts, "isclose_tests": len(tr.tested), "compared": tr.tested,
                  "error_presence_via": tr.presence_via}


ERROR_OR_NONE_REF = """
def _error_or_none(helix):
    if isinstance(helix, ak.Record):
        return helix["error"] if "error" in helix.fields else None
    return helix.error
"""


def check_error_or_none(tree):
    """`_error_or_none(x)`: a record's `error` field iff the field exists, else None; an object's `.error` - exactly this shape"""
    if tree is None:
        raise Unsupported("_error_or_none: source not available")
    fn = top_function(tree, "_error_or_none")
    ref = ast.parse(ERROR_OR_NONE_REF).body[0]
    if fn.decorator_list or ast.dump(fn.args) != ast.dump(ref.args) \
            or [ast.dump(x) for x in strip_doc(fn.body)] != [ast.dump(x) for x in ref.body]:
        raise Unsupported("_error_or_none is not `record: helix['error'] if 'error' in helix.fields else None; otherwise helix.error`")


def decimal_of(e, what):
    import decimal
    if not (isinstance(e, ast.Constant) and isinstance(e.value, (int, float)) and not isinstance(e.value, bool)):
        raise Unsupported(f"{what}: default is not a numeric literal")
    d = decimal.Decimal(repr(e.value)).normalize()
    sign, digits, exp = d.as_tuple()
    if sign or not isinstance(exp, int):
        raise Unsupported(f"{what}: default {e.value!r}")
    return int("".join(map(str, digits))), exp


def warn_only(tree, name):
    fn = top_function(tree, name)
    for x in ast.walk(fn):
        if isinstance(x, (ast.Raise, ast.Global, ast.Nonlocal, ast.Delete)) or (isinstance(x, ast.Return) and x.value is not None):
            raise Unsupported(f"{name} does more than warn")


def check_isclose_method(tree, cls_name):
    """which helper, which arguments, which defaults"""
    cls = the_class(tree, cls_name)
    fs = [n for n in cls.body if isinstance(n, ast.FunctionDef) and n.name == "isclose"]
    if len(fs) != 1 or fs[0].decorator_list:
        raise Unsupported(f"{cls_name}.isclose")
    fn = fs[0]
    a = fn.args
    if len(a.args) != 2 or a.args[0].arg != "self" or a.vararg or a.kwarg or a.defaults \
            or [x.arg for x in a.kwonlyargs] != ["rtol", "atol", "equal_nan"] or any(d is None for d in a.kw_defaults):
        raise Unsupported(f"{cls_name}.isclose: signature is not (self, other, *, rtol=, atol=, equal_nan=)")
    oth = a.args[1].arg
    rt, at = decimal_of(a.kw_defaults[0], f"{cls_name}.isclose rtol"), decimal_of(a.kw_defaults[1], f"{cls_name}.isclose atol")
    en = a.kw_defaults[2]
    if not (isinstance(en, ast.Constant) and isinstance(en.value, bool)):
        raise Unsupported(f"{cls_name}.isclose: equal_nan default")

    def helper_of(st):
        c = st.value if isinstance(st, ast.Return) else None
        if not (isinstance(c, ast.Call) and isinstance(c.func, ast.Name) and c.func.id in ("_obj_isclose", "_arr_isclose")
                and [ast.unparse(x) for x in c.args] == ["self", oth]
                and sorted((k.arg, ast.unparse(k.value)) for k in c.keywords) == [("atol", "atol"), ("equal_nan", "equal_nan"), ("rtol", "rtol")]):
            raise Unsupported(f"{cls_name}.isclose: `{ast.unparse(st)[:80]}`")
        return "obj" if c.func.id == "_obj_isclose" else "arr"
    body = strip_doc(fn.body)
    result, multi = None, False
    for i, st in enumerate(body):
        last = i == len(body) - 1
        if isinstance(st, ast.If) and ast.unparse(st.test).startswith("xor(") and not st.orelse and len(st.body) == 1 \
                and isinstance(st.body[0], ast.Expr) and ast.unparse(st.body[0].value).startswith("warnings.warn("):
            continue
        if isinstance(st, ast.Expr) and ast.unparse(st.value) == f"_helix_isclose_check_error(self.fields, {oth}.fields)":
            warn_only(tree, "_helix_isclose_check_error"); continue
        if isinstance(st, ast.Assign) and ast.unparse(st) == "multi_trk = isinstance(self.pivot.x, ak.Array)" and not multi:
            multi = True; continue
        if last and isinstance(st, ast.Return):
            k = helper_of(st); result = (k, k); continue
        if last and isinstance(st, ast.If) and multi and ast.unparse(st.test) == "multi_trk" and len(st.body) == 1 and len(st.orelse) == 1:
            result = (helper_of(st.body[0]), helper_of(st.orelse[0])); continue
        raise Unsupported(f"{cls_name}.isclose: `{ast.unparse(st)[:80]}`")
    if result is None:
        raise Unsupported(f"{cls_name}.isclose: no call of a helper")
    return {"rtol": rt, "atol": at, "equal_nan": en.value, "helper_multi": result[0], "helper_single": result[1]}


def check_move_wiring(tree):
    """`x.change_pivot(q)` gives a helix whose pivot is q and whose error matrix is the propagated one exactly when x has one
    (the parameters' wiring is checked by translate.helix.check_callers)"""
    from translate.helix import check_callers
    check_callers(ast.unparse(tree))
    def need(cond, msg):
        if not cond:
            raise Unsupported("change_pivot wiring: " + msg)
    cp = top_function(tree, "_change_pivot")
    ifs = [st for st in cp.body if isinstance(st, ast.If) and ast.unparse(st.test) == "old_error is not None"]
    need(len(ifs) == 1 and [ast.unparse(x) for x in ifs[0].orelse] == ["new_error = None"], "_change_pivot: `new_error = None` without an old error matrix")
    need(isinstance(cp.body[-1], ast.Return) and ast.unparse(cp.body[-1].value) == "(new_dr, new_phi0, new_dz, new_error)", "_change_pivot: return value")
    fs = [n for n in the_class(tree, "HelixObject").body if isinstance(n, ast.FunctionDef) and n.name == "change_pivot"]
    need(len(fs) == 1, "HelixObject.change_pivot")
    m = fs[0]
    need(m.args.vararg is not None and m.args.vararg.arg == "args" and [x.arg for x in m.args.args] == ["self"], "HelixObject.change_pivot(self, *args)")
    asg = [ast.unparse(x) for x in ast.walk(m) if isinstance(x, ast.Assign)]
    need("new_pivot = _regularize_obj_position(args)" in asg and sum(a.startswith("new_pivot =") for a in asg) == 1, "HelixObject.change_pivot: new_pivot")
    rets = [x for x in ast.walk(m) if isinstance(x, ast.Return)]
    need(len(rets) == 1 and isinstance(rets[0].value, ast.Call) and ast.unparse(rets[0].value.func) == "HelixObject", "HelixObject.change_pivot: return")
    kw = {k.arg: ast.unparse(k.value) for k in rets[0].value.keywords}
    need(kw.get("pivot") == "new_pivot" and kw.get("error") == "new_error", "HelixObject.change_pivot: pivot= / error= of the new helix")
    calls = [c for c in ast.walk(m) if isinstance(c, ast.Call) and ast.unparse(c.func) == "_change_pivot"]
    need(len(calls) == 1 and {k.arg: ast.unparse(k.value) for k in calls[0].keywords}.get("old_error") == "self.error", "HelixObject.change_pivot: old_error=self.error")
    aw = top_function(tree, "_awk_change_pivot")
    need([x.arg for x in aw.args.args] == ["helix_self", "args"], "_awk_change_pivot(helix_self, args, ...)")
    dicts = [st.value for st in aw.body if isinstance(st, ast.Assign) and ast.unparse(st.targets[0]) == "res_dict" and isinstance(st.value, ast.Dict)]
    need(len(dicts) == 1, "_awk_change_pivot: res_dict")
    d = {k.value: v for k, v in zip(dicts[0].keys, dicts[0].values) if isinstance(k, ast.Constant)}
    pv = d.get("pivot")
    want = "{'x': new_pivot.x, 'y': new_pivot.y, 'z': new_pivot.z}"
    def arm(x):
        return isinstance(x, ast.Call) and ast.unparse(x.func) in ("ak.zip", "ak.Record") and len(x.args) == 1 and ast.unparse(x.args[0]) == want \
            and [(k.arg, ast.unparse(k.value)) for k in x.keywords] == [("with_name", "'Vector3D'")]
    need(isinstance(pv, ast.IfExp) and arm(pv.body) and arm(pv.orelse) or arm(pv), "_awk_change_pivot: res_dict['pivot'] is not the new pivot")
    np_asg = sorted(ast.unparse(x.value) for x in ast.walk(aw) if isinstance(x, ast.Assign) and ast.unparse(x.targets[0]) == "new_pivot")
    need(len(np_asg) == 2 and np_asg[0] == "_regularize_obj_position(args)" and np_asg[1].startswith("vector.arr({'x': _flat_to_numpy(ak_new_pivot.x)"), "_awk_change_pivot: new_pivot")
    need("ak_new_pivot = _awk_regularize_pivot(helix_self.dr, args)" in [ast.unparse(x) for x in ast.walk(aw) if isinstance(x, ast.Assign)], "_awk_change_pivot: ak_new_pivot")
    errs = [st for st in aw.body if isinstance(st, ast.If) and ast.unparse(st.test) == "new_error is not None"]
    need(len(errs) == 1 and [ast.unparse(x) for x in errs[0].body] == ["res_dict['error'] = new_error"] and not errs[0].orelse, "_awk_change_pivot: error of the new helix")
    olds = [st for st in aw.body if isinstance(st, ast.If) and ast.unparse(st.test) == "'error' in helix_self.fields"]
    need(len(olds) == 1 and [ast.unparse(x) for x in olds[0].orelse] == ["old_error = None"] and len(olds[0].body) == 1
         and ast.unparse(olds[0].body[0]).startswith("old_error = _flat_to_numpy(helix_self.error).reshape("), "_awk_change_pivot: old_error")
    for cn, ctor in (("HelixAwkwardRecord", "ak.Record"), ("HelixAwkwardArray", "ak.Array")):
        ms = [n for n in the_class(tree, cn).body if isinstance(n, ast.FunctionDef) and n.name == "change_pivot"]
        need(len(ms) == 1, f"{cn}.change_pivot")
        src = [ast.unparse(x) for x in ast.walk(ms[0]) if isinstance(x, ast.Assign)]
        need(any(x.startswith("res_dict, raw_shape = _awk_change_pivot(self, args, is_multi_trk=") for x in src), f"{cn}.change_pivot: call of _awk_change_pivot")
        need(f"res = {ctor}(res_dict, with_name='Bes3Helix')" in src, f"{cn}.change_pivot: construction of the result")
    return True


ISCLOSE_STATIC = """/-- numpy's / awkward's `isclose(a, b, rtol, atol)` on finite values: `|a - b| <= atol + rtol * |b|`, written with the strict
comparison of `Ops` (NaN / infinities and hence `equal_nan` have no counterpart over `Ops`: the theorems are about finite values) -/
def iscloseScalar (R : Ops α) (rtol atol a b : α) : Bool :=
  !(R.lt (R.add atol (R.mul rtol (R.abs b))) (R.abs (R.sub a b)))

/-- `np.abs(v)` of a 3-D `vector` object / `Vector3D` awkward record is `v.mag`
(`VectorObject.__array_ufunc__`: `numpy.absolute` of a `Vector3D` returns `.mag`; `behavior[numpy.absolute, "Vector3D"] = lambda v: v.mag`;
`vector._compute.spatial.mag.xy_z = sqrt(x**2 + y**2 + z**2)`) -/
def vecMag3 (R : Ops α) (x y z : α) : α := R.sqrt (R.add (R.add (R.mul x x) (R.mul y y)) (R.mul z z))

/-- conjunction over the 5 x 5 entries (`np.allclose` of two 5x5 matrices; `ak.all(ak.all(.., axis=-1), axis=-1)` per track) -/
def all25 (f : Nat → Nat → Bool) : Bool := (List.range 5).all fun i => (List.range 5).all fun j => f i j

def allclose25 (R : Ops α) (rtol atol : α) (a b : Nat → Nat → α) : Bool := all25 fun i j => iscloseScalar R rtol atol (a i j) (b i j)

/-- `if <both helices carry an error matrix>: condition = f(self.error, other.error)` -/
def ifBothErrors (a b : Option (Nat → Nat → α)) (f : (Nat → Nat → α) → (Nat → Nat → α) → Bool) (otherwise : Bool) : Bool :=
  match a, b with
  | some x, some y => f x y
  | _, _ => otherwise

/-- defaults of the keyword-only parameters of a public `isclose` method, as exact decimals `mantissa * 10 ^ exponent` -/
structure IscloseDefaults where
  rtolMant : Nat
  rtolExp : Int
  atolMant : Nat
  atolExp : Int
  equalNan : Bool
  deriving DecidableEq, Repr

/-- the helper a public `isclose` method delegates to (always called as `helper(self, other, rtol=rtol, atol=atol, equal_nan=equal_nan)`) -/
inductive IscloseHelper where
  | obj
  | arr
  deriving DecidableEq, Repr

"""

ISCLOSE_DISPATCH = """
/-- the verdict of a public `isclose` method for one track, through the helper it delegates to -/
def iscloseVia (R : Ops α) (k : IscloseHelper) (rtol atol : α) (h : Params α) (p : Vec3 α) (E : Option (Nat → Nat → α))
    (h' : Params α) (p' : Vec3 α) (E' : Option (Nat → Nat → α)) : Bool :=
  match k with
  | .obj => objIsclosePyFull R rtol atol h p E h' p' E'
  | .arr => arrIsclosePyFull R rtol atol h p E h' p' E'
"""


def translate_isclose(tree):
    check_move_wiring(tree)
    parts, info = [ISCLOSE_STATIC], {}
    for name, lean, mover in (("_obj_isclose", "objIsclosePy", "changePivotWiredObj"), ("_arr_isclose", "arrIsclosePy", "changePivotWiredArr")):
        text, i = translate_isclose_helper(tree, name, lean, mover)
        parts.append(text); info[name] = i
    via_field = all(v in ("helper", "fields") for v in info["_obj_isclose"]["error_presence_via"])
    info["objErrorPresenceViaField"] = via_field
    parts.append("/-- `_obj_isclose` (which also serves single-track *records*) decides \"this helix carries an error matrix\" through\n"
                 "`_error_or_none` / a test of the record's fields - a record without an `error` field simply has none - and not through the\n"
                 "attribute `x.error`, which raises AttributeError for such a record (`false` = the attribute form) -/\n"
                 f"def objErrorPresenceViaField : Bool := {str(via_field).lower()}\n")
    parts.append(ISCLOSE_DISPATCH)
    for cn, pre in (("HelixObject", "obj"), ("HelixAwkwardRecord", "rec"), ("HelixAwkwardArray", "arr")):
        m = check_isclose_method(tree, cn)
        info[cn + ".isclose"] = m
        parts.append(f"/-- `{cn}.isclose(self, other, *, rtol={m['rtol'][0]}e{m['rtol'][1]}, atol={m['atol'][0]}e{m['atol'][1]}, equal_nan={m['equal_nan']})` -/\n"
                     f"def {pre}IscloseDefaults : IscloseDefaults := ⟨{m['rtol'][0]}, {m['rtol'][1]}, {m['atol'][0]}, {m['atol'][1]}, {str(m['equal_nan']).lower()}⟩\n")
        hm, hs = m["helper_multi"], m["helper_single"]
        body = f".{hm}" if hm == hs else f"if multi_trk then .{hm} else .{hs}"
        arg = "_multi_trk" if hm == hs else "multi_trk"
        parts.append(f"/-- the helper `{cn}.isclose` calls (`multi_trk = isinstance(self.pivot.x, ak.Array)`) -/\n"
                     f"def {pre}IscloseHelper ({arg} : Bool) : IscloseHelper := {body}\n")
    return "\n".join(parts), info


# ------------------------------------------------------------------------------------------------ driver
LEAN_HEADER = """-- GENERATED by tools/translate/helixprops.py from /repo/src/pybes3/tracks/helix.py. Do not edit.
import Pybes3Verif.Model.NumpySem
import Pybes3Verif.Gen.HelixPy
/-! The `@nb.vectorize` kernels, the `momentum / position / charge / radius` properties of `HelixObject` and of
`HelixAwkwardRecord` (= `HelixAwkwardArray`, checked by the translator), `_compute_momentum`, `_compute_position` and the
"given momentum, position and charge" branch of `helix_obj` / `helix_awk`, translated statement by statement; the closeness
test (`_obj_isclose`, `_arr_isclose`, the three public `isclose` methods: helper called, defaults), per track, the other helix
moved with the translated `changePivotWiredObj / changePivotWiredArr` of `Gen/HelixPy.lean`. -/
namespace Pybes3Verif.Helix.Py
open Pybes3Verif.Helix

variable {α : Type}

"""


def generate(src: str) -> tuple[str, dict]:
    tree = ast.parse(src)
    info = {"kernels": {}, "helpers": {}, "HelixObject": {}, "HelixAwkwardRecord": {}, "constructors": {}}
    parts = []
    calls = {}
    for k in KERNELS:                                   # kernels do not call each other: translated with an empty call table
        text, lean, arity, n = translate_kernel(tree, k, {})
        parts.append(text); info["kernels"][k] = {"lean": lean, "params": arity, "statements": n}
        calls[k] = (lean, arity, "S")
    kcalls = dict(calls)
    for hname in HELPERS:
        text, lean, arity, n = translate_helper(tree, hname, kcalls)
        parts.append(text); info["helpers"][hname] = {"lean": lean, "params": arity, "statements": n}
        calls[hname] = (lean, arity, "trip")
    obj = the_class(tree, "HelixObject")
    for prop in ("radius", "momentum", "position", "charge"):
        text, lean, n = translate_property(obj, prop, "obj", calls)
        parts.append(text); info["HelixObject"][prop] = {"lean": lean, "statements": n}
    rec, arr = the_class(tree, "HelixAwkwardRecord"), the_class(tree, "HelixAwkwardArray")
    for prop in ("momentum", "position", "charge", "radius"):
        check_same_bodies(rec, arr, prop)
        text, lean, n = translate_property(rec, prop, "awk", calls)
        parts.append(text); info["HelixAwkwardRecord"][prop] = {"lean": lean, "statements": n, "same_as_HelixAwkwardArray": True}
    text, n = translate_helix_obj(tree, calls)
    parts.append(text); info["constructors"]["helix_obj"] = {"lean": "objFromPhysics", "statements": n}
    text, n, arms = translate_helix_awk(tree, calls)
    parts.append(text); info["constructors"]["helix_awk"] = {"lean": "awkFromPhysics", "statements": n, "chain_arms_before_else": arms,
                                                              "res_dict": {k: k for k in PARAM_FIELDS}}
    text, info["isclose"] = translate_isclose(tree)
    parts.append(text)
    return LEAN_HEADER + "\n".join(parts) + "\nend Pybes3Verif.Helix.Py\n", info


def main(argv):
    import json
    out_path = argv[2] if len(argv) > 2 else "/verif/lean/Pybes3Verif/Gen/HelixProps.lean"
    if len(argv) > 1:
        with open(argv[1]) as f:
            src = f.read()
    else:                                       # the committed source (the working tree may carry a seeded defect)
        import subprocess
        src = subprocess.run(["git", "-C", "/repo", "show", "HEAD:src/pybes3/tracks/helix.py"], check=True, capture_output=True, text=True).stdout
    text, info = generate(src)
    with open(out_path, "w") as f:
        f.write(text)
    print(json.dumps(info, indent=1))
    print(f"wrote {out_path}")


if __name__ == "__main__":
    sys.path.insert(0, "/verif/tools")
    main(sys.argv)
