"""Translator for the C++ raw-data parser, src/pybes3/besio/cpp/raw_io.cc (+ raw_io.hh), into Lean (Gen/RawCpp.lean).

The C++ TEXT of every function `arrays()` reaches is read statement by statement and re-emitted, in source order, as a `do` block over the
primitives of the hand-written model's parser monad (`Model/RawParser.lean`); `Props/RawCppTie.lean` proves the generated definitions EQUAL
to the hand-written model, so a semantic edit of the C++ breaks a proof obligation (or is refused here: anything outside the recognised
statement shapes raises `Unsupported` naming the statement - never a silent default).

  * `require`, `read()`, `read(n)`, `skip()`, `skip(n)`      -> `requireCpp`, `readCpp`, `readNCpp`, `skip1Cpp`, `skipCpp`
        (`m_data_end - m_cursor` = `remaining`, `*(m_cursor++)` = `rawRead`, `m_cursor += n` / `m_cursor++` = `rawSkip n` / `rawSkip 1`,
         `std::vector<uint32_t> v(m_cursor, m_cursor + n); m_cursor += n;` = `rawReadN n`)
  * `read_ROB`, `read_ROS`, `read_sub_detector`, `read_event` -> `readROBCpp`, `readROSCpp`, `readSubDetCpp`, `readEventCpp`
        side effects on the member vectors become returned values: `fill_digi(v, id)` contributes the rows `fillDigiCpp id v`; a function
        that calls `f(local_id)` in a size loop tags the rows with that id; `m_evt_header_data[k].push_back(read())` is header word k
  * `fill_digi`                                               -> `fillDigiCpp` + one definition per extracted field (with EVERY narrowing
        conversion `uint16_t x = …` / push into a `uint8_t` column emitted as `% 65536` / `% 256`; the tie proves them harmless)
  * `arrays()` (selection loop, first `fill_offsets()`, `while ( m_cursor < m_data_end ) read_event();`, the conversion of the member
        vectors into the returned dict -> `headerKeys`, `columnWiring`, `rawWiring`, `offsetsWiring`), `py_read_bes_raw` (default
        selection), the constructor (cursor at the first word, end = one past the last) -> `readEventsCpp`, `effectiveSelCpp`, `parseCpp`
  * the `RawFlag` / `SubDetID` enums                           -> `flag_*`, `id_*`

Arithmetic: every local is typed (`auto x = read()` is `uint32_t`); `-` on `uint32_t` is the model's wrapping `sub32`, `+` / `<<` are
emitted with an explicit `% 4294967296`; `>`/`>=` are written as flipped `<`/`≤`.  A pure local used exactly once is substituted at its
use.  After `while ( n_left > 0 ) …` on an unsigned `n_left` the variable is known to be 0: a following test on it is emitted with the
literal `(0 : Nat)` (the tie states that this test is dead).
"""
from __future__ import annotations

import json
import os
import re
import subprocess
import sys


class Unsupported(Exception):
    pass


CC_GIT = "src/pybes3/besio/cpp/raw_io.cc"
HH_GIT = "src/pybes3/besio/cpp/raw_io.hh"
OUT_PATH = "/verif/lean/Pybes3Verif/Gen/RawCpp.lean"
CLASS = "RawBinaryParser"

LEAN_RESERVED = {"fun", "let", "if", "then", "else", "match", "with", "at", "from", "end", "do", "in", "have", "show", "open", "def",
                 "theorem", "where", "by", "for", "return", "mut", "fuel", "sel", "ws", "m", "w", "rows", "remaining", "instance",
                 "structure", "class", "namespace", "section", "variable", "universe", "import", "prefix", "infix", "notation", "Type",
                 "Prop", "Sort", "true", "false", "some", "none", "pure", "fail"}


def _ident(name: str) -> str:
    if not re.fullmatch(r"[A-Za-z_][A-Za-z0-9_]*", name):
        raise Unsupported(f"identifier {name!r}")
    return name + "_" if name in LEAN_RESERVED else name


# ------------------------------------------------------------------------------------------------ text -> tokens
def strip_comments(src: str) -> str:
    out, i, n = [], 0, len(src)
    while i < n:
        c = src[i]
        if c in "\"'":
            j = i + 1
            while j < n and src[j] != c:
                j += 2 if src[j] == "\\" else 1
            if j >= n:
                raise Unsupported("unterminated string / character literal")
            out.append(src[i:j + 1])
            i = j + 1
        elif src.startswith("//", i):
            j = src.find("\n", i)
            i = n if j < 0 else j
        elif src.startswith("/*", i):
            j = src.find("*/", i + 2)
            if j < 0:
                raise Unsupported("unterminated /* comment")
            out.append(" ")
            i = j + 2
        else:
            out.append(c)
            i += 1
    return "".join(out)


def strip_preprocessor(src: str) -> str:
    """drop `#include`, `#pragma once` and the `#ifdef PRINT_DEBUG_INFO … #endif` blocks; any other directive is refused"""
    out, skipping = [], False
    for ln in src.split("\n"):
        s = ln.strip()
        if s.endswith("\\"):
            raise Unsupported(f"line continuation `{s}`")
        if s.startswith("#"):
            d = re.sub(r"^#\s*", "", s)
            if skipping:
                if d.startswith("endif"):
                    skipping = False
                elif d.startswith(("if", "el")):
                    raise Unsupported(f"preprocessor directive `{s}` inside the PRINT_DEBUG_INFO block")
                continue
            if re.fullmatch(r"ifdef\s+PRINT_DEBUG_INFO", d):
                skipping = True
                continue
            if d.startswith("include") or re.fullmatch(r"pragma\s+once", d):
                continue
            raise Unsupported(f"preprocessor directive `{s}` (only #include, #pragma once and #ifdef PRINT_DEBUG_INFO … #endif are read)")
        if not skipping:
            out.append(ln)
    if skipping:
        raise Unsupported("#ifdef PRINT_DEBUG_INFO without #endif")
    return "\n".join(out)


_TOKEN = re.compile(r"""\s+|"(?:[^"\\]|\\.)*"|'(?:[^'\\]|\\.)*'|0[xX][0-9A-Fa-f]+|\d+|[A-Za-z_]\w*|::|\+\+|--|\+=|-=|\|=|&=|==|!=|<=|>=|<<|>>|&&|\|\||->|[{}()\[\];,<>=+\-*/%&|^!~?:.]""")


def tokenize(src: str) -> list[str]:
    toks, i = [], 0
    while i < len(src):
        m = _TOKEN.match(src, i)
        if not m:
            raise Unsupported(f"cannot tokenise `{src[i:i + 30]!r}`")
        if not m.group().isspace():
            toks.append(m.group())
        i = m.end()
    return toks


def lex(src: str) -> list[str]:
    return tokenize(strip_preprocessor(strip_comments(src)))


def canon(toks) -> str:
    return " ".join(toks)


def _match(toks, i, open_, close):
    """index of the token closing the bracket opened at i"""
    assert toks[i] == open_
    d = 0
    for j in range(i, len(toks)):
        if toks[j] == open_:
            d += 1
        elif toks[j] == close:
            d -= 1
            if d == 0:
                return j
    raise Unsupported(f"unbalanced `{open_}` near `{canon(toks[i:i + 12])}`")


def _split_commas(toks):
    parts, cur, d = [], [], 0
    for t in toks:
        if t in "([{":
            d += 1
        elif t in ")]}":
            d -= 1
        if t == "," and d == 0:
            parts.append(cur)
            cur = []
        else:
            cur.append(t)
    if cur or parts:
        parts.append(cur)
    return parts


# ------------------------------------------------------------------------------------------------ functions and statements
class Fn:
    def __init__(self, name, ret, params, const, body_toks, qualified):
        self.name, self.ret, self.params, self.const, self.toks, self.qualified = name, ret, params, const, body_toks, qualified
        self.body = None

    @property
    def key(self):
        return (self.name, len(self.params))

    def __repr__(self):
        return f"{self.name}/{len(self.params)}"


def split_functions(toks) -> list[Fn]:
    fns, i = [], 0
    while i < len(toks):
        j, d = i, 0
        while j < len(toks) and not (toks[j] == "{" and d == 0):
            if toks[j] == "(":
                d += 1
            elif toks[j] == ")":
                d -= 1
            elif toks[j] == ";" and d == 0:
                raise Unsupported(f"top-level declaration `{canon(toks[i:j + 1])}` in raw_io.cc (only function definitions are read)")
            j += 1
        if j >= len(toks):
            raise Unsupported(f"trailing tokens `{canon(toks[i:i + 12])}` in raw_io.cc")
        header, k = toks[i:j], _match(toks, j, "{", "}")
        if "(" not in header:
            raise Unsupported(f"top-level block `{canon(header)}` is not a function definition")
        p = header.index("(")
        q = _match(header, p, "(", ")")
        after = header[q + 1:]
        if after not in ([], ["const"]):
            raise Unsupported(f"function header `{canon(header)}`: `{canon(after)}` after the parameter list")
        name = header[p - 1]
        qualified = header[p - 3:p - 1] == [CLASS, "::"]
        ret = header[:p - 3] if qualified else header[:p - 1]
        params = []
        for part in _split_commas(header[p + 1:q]):
            if len(part) < 2 or not re.fullmatch(r"[A-Za-z_]\w*", part[-1]):
                raise Unsupported(f"parameter `{canon(part)}` of {name}")
            params.append((canon([t for t in part[:-1] if t != "const"]), part[-1]))
        fns.append(Fn(name, canon(ret), params, after == ["const"], toks[j + 1:k], qualified))
        i = k + 1
    return fns


def parse_block(toks, where):
    out, i = [], 0
    while i < len(toks):
        node, i = parse_stmt(toks, i, where)
        if node is not None:
            out.append(node)
    return out


def _as_list(node):
    return node[1] if node[0] == "block" else [node]


def parse_stmt(toks, i, where):
    t = toks[i]
    if t == "{":
        k = _match(toks, i, "{", "}")
        return ("block", parse_block(toks[i + 1:k], where)), k + 1
    if t in ("if", "while", "for", "switch"):
        if i + 1 >= len(toks) or toks[i + 1] != "(":
            raise Unsupported(f"{where}: `{t}` without a parenthesised head")
        k = _match(toks, i + 1, "(", ")")
        head = toks[i + 2:k]
        body, j = parse_stmt(toks, k + 1, where)
        if body is None:
            raise Unsupported(f"{where}: `{t} ( {canon(head)} )` with an empty body")
        if t == "if":
            els = None
            if j < len(toks) and toks[j] == "else":
                els, j = parse_stmt(toks, j + 1, where)
                if els is None:
                    raise Unsupported(f"{where}: empty `else`")
                els = _as_list(els)
            return ("if", head, _as_list(body), els), j
        return (t, head, _as_list(body)), j
    if t in ("case", "default"):
        j = i
        while j < len(toks) and toks[j] != ":":
            j += 1
        return ("label", toks[i:j]), j + 1
    if t in ("do", "goto", "try", "else"):
        raise Unsupported(f"{where}: `{t}` statement")
    j, d = i, 0
    while j < len(toks) and not (toks[j] == ";" and d == 0):
        if toks[j] in "([{":
            d += 1
        elif toks[j] in ")]}":
            d -= 1
        j += 1
    if j >= len(toks):
        raise Unsupported(f"{where}: statement `{canon(toks[i:i + 12])} …` without `;`")
    s = toks[i:j]
    if not s:
        return None, j + 1
    if s[:3] == ["std", "::", "cout"]:
        return None, j + 1
    return ("simple", s), j + 1


def show(node) -> str:
    if node[0] == "simple":
        return canon(node[1]) + " ;"
    if node[0] == "block":
        return "{ " + " ".join(show(s) for s in node[1]) + " }"
    if node[0] == "if":
        return f"if ( {canon(node[1])} ) {{ {' '.join(show(s) for s in node[2])} }}" + (f" else {{ {' '.join(show(s) for s in node[3])} }}" if node[3] is not None else "")
    if node[0] == "label":
        return canon(node[1]) + " :"
    return f"{node[0]} ( {canon(node[1])} ) {{ {' '.join(show(s) for s in node[2])} }}"


# ------------------------------------------------------------------------------------------------ expressions
BINPREC = {"||": 1, "&&": 2, "|": 3, "^": 4, "&": 5, "==": 6, "!=": 6, "<": 7, ">": 7, "<=": 7, ">=": 7, "<<": 8, ">>": 8, "+": 9, "-": 9,
           "*": 10, "/": 10, "%": 10}


class EP:
    """precedence-climbing reader for the C++ expressions of this file"""

    def __init__(self, toks, where):
        self.t, self.i, self.where = list(toks), 0, where

    def peek(self):
        return self.t[self.i] if self.i < len(self.t) else None

    def eat(self, x=None):
        if self.i >= len(self.t) or (x is not None and self.t[self.i] != x):
            raise Unsupported(f"{self.where}: expression `{canon(self.t)}`: expected `{x}` at token {self.i}")
        self.i += 1
        return self.t[self.i - 1]

    def parse(self):
        if not self.t:
            raise Unsupported(f"{self.where}: empty expression")
        e = self.expr(1)
        if self.i != len(self.t):
            raise Unsupported(f"{self.where}: expression `{canon(self.t)}`: unexpected `{self.t[self.i]}`")
        return e

    def expr(self, minp):
        lhs = self.unary()
        while self.peek() in BINPREC and BINPREC[self.peek()] >= minp:
            op = self.eat()
            rhs = self.expr(BINPREC[op] + 1)
            lhs = ("bin", op, lhs, rhs)
        if self.peek() == "?":
            raise Unsupported(f"{self.where}: conditional expression `{canon(self.t)}`")
        return lhs

    def unary(self):
        if self.peek() in ("*", "!", "-", "~", "&", "++", "--"):
            op = self.eat()
            return ("un", op, self.unary())
        return self.postfix()

    def postfix(self):
        e = self.primary()
        while True:
            p = self.peek()
            if p == "(":
                k = _match(self.t, self.i, "(", ")")
                args = [EP(a, self.where).parse() for a in _split_commas(self.t[self.i + 1:k])]
                self.i = k + 1
                e = ("call", e, args)
            elif p == "[":
                k = _match(self.t, self.i, "[", "]")
                idx = EP(self.t[self.i + 1:k], self.where).parse()
                self.i = k + 1
                e = ("index", e, idx)
            elif p == ".":
                self.eat()
                e = ("member", e, self.eat())
            elif p == "++":
                self.eat()
                e = ("postinc", e)
            else:
                return e

    def primary(self):
        p = self.peek()
        if p is None:
            raise Unsupported(f"{self.where}: expression `{canon(self.t)}` ends unexpectedly")
        if re.fullmatch(r"0[xX][0-9A-Fa-f]+|\d+", p):
            self.eat()
            if re.fullmatch(r"0\d+", p):
                raise Unsupported(f"{self.where}: octal literal `{p}`")
            return ("num", p, int(p, 0))
        if p.startswith('"'):
            self.eat()
            return ("str", p[1:-1])
        if p == "(":
            k = _match(self.t, self.i, "(", ")")
            e = EP(self.t[self.i + 1:k], self.where).parse()
            self.i = k + 1
            return e
        if p == "static_cast":
            self.eat()
            self.eat("<")
            ty = []
            while self.peek() != ">":
                ty.append(self.eat())
            self.eat(">")
            if self.peek() != "(":
                raise Unsupported(f"{self.where}: `static_cast` without argument")
            k = _match(self.t, self.i, "(", ")")
            e = EP(self.t[self.i + 1:k], self.where).parse()
            self.i = k + 1
            return ("cast", canon(ty), e)
        if re.fullmatch(r"[A-Za-z_]\w*", p):
            parts = [self.eat()]
            while self.peek() == "::":
                self.eat()
                parts.append(self.eat())
            return ("name", parts)
        raise Unsupported(f"{self.where}: expression `{canon(self.t)}`: unexpected `{p}`")


def parse_expr(toks, where):
    return EP(toks, where).parse()


def is_name(e, n=None):
    return e[0] == "name" and len(e[1]) == 1 and (n is None or e[1][0] == n)


def free_names(e, acc=None):
    acc = set() if acc is None else acc
    if e[0] == "name":
        if len(e[1]) == 1:
            acc.add(e[1][0])
    elif e[0] in ("bin",):
        free_names(e[2], acc), free_names(e[3], acc)
    elif e[0] in ("un", "cast"):
        free_names(e[2], acc)
    elif e[0] == "postinc":
        free_names(e[1], acc)
    elif e[0] == "call":
        free_names(e[1], acc)
        for a in e[2]:
            free_names(a, acc)
    elif e[0] == "index":
        free_names(e[1], acc), free_names(e[2], acc)
    elif e[0] == "member":
        free_names(e[1], acc)
    return acc


# ------------------------------------------------------------------------------------------------ simple statements
ASSIGN_OPS = ("=", "-=", "|=", "+=", "&=")
INT_TYPES = {"auto": None, "uint8_t": "u8", "uint16_t": "u16", "uint32_t": "u32", "size_t": "size"}
MAP_DECL = re.compile(r"std :: map < uint16_t , std :: array < uint16_t , 3 >> ([A-Za-z_]\w*)")
VEC_DECL = re.compile(r"std :: vector < uint32_t > ([A-Za-z_]\w*) \( m_cursor , m_cursor \+ ([A-Za-z_]\w*) \)")
BIND_DECL = re.compile(r"auto & \[ ([A-Za-z_][\w ,]*) \] = ([A-Za-z_]\w*)")
STORAGE = ("static", "thread_local", "extern", "register", "mutable", "volatile")


def classify(toks, where):
    """a `simple` statement -> a tagged tuple"""
    c = canon(toks)
    if toks[0] in STORAGE:
        raise Unsupported(f"{where}: statement `{c} ;`: `{toks[0]}` storage (state shared between calls) is not modelled")
    if toks[0] == "throw":
        if toks[1:5] != ["std", "::", "runtime_error", "("] or _match(toks, 4, "(", ")") != len(toks) - 1:
            raise Unsupported(f"{where}: statement `{c} ;`: only `throw std::runtime_error( … )` is read")
        strs = [t for t in toks[5:-1] if t.startswith('"')]
        if not strs or not toks[5].startswith('"'):
            raise Unsupported(f"{where}: statement `{c} ;`: the exception message does not start with a string literal")
        return ("throw", strs[0][1:-1])
    if toks[0] == "return":
        return ("return", parse_expr(toks[1:], where) if len(toks) > 1 else None)
    if toks[0] in ("break", "continue"):
        return (toks[0],)
    m = MAP_DECL.fullmatch(c)
    if m:
        return ("mapdecl", m.group(1))
    m = VEC_DECL.fullmatch(c)
    if m:
        return ("vecdecl", m.group(1), m.group(2))
    m = BIND_DECL.fullmatch(c)
    if m:
        return ("bind", [x.strip() for x in m.group(1).split(",")], m.group(2))
    if toks[0] in INT_TYPES and len(toks) >= 4 and re.fullmatch(r"[A-Za-z_]\w*", toks[1]) and toks[2] == "=":
        return ("decl", toks[0], toks[1], parse_expr(toks[3:], where))
    d = 0
    for k, t in enumerate(toks):
        if t in "([{":
            d += 1
        elif t in ")]}":
            d -= 1
        elif d == 0 and t in ASSIGN_OPS:
            return ("assign", t, parse_expr(toks[:k], where), parse_expr(toks[k + 1:], where))
    if toks[0] in INT_TYPES or toks[0] in ("std", "py", "const", "unsigned", "int", "long", "int64_t", "uint64_t") and not (
            len(toks) > 3 and toks[1] == "::" and toks[3] == "("):
        raise Unsupported(f"{where}: declaration `{c} ;` is not one of the recognised forms")
    return ("expr", parse_expr(toks, where))


# ------------------------------------------------------------------------------------------------ raw_io.hh
def parse_header(src_hh: str) -> dict:
    c = canon(lex(src_hh))
    hh = {"enums": {}, "tuples": {}, "vectors": {}}
    for m in re.finditer(r"enum (\w+) : const uint32_t \{ ([^}]*) \}", c):
        members = {}
        for part in [p.strip() for p in m.group(2).split(",") if p.strip()]:
            mm = re.fullmatch(r"(\w+) = (0[xX][0-9A-Fa-f]+|\d+)", part)
            if not mm:
                raise Unsupported(f"raw_io.hh: enum {m.group(1)} member `{part}`")
            if mm.group(1) in members:
                raise Unsupported(f"raw_io.hh: enum {m.group(1)} member {mm.group(1)} twice")
            members[mm.group(1)] = int(mm.group(2), 0)
            if members[mm.group(1)] >= 2 ** 32:
                raise Unsupported(f"raw_io.hh: enum member {mm.group(1)} does not fit uint32_t")
        hh["enums"][m.group(1)] = members
    for need in ("RawFlag", "SubDetID"):
        if need not in hh["enums"]:
            raise Unsupported(f"raw_io.hh: `enum {need} : const uint32_t {{ … }}` not found")
    m = re.findall(r"std :: map < std :: string , const uint32_t > sub_det_names_to_ids = \{ (.*?) \} ;", c)
    if len(m) != 1:
        raise Unsupported("raw_io.hh: `std::map<std::string, const uint32_t> sub_det_names_to_ids = { … };` not found exactly once")
    names, rest = {}, m[0]
    for mm in re.finditer(r"\{ \"(\w+)\" , SubDetID :: (\w+) \}", rest):
        if mm.group(1) in names:
            raise Unsupported(f"raw_io.hh: sub-detector name {mm.group(1)} twice")
        names[mm.group(1)] = mm.group(2)
    if re.sub(r"\{ \"\w+\" , SubDetID :: \w+ \}|,|\s", "", rest):
        raise Unsupported(f"raw_io.hh: sub_det_names_to_ids initialiser `{rest}`")
    hh["names"] = names
    for m in re.finditer(r"std :: tuple < ([^;]*?) > (m_\w+_data) ;", c.replace(">>", "> >")):
        elems = []
        for part in m.group(1).split(" , "):
            mm = re.fullmatch(r"std :: vector < (uint8_t|uint16_t|uint32_t) >", part.strip())
            if not mm:
                raise Unsupported(f"raw_io.hh: element `{part}` of {m.group(2)}")
            elems.append({"uint8_t": "u8", "uint16_t": "u16", "uint32_t": "u32"}[mm.group(1)])
        hh["tuples"][m.group(2)] = elems
    for m in re.finditer(r"std :: vector < (uint8_t|uint16_t|uint32_t) > (m_\w+) ;", c):
        hh["vectors"][m.group(2)] = {"uint8_t": "u8", "uint16_t": "u16", "uint32_t": "u32"}[m.group(1)]
    m = re.findall(r"std :: array < std :: vector < uint32_t > , (\d+) > m_evt_header_data ;", c)
    if len(m) != 1:
        raise Unsupported("raw_io.hh: `std::array<std::vector<uint32_t>, N> m_evt_header_data;` not found")
    hh["n_header"] = int(m[0])
    m = re.findall(r"const std :: vector < std :: string > evt_header_item_names = \{ (.*?) \} ;", c)
    if len(m) != 1:
        raise Unsupported("raw_io.hh: `const std::vector<std::string> evt_header_item_names = { … };` not found exactly once")
    hh["header_names"] = []
    for part in [x.strip() for x in m[0].split(",") if x.strip()]:
        mm = re.fullmatch(r"\"(\w+)\"", part)
        if not mm:
            raise Unsupported(f"raw_io.hh: evt_header_item_names element `{part}`")
        hh["header_names"].append(mm.group(1))
    if len(hh["header_names"]) != hh["n_header"] or len(set(hh["header_names"])) != hh["n_header"]:
        raise Unsupported(f"raw_io.hh: evt_header_item_names has {len(hh['header_names'])} (distinct?) names for {hh['n_header']} header vectors")
    if "std :: set < uint32_t > m_activated_sub_det_ids ;" not in c:
        raise Unsupported("raw_io.hh: `std::set<uint32_t> m_activated_sub_det_ids;` not found")
    for decl in ("const uint32_t * m_data_end ;", "uint32_t * m_cursor ;"):
        if decl not in c:
            raise Unsupported(f"raw_io.hh: member `{decl}` not found (the cursor must walk uint32_t words)")
    ptr = r"static_cast < uint32_t \* > \( data \. request \( \) \. ptr \)"
    ctor = re.search(r"RawBinaryParser \( py :: array_t < uint32_t > data \) : (.*?) \{ \}", c)
    if not ctor:
        raise Unsupported("raw_io.hh: constructor `RawBinaryParser( py::array_t<uint32_t> data ) : … {}` not found")
    inits = ctor.group(1)
    if not re.search(r"m_data_end \( " + ptr + r" \+ data \. size \( \) \)", inits):
        raise Unsupported("raw_io.hh: constructor does not set m_data_end to `ptr + data.size()`")
    if not re.search(r"m_cursor \( " + ptr + r" \)", inits):
        raise Unsupported("raw_io.hh: constructor does not set m_cursor to the first word")
    return hh


# ------------------------------------------------------------------------------------------------ the translator
W32 = 4294967296
BITS = {"u8": 8, "u16": 16, "u32": 32, "size": 64}
LEAN_BITOP = {"&": "&&&", "|": "|||", "^": "^^^"}

# every `throw` site of the translated functions: (function, message up to the first non-literal) -> constructor of the model's `Err`
ERR_TABLE = {
    ("require", "Unexpected end of raw data: need "): "eof",
    ("read_event", "Invalid event header flag"): "badEventFlag",
    ("read_event", "Invalid event format version: expecting 0x3000000 but get "): "badVersion",
    ("read_event", "Invalid number of special units: expecting 10 but get "): "badEventSpec",
    ("read_event", "Invalid event size"): "badEventSize",
    ("read_sub_detector", "Invalid sub-detector flag"): "badSubDetFlag",
    ("read_ROS", "Invalid ROS flag"): "badRosFlag",
    ("read_ROS", "Invalid number of special units: expecting 3 but get "): "badRosSpec",
    ("read_ROB", "Invalid ROB flag"): "badRobFlag",
    ("read_ROB", "Invalid ROD flag"): "badRodFlag",
    ("read_ROB", "Invalid ROD trailer: more status/data words than payload"): "badTrailer",
}

LEAN_NAME = {("require", 1): "requireCpp", ("read", 0): "readCpp", ("read", 1): "readNCpp", ("skip", 0): "skip1Cpp", ("skip", 1): "skipCpp",
             ("read_ROB", 1): "readROBCpp", ("read_ROS", 1): "readROSCpp", ("read_sub_detector", 0): "readSubDetCpp",
             ("read_event", 0): "readEventCpp"}
PRIMS = [("require", 1), ("read", 0), ("read", 1), ("skip", 0), ("skip", 1)]
FRAGS = [("read_ROB", 1), ("read_ROS", 1), ("read_sub_detector", 0), ("read_event", 0)]
RET_TYPES = {"void": "unit", "uint32_t": "u32", "std :: vector < uint32_t >": "vec32"}
PARAM_TYPES = {"size_t": "size", "uint32_t": "u32", "std :: vector < uint32_t > &": "vec32", "std :: vector < uint32_t >": "vec32"}


def paren(s: str) -> str:
    if re.fullmatch(r"[\w.]+", s):
        return s
    if s.startswith("("):
        d = 0
        for k, ch in enumerate(s):
            d += ch == "("
            d -= ch == ")"
            if d == 0:
                break
        if k == len(s) - 1:
            return s
    return f"({s})"


class Var:
    def __init__(self, lean, ctype, deps=()):
        self.lean, self.ctype, self.deps = lean, ctype, set(deps)


class Ctx:
    """state of the translation of one function body"""

    def __init__(self, tr, fn):
        self.tr, self.fn = tr, fn
        self.where = fn.name
        self.env: dict[str, Var] = {}
        self.lines: list[str] = []
        self.effects: list[str] = []
        self.tagged = False
        self.header: dict[int, str] = {}
        self.closed_event = False
        self.n_rows = 0
        self.last_unit = False

    def fork(self):
        c = Ctx(self.tr, self.fn)
        c.env, c.effects, c.tagged, c.header, c.n_rows = dict(self.env), list(self.effects), self.tagged, dict(self.header), self.n_rows
        c.closed_event = self.closed_event
        return c

    def emit(self, ind, text, unit=False):
        self.lines.append("  " * ind + text)
        self.last_unit = unit

    def bind(self, name, ctype):
        """(re)binding of a C++ variable by a monadic `let`"""
        for v in self.env.values():
            if name in v.deps:
                raise Unsupported(f"{self.where}: `{name}` is reassigned while a local computed from it is still pending")
        self.env[name] = Var(_ident(name), ctype)
        return _ident(name)


class Tr:
    def __init__(self, src_cc, src_hh):
        self.hh = parse_header(src_hh)
        self.fns: dict[tuple, Fn] = {}
        for fn in split_functions(lex(src_cc)):
            if fn.key in self.fns:
                raise Unsupported(f"{fn.name} with {len(fn.params)} parameters is defined twice")
            self.fns[fn.key] = fn
        self.info = {"throw_sites": [], "narrowing": [], "notes": [], "inlined_locals": [], "functions": {}}
        self.flags_used, self.ids_used = [], []

    # -- lookup
    def fn(self, name, arity, why):
        f = self.fns.get((name, arity))
        if f is None:
            raise Unsupported(f"{why}: no definition `{CLASS}::{name}` with {arity} parameter(s) in raw_io.cc")
        if not f.qualified and name != "py_read_bes_raw":
            raise Unsupported(f"{name} is not a member of {CLASS}")
        if f.body is None:
            f.body = parse_block(f.toks, f.name)
        return f

    def member_calls(self, fn):
        """member functions called in the body of fn: {(name, arity)}"""
        out, t = set(), fn.toks
        for i, x in enumerate(t):
            if i + 1 < len(t) and t[i + 1] == "(" and re.fullmatch(r"[A-Za-z_]\w*", x) and (i == 0 or t[i - 1] not in (".", "::", "->")):
                if any(k[0] == x for k in self.fns) and x not in ("if", "while", "for", "switch"):
                    k = _match(t, i + 1, "(", ")")
                    out.add((x, len(_split_commas(t[i + 2:k]))))
        return out

    def closure(self, key, pred, skip=()):
        """does `pred` hold for fn or anything it (transitively) calls?"""
        seen, todo = set(), [key]
        while todo:
            k = todo.pop()
            if k in seen or k in skip or k not in self.fns:
                continue
            seen.add(k)
            if pred(self.fns[k]):
                return True
            todo.extend(self.member_calls(self.fns[k]))
        return False

    def needs_fuel(self, key):
        return self.closure(key, lambda f: "while" in f.toks or "for" in f.toks, skip={("fill_digi", 2), ("fill_offsets", 0)})

    def needs_sel(self, key):
        return self.closure(key, lambda f: "m_activated_sub_det_ids" in f.toks, skip={("fill_offsets", 0)})

    # -- integer expressions
    def enum(self, parts, where):
        scope, name = parts
        if scope == "RawFlag" and name in self.hh["enums"]["RawFlag"]:
            if name not in self.flags_used:
                self.flags_used.append(name)
            return f"flag_{name}"
        if scope == "SubDetID" and name in self.hh["enums"]["SubDetID"]:
            if name not in self.ids_used:
                self.ids_used.append(name)
            return f"id_{name}"
        raise Unsupported(f"{where}: unknown enumerator `{scope}::{name}`")

    def int_expr(self, e, ctx, ind=None):
        """-> (lean text, C type); C type `int` for literals and promoted small operands (always non-negative here)"""
        where = ctx.where
        k = e[0]
        if k == "num":
            if e[2] >= 2 ** 31:
                return e[1], "u32" if e[2] < 2 ** 32 else "size"
            return e[1], "int"
        if k == "name":
            if len(e[1]) == 2:
                return self.enum(e[1], where), "u32"
            n = e[1][0]
            if n not in ctx.env:
                raise Unsupported(f"{where}: `{n}` is not a local, a parameter or a known member")
            v = ctx.env[n]
            if v.ctype in ("vec32", "map"):
                raise Unsupported(f"{where}: `{n}` used as an integer")
            return v.lean, ("int" if v.ctype in ("u8", "u16") else v.ctype)
        if k == "cast":
            s, t = self.int_expr(e[2], ctx, ind)
            if e[1] != "size_t" or t not in ("size", "u32", "int", "ptrdiff"):
                raise Unsupported(f"{where}: cast `static_cast<{e[1]}>` of a {t}")
            return s, "size"
        if k == "call" and e[1][0] == "member" and e[1][2] == "size" and not e[2] and is_name(e[1][1]):
            n = e[1][1][1][0]
            if n not in ctx.env or ctx.env[n].ctype != "vec32":
                raise Unsupported(f"{where}: `{n}.size()` of something that is not a local std::vector<uint32_t>")
            return f"{ctx.env[n].lean}.length", "size"
        if k == "bin":
            op = e[1]
            if op == "-" and is_name(e[2], "m_data_end") and is_name(e[3], "m_cursor"):
                if ind is None:
                    raise Unsupported(f"{where}: `m_data_end - m_cursor` in this position")
                name = "left"
                while name in ctx.env:
                    name += "_"
                ctx.emit(ind, f"let {name} ← remaining")
                ctx.env[name] = Var(name, "ptrdiff")
                return name, "ptrdiff"
            a, ta = self.int_expr(e[2], ctx, ind)
            b, tb = self.int_expr(e[3], ctx, ind)
            if "ptrdiff" in (ta, tb):
                raise Unsupported(f"{where}: arithmetic on the pointer difference")
            wide = "size" if "size" in (ta, tb) else "u32" if "u32" in (ta, tb) else "int"
            if op == "-":
                if wide != "u32":
                    raise Unsupported(f"{where}: subtraction `{a} - {b}` is not on uint32_t (operand types {ta}, {tb})")
                return f"sub32 {paren(a)} {paren(b)}", "u32"
            if op == "+":
                if wide != "u32":
                    raise Unsupported(f"{where}: addition `{a} + {b}` is not on uint32_t (operand types {ta}, {tb})")
                return f"({paren(a)} + {paren(b)}) % {W32}", "u32"
            if op in ("&", "|", "^"):
                return f"{paren(a)} {LEAN_BITOP[op]} {paren(b)}", wide
            if op in (">>", "<<"):
                if e[3][0] != "num" or e[3][2] >= 32:
                    raise Unsupported(f"{where}: shift by `{b}` (only literal shifts below 32)")
                if op == ">>":
                    return f"{paren(a)} >>> {b}", ta
                if ta != "u32":
                    raise Unsupported(f"{where}: left shift of a {ta}")
                return f"({paren(a)} <<< {b}) % {W32}", "u32"
            raise Unsupported(f"{where}: operator `{op}` in an integer expression")
        raise Unsupported(f"{where}: integer expression of kind `{k}`")

    def cond(self, e, ctx, ind):
        where = ctx.where
        if e[0] == "bin" and e[1] in ("||", "&&"):
            return f"{self.cond(e[2], ctx, ind)} {'∨' if e[1] == '||' else '∧'} {self.cond(e[3], ctx, ind)}"
        if e[0] == "bin" and e[1] in ("==", "!="):
            l, r = e[2], e[3]

            def is_set_call(x, meth, nargs):
                return (x[0] == "call" and x[1][0] == "member" and x[1][2] == meth and is_name(x[1][1], "m_activated_sub_det_ids")
                        and len(x[2]) == nargs)
            if is_set_call(l, "find", 1) and is_set_call(r, "end", 0):
                a, t = self.int_expr(l[2][0], ctx, ind)
                if t not in ("u32", "int"):
                    raise Unsupported(f"{where}: lookup of a {t} in the std::set<uint32_t>")
                return f"¬ sel.contains {paren(a)}" if e[1] == "==" else f"sel.contains {paren(a)}"
        if e[0] == "bin" and e[1] in ("==", "!=", "<", ">", "<=", ">="):
            a, ta = self.int_expr(e[2], ctx, ind)
            b, tb = self.int_expr(e[3], ctx, ind)
            op = e[1]
            if op == "==":
                return f"{a} = {b}"
            if op == "!=":
                return f"{a} ≠ {b}"
            if op == "<":
                return f"{a} < {b}"
            if op == ">":
                return f"{b} < {a}"
            if op == "<=":
                return f"{a} ≤ {b}"
            return f"{b} ≤ {a}"
        raise Unsupported(f"{where}: condition of kind `{e[0]}`")

    # -- statements of the parser functions
    def call_target(self, e, ctx):
        """`f( args )` with f a member function of the parser -> (Fn, arg expressions), else None"""
        if e[0] == "call" and is_name(e[1]) and any(k[0] == e[1][1][0] for k in self.fns):
            name = e[1][1][0]
            return self.fn(name, len(e[2]), f"{ctx.where}: call of {name}"), e[2]
        return None

    def prim_call(self, e, ctx, ind):
        """a call of one of the cursor primitives -> (lean action, C type of its value)"""
        tgt = self.call_target(e, ctx)
        if tgt is None:
            return None
        fn, args = tgt
        if fn.key not in PRIMS:
            return None
        largs = []
        for a in args:
            s, t = self.int_expr(a, ctx, ind)
            if t not in ("u32", "int", "size"):
                raise Unsupported(f"{ctx.where}: argument `{s}` of {fn.name} has type {t}")
            largs.append(paren(s))
        return " ".join([LEAN_NAME[fn.key]] + largs), RET_TYPES[fn.ret]

    def err_of(self, ctx, msg, stmt):
        key = (ctx.fn.name, msg)
        if key not in ERR_TABLE:
            raise Unsupported(f"{ctx.where}: `throw` with the unknown message \"{msg}\" ({stmt}): no constructor of the model's `Err` is assigned to it")
        self.info["throw_sites"].append({"function": ctx.fn.name, "message": msg, "err": ERR_TABLE[key]})
        return ERR_TABLE[key]

    def count_uses(self, fn, name):
        return sum(1 for t in fn.toks if t == name) - 1

    def loop_pattern(self, ctx, init_decl, loop, ind):
        """`auto n = a - b; while ( n > 0 ) { auto r = f( args ); n -= r; }` / `{ n -= f( args ); }` -> the model's `loopLeft`"""
        where = ctx.where
        _, cty, nvar, init = init_decl
        if cty != "auto":
            raise Unsupported(f"{where}: loop counter `{nvar}` declared `{cty}` (expected `auto` of a uint32_t expression)")
        init_s, init_t = self.int_expr(init, ctx, ind)
        if init_t != "u32":
            raise Unsupported(f"{where}: loop counter `{nvar}` has type {init_t}: the loop `while ( {nvar} > 0 )` is only read on uint32_t")
        head = parse_expr(loop[1], where)
        if not (head[0] == "bin" and head[1] == ">" and is_name(head[2], nvar) and head[3][0] == "num" and head[3][2] == 0):
            raise Unsupported(f"{where}: loop head `while ( {canon(loop[1])} )` is not `while ( {nvar} > 0 )`")
        body = [classify(s[1], where) if s[0] == "simple" else s for s in loop[2]]
        call = None
        if len(body) == 1 and body[0][0] == "assign" and body[0][1] == "-=" and is_name(body[0][2], nvar):
            call = body[0][3]
        elif (len(body) == 2 and body[0][0] == "decl" and body[0][1] == "auto" and body[1][0] == "assign" and body[1][1] == "-="
              and is_name(body[1][2], nvar) and is_name(body[1][3], body[0][2]) and self.count_uses(ctx.fn, body[0][2]) == 1):
            call = body[0][3]
        if call is None:
            raise Unsupported(f"{where}: body of `while ( {nvar} > 0 )` is not `{nvar} -= f( … );` / `auto r = f( … ); {nvar} -= r;`: "
                              f"{' '.join(show(s) for s in loop[2])}")
        tgt = self.call_target(call, ctx)
        if tgt is None or tgt[0].key not in FRAGS:
            raise Unsupported(f"{where}: the loop `while ( {nvar} > 0 )` does not call a fragment reader")
        fn, args = tgt
        if fn.ret != "uint32_t":
            raise Unsupported(f"{where}: {fn.name} returns `{fn.ret}`; `{nvar} -= {fn.name}(…)` is only read for uint32_t")
        if nvar in free_names(call):
            raise Unsupported(f"{where}: the loop counter is passed to {fn.name}")
        lean_args, tag = [], None
        if self.needs_fuel(fn.key):
            lean_args.append("fuel")
        if self.needs_sel(fn.key):
            lean_args.append("sel")
        for a, (pty, pname) in zip(args, fn.params):
            if not is_name(a) or a[1][0] not in ctx.env:
                raise Unsupported(f"{where}: argument of {fn.name} in the size loop is not a plain variable")
            v = ctx.env[a[1][0]]
            if pname != "sub_det_id" or v.ctype not in ("u32", "int"):
                raise Unsupported(f"{where}: argument `{a[1][0]}` for parameter `{pname}` of {fn.name}")
            lean_args.append(v.lean)
            if a[1][0] not in [p[1] for p in ctx.fn.params]:
                tag = v.lean          # the id is determined here: tag the rows with it
        ctx.n_rows += 1
        rows = "rows" if ctx.n_rows == 1 else f"rows{ctx.n_rows}"
        body_s = " ".join([LEAN_NAME[fn.key]] + lean_args)
        ctx.emit(ind, f"let {rows} ← loopLeft {paren(body_s)} fuel {paren(init_s)}")
        callee_tagged = self.info["functions"].get(fn.name, {}).get("tagged", False)
        if tag is not None:
            if callee_tagged:
                raise Unsupported(f"{where}: rows of {fn.name} are already tagged")
            ctx.effects.append(f"{rows}.map (fun r => ({tag}, r))")
            ctx.tagged = True
        else:
            ctx.effects.append(rows)
            ctx.tagged = ctx.tagged or callee_tagged
        # after the loop the unsigned counter is 0
        ctx.env[nvar] = Var("(0 : Nat)", "u32")
        self.info["notes"].append(f"{where}: after `while ( {nvar} > 0 )` the uint32_t `{nvar}` is 0; later uses are emitted as `(0 : Nat)`")

    def effects_expr(self, ctx):
        if not ctx.effects:
            return "[]"
        return " ++ ".join(ctx.effects)

    def compile_seq(self, stmts, ctx, ind, tail):
        """emit the statements; returns True when the sequence ends in `return` / `throw` on every path"""
        where = ctx.where
        i = 0
        while i < len(stmts):
            st = stmts[i]
            nxt = stmts[i + 1] if i + 1 < len(stmts) else None
            if st[0] == "block":
                raise Unsupported(f"{where}: nested block {show(st)}")
            if st[0] in ("for", "switch", "label"):
                raise Unsupported(f"{where}: `{st[0]}` statement {show(st)[:120]}")
            if st[0] == "while":
                raise Unsupported(f"{where}: `while ( {canon(st[1])} )` is not preceded by the declaration of its counter `auto n = a - b;`")
            if st[0] == "if":
                done = self.compile_if(st, stmts[i + 1:], ctx, ind, tail)
                if done:
                    return True
                i += 1
                continue
            s = classify(st[1], where)
            text = canon(st[1]) + " ;"
            kind = s[0]
            if kind == "throw":
                ctx.emit(ind, f"fail .{self.err_of(ctx, s[1], text)}")
                if i + 1 != len(stmts):
                    raise Unsupported(f"{where}: statements after `{text}`")
                return True
            if kind == "return":
                if i + 1 != len(stmts):
                    raise Unsupported(f"{where}: statements after `{text}`")
                self.compile_return(s[1], ctx, ind, text)
                return True
            if kind == "decl":
                _, cty, name, e = s
                if name in ctx.env:
                    raise Unsupported(f"{where}: `{name}` declared twice / shadows a parameter")
                if nxt is not None and nxt[0] == "while":
                    self.loop_pattern(ctx, s, nxt, ind)
                    i += 2
                    continue
                act = self.prim_call(e, ctx, ind)
                if act is not None:
                    lean, t = act
                    if t == "unit" or cty != "auto":
                        raise Unsupported(f"{where}: `{text}`: declaration `{cty}` of the result of a {t} call")
                    ctx.emit(ind, f"let {ctx.bind(name, t)} ← {lean}")
                elif self.call_target(e, ctx) is not None:
                    raise Unsupported(f"{where}: `{text}`: call of {self.call_target(e, ctx)[0].name} outside a size loop")
                else:
                    lean, t = self.int_expr(e, ctx, ind)
                    if cty != "auto":
                        raise Unsupported(f"{where}: `{text}`: explicitly typed local in a parser function (narrowing not modelled here)")
                    if t not in ("u32",):
                        raise Unsupported(f"{where}: `{text}`: local of type {t}")
                    uses = self.count_uses(ctx.fn, name)
                    if uses == 1:
                        ctx.env[name] = Var(paren(lean), t, free_names(e))
                        self.info["inlined_locals"].append(f"{where}: {name}")
                    else:
                        ctx.emit(ind, f"let {_ident(name)} := {lean}")
                        ctx.env[name] = Var(_ident(name), t)
                i += 1
                continue
            if kind == "vecdecl":
                _, name, n = s
                if not (nxt is not None and nxt[0] == "simple" and canon(nxt[1]) == f"m_cursor += {n}"):
                    raise Unsupported(f"{where}: `{text}` is not followed by `m_cursor += {n};`")
                if n not in ctx.env or ctx.env[n].ctype not in ("size", "u32"):
                    raise Unsupported(f"{where}: `{text}`: `{n}` is not an unsigned count")
                ctx.emit(ind, f"let {ctx.bind(name, 'vec32')} ← rawReadN {ctx.env[n].lean}")
                i += 2
                continue
            if kind == "assign":
                _, op, lhs, rhs = s
                if op == "=" and is_name(lhs) and lhs[1][0] in ctx.env and ctx.env[lhs[1][0]].ctype == "u32":
                    act = self.prim_call(rhs, ctx, ind)
                    if act is None or act[1] != "u32":
                        raise Unsupported(f"{where}: `{text}`: only `x = read();` reassigns a local")
                    ctx.emit(ind, f"let {ctx.bind(lhs[1][0], 'u32')} ← {act[0]}")
                    i += 1
                    continue
                if op == "+=" and is_name(lhs, "m_cursor"):
                    a, t = self.int_expr(rhs, ctx, ind)
                    if t not in ("size", "u32", "int"):
                        raise Unsupported(f"{where}: `{text}`: cursor advanced by a {t}")
                    ctx.emit(ind, f"rawSkip {paren(a)}", unit=True)
                    i += 1
                    continue
                raise Unsupported(f"{where}: assignment `{text}`")
            if kind == "expr":
                e = s[1]
                if e[0] == "postinc" and is_name(e[1], "m_cursor"):
                    ctx.emit(ind, "rawSkip 1", unit=True)
                    i += 1
                    continue
                if e[0] == "postinc" and is_name(e[1], "m_current_entry"):
                    self.info["notes"].append(f"{where}: `m_current_entry++` has no observable effect (only skip_to_entry reads it, and arrays() never calls it)")
                    ctx.last_unit = False
                    i += 1
                    continue
                act = self.prim_call(e, ctx, ind)
                if act is not None:
                    if act[1] != "unit":
                        raise Unsupported(f"{where}: `{text}`: value of {act[0]} discarded")
                    ctx.emit(ind, act[0], unit=True)
                    i += 1
                    continue
                tgt = self.call_target(e, ctx)
                if tgt is not None and tgt[0].key == ("fill_digi", 2):
                    self.compile_fill_digi_call(tgt, ctx, text)
                    i += 1
                    continue
                if tgt is not None and tgt[0].key == ("fill_offsets", 0):
                    if ctx.fn.name != "read_event" or ctx.closed_event or not ctx.effects:
                        raise Unsupported(f"{where}: `fill_offsets();` here (it closes the event after the sub-detector loop of read_event)")
                    ctx.closed_event = True
                    ctx.last_unit = False
                    i += 1
                    continue
                hp = self.header_push(e, ctx)
                if hp is not None:
                    k, act = hp
                    name = f"hdr{k}"
                    ctx.emit(ind, f"let {name} ← {act}")
                    ctx.header[k] = name
                    i += 1
                    continue
                raise Unsupported(f"{where}: statement `{text}`")
            raise Unsupported(f"{where}: statement `{text}`")
        return False

    def header_push(self, e, ctx):
        """`m_evt_header_data[k].push_back( read() )` -> (k, action)"""
        if not (e[0] == "call" and e[1][0] == "member" and e[1][2] == "push_back" and e[1][1][0] == "index"
                and is_name(e[1][1][1], "m_evt_header_data") and len(e[2]) == 1):
            return None
        idx = e[1][1][2]
        if idx[0] != "num" or idx[2] >= self.hh["n_header"]:
            raise Unsupported(f"{ctx.where}: index of m_evt_header_data is not a literal below {self.hh['n_header']}")
        if ctx.fn.name != "read_event":
            raise Unsupported(f"{ctx.where}: m_evt_header_data written outside read_event")
        if idx[2] in ctx.header:
            raise Unsupported(f"{ctx.where}: m_evt_header_data[{idx[2]}] pushed twice per event")
        act = self.prim_call(e[2][0], ctx, None)
        if act is None or act[1] != "u32":
            raise Unsupported(f"{ctx.where}: m_evt_header_data[{idx[2]}].push_back of something that is not `read()`")
        return idx[2], act[0]

    def compile_fill_digi_call(self, tgt, ctx, text):
        fn, args = tgt
        if ctx.effects:
            raise Unsupported(f"{ctx.where}: `{text}`: second row-producing statement in one function")
        roles = {}
        for a, (pty, pname) in zip(args, fn.params):
            if not is_name(a) or a[1][0] not in ctx.env:
                raise Unsupported(f"{ctx.where}: `{text}`: argument is not a plain variable")
            v = ctx.env[a[1][0]]
            want = PARAM_TYPES.get(pty)
            if want == "vec32" and v.ctype == "vec32":
                roles["data"] = v.lean
            elif want == "u32" and v.ctype == "u32":
                if a[1][0] not in [p[1] for p in ctx.fn.params]:
                    raise Unsupported(f"{ctx.where}: `{text}`: the sub-detector id is not the parameter of {ctx.fn.name}")
                roles["det"] = v.lean
            else:
                raise Unsupported(f"{ctx.where}: `{text}`: argument `{a[1][0]}` ({v.ctype}) for parameter `{pty} {pname}`")
        if set(roles) != {"data", "det"}:
            raise Unsupported(f"{ctx.where}: `{text}`: fill_digi needs the payload and the sub-detector id")
        ctx.effects.append(f"fillDigiCpp {roles['det']} {roles['data']}")
        ctx.last_unit = False

    def compile_return(self, e, ctx, ind, text):
        fn = ctx.fn
        rt = RET_TYPES.get(fn.ret)
        if rt is None:
            raise Unsupported(f"{ctx.where}: return type `{fn.ret}`")
        if e is None:
            raise Unsupported(f"{ctx.where}: bare `return;`")
        if e[0] == "un" and e[1] == "*" and e[2][0] == "postinc" and is_name(e[2][1], "m_cursor"):
            if rt != "u32" or fn.key in FRAGS:
                raise Unsupported(f"{ctx.where}: `{text}`")
            ctx.emit(ind, "rawRead")
            return
        if not is_name(e) or e[1][0] not in ctx.env:
            raise Unsupported(f"{ctx.where}: `{text}`: only a local variable (or `*( m_cursor++ )`) is returned")
        v = ctx.env[e[1][0]]
        if v.ctype != rt:
            raise Unsupported(f"{ctx.where}: `{text}`: a {v.ctype} returned from a function returning `{fn.ret}`")
        if fn.key in FRAGS:
            ctx.emit(ind, f"pure ({self.effects_expr(ctx)}, {v.lean})")
        else:
            ctx.emit(ind, f"pure {v.lean}")

    def compile_if(self, st, rest, ctx, ind, tail):
        """returns True when everything after the `if` was emitted inside its `else` branch"""
        where = ctx.where
        _, head, then, els = st
        sthen = [classify(s[1], where) if s[0] == "simple" else s for s in then]
        # (1) the erase if/else
        er_t = self.erase_of(sthen, ctx) if len(sthen) == 1 else None
        if els is not None:
            sels = [classify(s[1], where) if s[0] == "simple" else s for s in els]
            er_e = self.erase_of(sels, ctx) if len(sels) == 1 else None
            if er_t is None or er_e is None or er_t[0] != er_e[0]:
                raise Unsupported(f"{where}: `if … else` is only read when both branches erase a range of the same vector: {show(st)[:200]}")
            c = self.cond(parse_expr(head, where), ctx, ind)
            v = er_t[0]
            old = ctx.env[v].lean
            ctx.emit(ind, f"let {ctx.bind(v, 'vec32')} ← liftErase (if {c} then {er_t[1].format(v=old)} else {er_e[1].format(v=old)})")
            return False
        # (2) guard: `if ( c ) { throw … }`
        if len(sthen) == 1 and sthen[0][0] == "throw":
            c = self.cond(parse_expr(head, where), ctx, ind)
            ctx.emit(ind, f"if {c} then fail .{self.err_of(ctx, sthen[0][1], show(st))} else")
            return False
        # (3) early return: `if ( c ) { …; return x; }`
        if sthen and sthen[-1][0] == "return":
            if not tail:
                raise Unsupported(f"{where}: early `return` inside a nested block")
            c = self.cond(parse_expr(head, where), ctx, ind)
            ctx.emit(ind, f"if {c} then do")
            sub = ctx.fork()
            sub.lines = ctx.lines
            self.compile_seq(then, sub, ind + 1, False)
            ctx.emit(ind, "else do")
            ended = self.compile_seq(rest, ctx, ind + 1, True)
            if not ended:
                self.finish(ctx, ind + 1)
            return True
        # (4) a block that reassigns one local as its last statement
        if er_t is not None:
            raise Unsupported(f"{where}: a conditional erase without `else`: {show(st)[:200]}")
        assigned = [s[2][1][0] for s in sthen if s[0] == "assign" and s[1] == "=" and is_name(s[2])]
        if len(assigned) == 1 and sthen[-1][0] == "assign" and all(s[0] in ("assign", "expr") for s in sthen):
            v = assigned[0]
            if v not in ctx.env or ctx.env[v].ctype != "u32":
                raise Unsupported(f"{where}: `{v}` assigned in a conditional block is not a uint32_t local")
            c = self.cond(parse_expr(head, where), ctx, ind)
            old = ctx.env[v].lean
            sub = ctx.fork()
            sub.lines = []
            self.compile_seq(then, sub, 0, False)
            if sub.effects != ctx.effects or sub.header != ctx.header:
                raise Unsupported(f"{where}: conditional block with effects on the output: {show(st)[:200]}")
            inner = "; ".join(l.strip() for l in sub.lines)
            ctx.emit(ind, f"let {ctx.bind(v, 'u32')} ← (if {c} then do {inner}; pure {sub.env[v].lean} else pure {old})")
            return False
        raise Unsupported(f"{where}: conditional statement {show(st)[:200]}")

    def erase_of(self, sts, ctx):
        """`v.erase( v.begin(), v.begin() + n )` -> (v, "eraseFront {v} n"); `v.erase( v.begin() + n, v.end() )` -> (v, "eraseBack {v} n")"""
        s = sts[0]
        if s[0] != "expr":
            return None
        e = s[1]
        if not (e[0] == "call" and e[1][0] == "member" and e[1][2] == "erase" and is_name(e[1][1]) and len(e[2]) == 2):
            return None
        v = e[1][1][1][0]
        if v not in ctx.env or ctx.env[v].ctype != "vec32":
            raise Unsupported(f"{ctx.where}: erase on `{v}`, which is not a local std::vector<uint32_t>")

        def it(x):
            """iterator expression -> ('begin', None) | ('begin', n) | ('end', None)"""
            if x[0] == "call" and x[1][0] == "member" and is_name(x[1][1], v) and not x[2] and x[1][2] in ("begin", "end"):
                return (x[1][2], None)
            if x[0] == "bin" and x[1] == "+" and it(x[2]) == ("begin", None):
                n, t = self.int_expr(x[3], ctx)
                if t not in ("u32", "size"):
                    raise Unsupported(f"{ctx.where}: iterator offset `{n}` of type {t}")
                return ("begin", n)
            raise Unsupported(f"{ctx.where}: iterator expression in `{v}.erase( … )`")
        a, b = it(e[2][0]), it(e[2][1])
        if a == ("begin", None) and b[0] == "begin" and b[1] is not None:
            return v, "eraseFront {v} " + paren(b[1])
        if a[0] == "begin" and a[1] is not None and b == ("end", None):
            return v, "eraseBack {v} " + paren(a[1])
        raise Unsupported(f"{ctx.where}: `{v}.erase( … )` with a range that is neither a prefix nor a suffix")

    def finish(self, ctx, ind):
        """the end of a function body that was reached without `return`"""
        fn = ctx.fn
        if fn.ret != "void":
            raise Unsupported(f"{ctx.where}: control reaches the end of a function returning `{fn.ret}`")
        if fn.key == ("read_event", 0):
            n = self.hh["n_header"]
            missing = [k for k in range(n) if k not in ctx.header]
            if missing:
                raise Unsupported(f"read_event: m_evt_header_data{missing} never filled")
            if not ctx.closed_event:
                raise Unsupported("read_event: `fill_offsets();` missing after the sub-detector loop (the event's rows would be attributed to the next event)")
            if not ctx.tagged:
                raise Unsupported("read_event: rows without a sub-detector id")
            ctx.emit(ind, "pure { header := [" + ", ".join(ctx.header[k] for k in range(n)) + "], rows := " + self.effects_expr(ctx) + " }")
            return
        if ctx.effects or ctx.header:
            raise Unsupported(f"{ctx.where}: void function with output effects")
        if not ctx.last_unit:
            ctx.emit(ind, "pure ()")

    def translate_fn(self, key):
        fn = self.fn(key[0], key[1], "translation")
        ctx = Ctx(self, fn)
        params = []
        if self.needs_fuel(key):
            params.append("(fuel : Nat)")
        if self.needs_sel(key):
            params.append("(sel : List Nat)")
        for pty, pname in fn.params:
            t = PARAM_TYPES.get(pty)
            if t not in ("size", "u32"):
                raise Unsupported(f"{fn.name}: parameter `{pty} {pname}`")
            ctx.env[pname] = Var(_ident(pname), t)
            params.append(f"({_ident(pname)} : Nat)")
        if key in PRIMS and (self.needs_fuel(key) or self.needs_sel(key)):
            raise Unsupported(f"{fn.name}: a cursor primitive with a loop / a use of the selection")
        ended = self.compile_seq(fn.body, ctx, 1, True)
        if not ended:
            self.finish(ctx, 1)
        if key in PRIMS:
            rty = {"unit": "Unit", "u32": "Nat", "vec32": "(List Nat)"}[RET_TYPES[fn.ret]]
        elif key == ("read_event", 0):
            rty = "EventRec"
        else:
            if fn.ret != "uint32_t":
                raise Unsupported(f"{fn.name}: returns `{fn.ret}`")
            rty = "(List (Nat × Row) × Nat)" if ctx.tagged else "(List Row × Nat)"
        self.info["functions"][fn.name if key not in PRIMS else f"{fn.name}/{key[1]}"] = {
            "lean": LEAN_NAME[key], "tagged": ctx.tagged, "fuel": self.needs_fuel(key), "sel": self.needs_sel(key)}
        sig = f"def {LEAN_NAME[key]} {' '.join(params)}".rstrip() + f" : P {rty} := do"
        doc = f"/-- `{fn.ret.replace(' ', '')} {CLASS}::{fn.name}( {', '.join(p[0].replace(' ', '') + ' ' + p[1] for p in fn.params)} )` -/"
        return doc + "\n" + sig + "\n" + "\n".join(ctx.lines) + "\n"

    # -- fill_digi
    def field_ctx(self, fn, word_var):
        ctx = Ctx(self, fn)
        ctx.env[word_var] = Var("w", "u32")
        return ctx

    def narrow(self, lean, from_bits, to_bits, site):
        if to_bits < from_bits:
            self.info["narrowing"].append(f"{site}: {from_bits} -> {to_bits} bits, emitted as `% {2 ** to_bits}`")
            return f"{paren(lean)} % {2 ** to_bits}"
        return lean

    def word_locals(self, body, ctx, det, allowed_after):
        """the leading `uintN_t x = expr;` declarations of a per-word loop body; returns the remaining statements"""
        where = ctx.where
        k = 0
        while k < len(body) and body[k][0] == "simple":
            s = classify(body[k][1], where)
            if s[0] != "decl":
                break
            _, cty, name, e = s
            if name in ctx.env:
                raise Unsupported(f"{where}: `{name}` declared twice")
            lean, t = self.int_expr(e, ctx)
            bits_from = 32 if t in ("u32", "int") else BITS[t]
            ty = INT_TYPES[cty] or ("u32" if t == "int" else t)
            if ty not in ("u8", "u16", "u32"):
                raise Unsupported(f"{where}: local `{cty} {name}`")
            ctx.env[name] = Var(paren(self.narrow(lean, bits_from, BITS[ty], f"fill_digi({det}) `{cty} {name} = …`")), ty)
            k += 1
        rest = body[k:]
        for st in rest:
            if st[0] != "simple":
                raise Unsupported(f"{where}: {show(st)[:160]} inside the per-word loop")
        return [classify(st[1], where) for st in rest]

    def push_of(self, s, where):
        """`C.push_back( e )` -> (C, e)"""
        if s[0] == "expr" and s[1][0] == "call" and s[1][1][0] == "member" and s[1][1][2] == "push_back" and is_name(s[1][1][1]) and len(s[1][2]) == 1:
            return s[1][1][1][1][0], s[1][2][0]
        raise Unsupported(f"{where}: expected `column.push_back( value );`")

    def for_head(self, st, where):
        if st[0] != "for":
            raise Unsupported(f"{where}: expected a range-`for`, found {show(st)[:120]}")
        c = canon(st[1])
        m = re.fullmatch(r"auto ([A-Za-z_]\w*) : ([A-Za-z_]\w*)", c)
        if m:
            return ("word", m.group(1), m.group(2))
        m = re.fullmatch(r"auto & \[ ([A-Za-z_]\w*) , ([A-Za-z_]\w*) \] : ([A-Za-z_]\w*)", c)
        if m:
            return ("entry", m.group(1), m.group(2), m.group(3))
        raise Unsupported(f"{where}: loop head `for ( {c} )` (only `auto w : data` and `auto& [key, value] : map` are read)")

    def translate_fill_digi(self):
        fn = self.fn("fill_digi", 2, "fill_digi")
        if fn.ret != "void":
            raise Unsupported("fill_digi does not return void")
        roles = {}
        for pty, pname in fn.params:
            t = PARAM_TYPES.get(pty)
            if t == "vec32":
                roles["data"] = pname
            elif t == "u32":
                roles["det"] = pname
            else:
                raise Unsupported(f"fill_digi: parameter `{pty} {pname}`")
        if set(roles) != {"data", "det"}:
            raise Unsupported("fill_digi: expected one std::vector<uint32_t> and one uint32_t parameter")
        data, detp = roles["data"], roles["det"]
        defs, branches, seen = [], [], []
        digi_info = {}
        for st in fn.body:
            where = "fill_digi"
            if st[0] != "if" or st[3] is not None:
                raise Unsupported(f"fill_digi: top-level statement {show(st)[:160]} is not `if ( {detp} == SubDetID::X ) {{ …; return; }}`")
            m = re.fullmatch(re.escape(detp) + r" == SubDetID :: (\w+)", canon(st[1]))
            if not m or m.group(1) not in self.hh["enums"]["SubDetID"]:
                raise Unsupported(f"fill_digi: block head `if ( {canon(st[1])} )`")
            det = m.group(1)
            if det in seen:
                raise Unsupported(f"fill_digi: two blocks for SubDetID::{det}")
            seen.append(det)
            if det not in self.ids_used:
                self.ids_used.append(det)
            where = f"fill_digi({det})"
            body = st[2]
            if not body or body[-1][0] != "simple" or canon(body[-1][1]) != "return":
                raise Unsupported(f"{where}: the block does not end in `return;` (a later block could add rows for the same payload)")
            body = body[:-1]
            member = f"m_{det.lower()}_data"
            pre = det.lower()
            ctx = Ctx(self, fn)
            ctx.where = where
            # RAW: the words themselves
            if len(body) == 1 and body[0][0] == "simple":
                want = f"{member} . insert ( {member} . end ( ) , {data} . begin ( ) , {data} . end ( ) )"
                if canon(body[0][1]) != want:
                    raise Unsupported(f"{where}: statement `{canon(body[0][1])} ;` (expected `{want} ;`)")
                if self.hh["vectors"].get(member) != "u32":
                    raise Unsupported(f"{where}: {member} is not a std::vector<uint32_t>")
                branches.append((det, f"{_ident(data)}.map (fun w => [w])"))
                digi_info[det] = {"pattern": "raw words", "member": member}
                continue
            kinds = [b[0] if b[0] != "simple" else classify(b[1], where)[0] for b in body]
            if kinds == ["bind", "for"]:
                # PER-WORD
                _, cols, target = classify(body[0][1], where)
                if target != member or member not in self.hh["tuples"] or len(cols) != len(self.hh["tuples"][member]):
                    raise Unsupported(f"{where}: structured binding of `{target}` (expected all columns of {member})")
                head = self.for_head(body[1], where)
                if head[0] != "word" or head[2] != data:
                    raise Unsupported(f"{where}: the loop does not run over `{data}`")
                ctx.env[head[1]] = Var("w", "u32")
                rest = self.word_locals(body[1][2], ctx, det, None)
                pushed = {}
                for s in rest:
                    col, val = self.push_of(s, where)
                    if col not in cols or col in pushed:
                        raise Unsupported(f"{where}: `{col}.push_back` (unknown column, or two pushes per word: the columns would lose alignment)")
                    if not is_name(val) or val[1][0] not in ctx.env or val[1][0] == head[1]:
                        raise Unsupported(f"{where}: `{col}.push_back( … )` of something that is not a field local")
                    pushed[col] = ctx.env[val[1][0]]
                if set(pushed) != set(cols):
                    raise Unsupported(f"{where}: columns {sorted(set(cols) - set(pushed))} get no value per word")
                row = []
                for j, col in enumerate(cols):
                    v, ety = pushed[col], self.hh["tuples"][member][j]
                    lean = self.narrow(v.lean, BITS[v.ctype], BITS[ety], f"{where} `{col}.push_back` into a {ety} column")
                    defs.append(f"/-- `fill_digi`, SubDetID::{det}: column {j} (`{col}`) of `{member}`, per word -/\ndef {pre}_col{j} (w : Nat) : Nat := {lean}")
                    row.append(f"{pre}_col{j} w")
                branches.append((det, f"{_ident(data)}.map (fun w => [{', '.join(row)}])"))
                digi_info[det] = {"pattern": "per word", "member": member, "columns": cols}
                continue
            if kinds == ["mapdecl", "for", "bind", "for"]:
                # MAP-MERGE
                mapname = classify(body[0][1], where)[1]
                head = self.for_head(body[1], where)
                if head[0] != "word" or head[2] != data:
                    raise Unsupported(f"{where}: the merge loop does not run over `{data}`")
                ctx.env[head[1]] = Var("w", "u32")
                rest = self.word_locals(body[1][2], ctx, det, None)
                store = orr = None
                for s in rest:
                    ok = (s[0] == "assign" and s[2][0] == "index" and s[2][1][0] == "index" and is_name(s[2][1][1], mapname)
                          and is_name(s[2][1][2]) and is_name(s[3]))
                    if not ok:
                        raise Unsupported(f"{where}: statement in the merge loop is not `{mapname}[id][slot] = value;` / `{mapname}[id][2] |= overflow;`")
                    key, slot, val, op = s[2][1][2][1][0], s[2][2], s[3][1][0], s[1]
                    if slot[0] == "num" and slot[2] == 2:
                        if op != "|=":
                            raise Unsupported(f"{where}: `{mapname}[{key}][2] {op} {val};` - the overflow slot must be accumulated with `|=`")
                        if orr is not None:
                            raise Unsupported(f"{where}: two updates of the overflow slot")
                        orr = (key, val)
                    elif is_name(slot):
                        if op != "=":
                            raise Unsupported(f"{where}: `{mapname}[{key}][{slot[1][0]}] {op} {val};` - the t/q slot must be assigned with `=`")
                        if store is not None:
                            raise Unsupported(f"{where}: two stores into the t/q slots")
                        store = (key, slot[1][0], val)
                    else:
                        raise Unsupported(f"{where}: slot index of `{mapname}[{key}][…]`")
                if store is None or orr is None or store[0] != orr[0]:
                    raise Unsupported(f"{where}: the merge loop needs one `{mapname}[id][slot] = value;` and one `{mapname}[id][2] |= overflow;` on the same id")
                parts = {"key": store[0], "slot": store[1], "value": store[2], "ovf": orr[1]}
                for role, name in parts.items():
                    if name not in ctx.env or name == head[1] or ctx.env[name].ctype not in ("u8", "u16"):
                        raise Unsupported(f"{where}: `{name}` ({role}) is not a uint16_t field local (the map key / array element are uint16_t)")
                    defs.append(f"/-- `fill_digi`, SubDetID::{det}: the {role} of one word (`{name}`) -/\ndef {pre}_{role} (w : Nat) : Nat := {ctx.env[name].lean}")
                _, cols, target = classify(body[2][1], where)
                if target != member or member not in self.hh["tuples"] or len(cols) != len(self.hh["tuples"][member]):
                    raise Unsupported(f"{where}: structured binding of `{target}` (expected all columns of {member})")
                it = self.for_head(body[3], where)
                if it[0] != "entry" or it[3] != mapname:
                    raise Unsupported(f"{where}: the second loop does not iterate `{mapname}` as `auto& [key, value]`")
                comp = {}
                for b in body[3][2]:
                    if b[0] != "simple":
                        raise Unsupported(f"{where}: {show(b)[:120]} in the iteration over `{mapname}`")
                    col, val = self.push_of(classify(b[1], where), where)
                    if col not in cols or col in comp:
                        raise Unsupported(f"{where}: `{col}.push_back` (unknown column, or two pushes per entry)")
                    if is_name(val, it[1]):
                        comp[col] = "id"
                    elif val[0] == "index" and is_name(val[1], it[2]) and val[2][0] == "num" and val[2][2] in (0, 1, 2):
                        comp[col] = ["t", "q", "o"][val[2][2]]
                    else:
                        raise Unsupported(f"{where}: `{col}.push_back( … )` is neither the key nor `{it[2]}[0|1|2]`")
                if set(comp) != set(cols):
                    raise Unsupported(f"{where}: columns {sorted(set(cols) - set(comp))} get no value per entry")
                row = [self.narrow(comp[col], 16, BITS[self.hh["tuples"][member][j]], f"{where} `{col}.push_back` into a {self.hh['tuples'][member][j]} column")
                       for j, col in enumerate(cols)]
                branches.append((det, f"({_ident(data)}.foldl (fun m w => mergeWord m ({pre}_key w) ({pre}_slot w) ({pre}_value w) ({pre}_ovf w)) []).map\n"
                                      f"      (fun (id, t, q, o) => [{', '.join(row)}])"))
                digi_info[det] = {"pattern": "map merge", "member": member, "columns": cols, "roles": parts}
                continue
            raise Unsupported(f"{where}: the block is none of the recognised shapes (std::map merge + ordered iteration / one push per column per word / "
                              f"insert of the raw words); statement kinds {kinds}")
        lines = [f"def fillDigiCpp ({_ident(detp)} : Nat) ({_ident(data)} : List Nat) : List Row :="]
        for n, (det, body) in enumerate(branches):
            lines.append(f"  {'if' if n == 0 else 'else if'} {_ident(detp)} = id_{det} then\n    {body}")
        lines.append("  else []")
        self.info["fill_digi"] = digi_info
        doc = ("/-- `fill_digi`: the rows one ROB payload contributes; one branch per `if ( sub_det_id == SubDetID::X ) { …; return; }` block, in source order. "
               "`std::map<uint16_t, std::array<uint16_t, 3>>` (value-initialised entries, iteration in key order) is the model's `upd` / `mergeWord`. -/")
        return "\n\n".join(defs) + "\n\n" + doc + "\n" + "\n".join(lines) + "\n"

    # -- fill_offsets, arrays, py_read_bes_raw
    def check_fill_offsets(self):
        fn = self.fn("fill_offsets", 0, "fill_offsets")
        c = canon(fn.toks)
        m = re.fullmatch(r"for \( auto sub_det_id : m_activated_sub_det_ids \) \{ switch \( sub_det_id \) \{ (.*) \} \}", c)
        if not m:
            raise Unsupported("fill_offsets: not `for ( auto sub_det_id : m_activated_sub_det_ids ) { switch ( sub_det_id ) { … } }`")
        rest, seen = m.group(1), []
        while rest:
            mm = re.match(r"case SubDetID :: (\w+) : (m_\w+_offsets) \. push_back \( (.*?) \) ; break ; ?", rest)
            if mm:
                det, off, size = mm.group(1), mm.group(2), mm.group(3)
                low = det.lower()
                member = f"m_{low}_data"
                want = f"std :: get < 0 > ( {member} ) . size ( )" if member in self.hh["tuples"] else f"{member} . size ( )"
                if off != f"m_{low}_offsets" or size != want:
                    raise Unsupported(f"fill_offsets: case SubDetID::{det} pushes `{size}` into {off} (expected `{want}` into m_{low}_offsets)")
                seen.append(det)
                rest = rest[mm.end():]
                continue
            mm = re.match(r"default : throw std :: runtime_error \( [^;]* \) ; ?", rest)
            if mm:
                rest = rest[mm.end():]
                continue
            raise Unsupported(f"fill_offsets: `{rest[:100]}`")
        return seen

    def translate_arrays(self):
        fn = self.fn("arrays", 1, "arrays")
        if fn.params != [("std :: vector < std :: string >", "sub_detectors")]:
            raise Unsupported(f"arrays: parameters {fn.params}")
        body = fn.body
        want = [
            "for ( auto & sub_det_name : sub_detectors ) { if ( sub_det_names_to_ids . find ( sub_det_name ) == sub_det_names_to_ids . end ( ) ) "
            "{ throw std :: runtime_error ( \"Invalid sub-detector name: \" + sub_det_name ) ; } "
            "auto sub_det_id = sub_det_names_to_ids [ sub_det_name ] ; m_activated_sub_det_ids . insert ( sub_det_id ) ; }",
            "py :: gil_scoped_release release ;",
            "fill_offsets ( ) ;",
            "while ( m_cursor < m_data_end ) { read_event ( ) ; }",
            "py :: gil_scoped_acquire acquire ;",
        ]
        what = ["the selection loop (names -> ids into m_activated_sub_det_ids)", "py::gil_scoped_release", "the first `fill_offsets();` (offset 0)",
                "the event loop `while ( m_cursor < m_data_end ) { read_event(); }`", "py::gil_scoped_acquire"]
        for k, (w, d) in enumerate(zip(want, what)):
            got = show(body[k]) if k < len(body) else "<nothing>"
            if got != w:
                raise Unsupported(f"arrays: statement {k + 1} is `{got}`; expected {d}: `{w}`"
                                  + (" - any other loop condition would dereference the cursor at or past the end, or stop early" if k == 3 else ""))
        self.translate_output(body[5:])

    def translate_output(self, tail):
        """the part of arrays() after the event loop: which member vector is returned under which key, with which dtype"""
        W = "arrays (conversion)"
        DT = {"uint8_t": "u8", "uint16_t": "u16", "uint32_t": "u32"}
        texts = [show(st) for st in tail]
        want_head = [
            "py :: dict res ;",
            "py :: dict evt_header ;",
            "for ( size_t i = 0 ; i < m_evt_header_data . size ( ) ; i ++ ) { "
            "auto np_data = py :: array_t < uint32_t > ( m_evt_header_data [ i ] . size ( ) , m_evt_header_data [ i ] . data ( ) ) ; "
            "evt_header [ evt_header_item_names [ i ] . c_str ( ) ] = np_data ; }",
            "res [ \"evt_header\" ] = evt_header ;",
        ]
        for k, w in enumerate(want_head):
            got = texts[k] if k < len(texts) else "<nothing>"
            if got != w:
                raise Unsupported(f"{W}: statement `{got[:200]}`; expected `{w}` (event-header dict: key i = evt_header_item_names[i], value = m_evt_header_data[i] as uint32)")
        if len(tail) != 6 or texts[5] != "return res ;":
            raise Unsupported(f"{W}: expected the sub-detector loop followed by `return res;`, found {texts[4:]}")
        loop = tail[4]
        if not (loop[0] == "for" and canon(loop[1]) == "auto & sub_det_id : m_activated_sub_det_ids" and len(loop[2]) == 1
                and loop[2][0][0] == "switch" and canon(loop[2][0][1]) == "sub_det_id"):
            raise Unsupported(f"{W}: `{texts[4][:160]}` is not `for ( auto& sub_det_id : m_activated_sub_det_ids ) {{ switch ( sub_det_id ) {{ … }} }}`")
        items = loop[2][0][2]
        if len(items) % 2:
            raise Unsupported(f"{W}: the switch is not a sequence of `case SubDetID::X: {{ … }}`")
        arr = r"py :: array_t < (uint8_t|uint16_t|uint32_t) > \( (\w+) \. size \( \) , (\w+) \. data \( \) \)"
        arrdecl = r"py :: array_t < (uint8_t|uint16_t|uint32_t) > (\w+) \( (\w+) \. size \( \) , (\w+) \. data \( \) \)"

        def same(a, b, what):
            if a != b:
                raise Unsupported(f"{W}: {what}: `.size()` of `{a}` with `.data()` of `{b}` (length and buffer of two different vectors)")
            return a
        cols_out, raws_out, offs_out, seen = [], [], [], []
        name_of = {v: k for k, v in self.hh["names"].items()}
        for k in range(0, len(items), 2):
            lab, blk = items[k], items[k + 1]
            m = re.fullmatch(r"case SubDetID :: (\w+)", canon(lab[1])) if lab[0] == "label" else None
            if not m or blk[0] != "block":
                raise Unsupported(f"{W}: `{show(lab)} {show(blk)[:80]}` is not `case SubDetID::X: {{ … }}`")
            det = m.group(1)
            if det in seen or det not in name_of:
                raise Unsupported(f"{W}: case SubDetID::{det} twice / not a selectable sub-detector")
            seen.append(det)
            where = f"{W}, case {det}"
            low, key = det.lower(), name_of[det]
            member, offv = f"m_{low}_data", f"m_{low}_offsets"
            sts = [show(x)[:-2] for x in blk[1]]
            if not sts or sts[-1] != "break":
                raise Unsupported(f"{where}: the case does not end in `break;` (it would fall through)")
            sts = sts[:-1]
            if self.hh["vectors"].get(offv) != "u32":
                raise Unsupported(f"{where}: raw_io.hh has no `std::vector<uint32_t> {offv};`")

            def offsets_decl(text):
                mm = re.fullmatch(arrdecl, text)
                if not mm:
                    raise Unsupported(f"{where}: `{text} ;` is not the offsets array `py::array_t<uint32_t> o( {offv}.size(), {offv}.data() )`")
                v = same(mm.group(3), mm.group(4), "offsets array")
                if v != offv or mm.group(1) != "uint32_t":
                    raise Unsupported(f"{where}: offsets array built from `{v}` as {mm.group(1)} (expected `{offv}`, the vector fill_offsets() fills for {det}, as uint32_t)")
                return mm.group(2)
            if member in self.hh["tuples"]:
                elems = self.hh["tuples"][member]
                if len(sts) < 4:
                    raise Unsupported(f"{where}: too few statements")
                b = BIND_DECL.fullmatch(sts[0])
                if not b or b.group(2) != member or len(b.group(1).split(",")) != len(elems):
                    raise Unsupported(f"{where}: `{sts[0]} ;` is not the structured binding of all columns of {member}")
                bound = [x.strip() for x in b.group(1).split(",")]
                if len(set(bound)) != len(bound):
                    raise Unsupported(f"{where}: structured binding with a repeated name")
                d = re.fullmatch(r"py :: dict (\w+)", sts[1])
                if not d:
                    raise Unsupported(f"{where}: `{sts[1]} ;` is not `py::dict name;`")
                dname, wiring, used = d.group(1), [], {}
                for text in sts[2:-2]:
                    mm = re.fullmatch(re.escape(dname) + r" \[ \"(\w+)\" \] = " + arr, text)
                    if not mm:
                        raise Unsupported(f"{where}: `{text} ;` is not `{dname}[\"key\"] = py::array_t<T>( v.size(), v.data() );`")
                    dkey, dt = mm.group(1), DT[mm.group(2)]
                    v = same(mm.group(3), mm.group(4), f"key \"{dkey}\"")
                    if v not in bound:
                        raise Unsupported(f"{where}: key \"{dkey}\" is built from `{v}`, which is not one of the vectors bound from {member}")
                    if v in used:
                        raise Unsupported(f"{where}: `{v}` is returned under two keys (\"{used[v]}\" and \"{dkey}\")")
                    if dkey in used.values():
                        raise Unsupported(f"{where}: key \"{dkey}\" assigned twice")
                    used[v] = dkey
                    pos = bound.index(v)
                    if dt != elems[pos]:
                        raise Unsupported(f"{where}: key \"{dkey}\": `py::array_t<{mm.group(2)}>` over `{v}`, whose element type in raw_io.hh (position {pos} of {member}) is {elems[pos]}"
                                          " (the buffer would be reinterpreted)")
                    wiring.append((dkey, pos, BITS[dt]))
                oname = offsets_decl(sts[-2])
                want = f"res [ \"{key}\" ] = py :: make_tuple ( {oname} , {dname} )"
                if sts[-1] != want:
                    raise Unsupported(f"{where}: `{sts[-1]} ;` (expected `{want} ;`: result key = the name sub_det_names_to_ids maps to {det}, value = (offsets, columns))")
                cols_out.append((key, wiring))
            else:
                if self.hh["vectors"].get(member) != "u32" or len(sts) != 3:
                    raise Unsupported(f"{where}: expected data array, offsets array and `res[\"{key}\"] = py::make_tuple( offsets, data );` over std::vector<uint32_t> {member}")
                mm = re.fullmatch(arrdecl, sts[0])
                if not mm:
                    raise Unsupported(f"{where}: `{sts[0]} ;` is not `py::array_t<uint32_t> d( {member}.size(), {member}.data() )`")
                v = same(mm.group(3), mm.group(4), "data array")
                if v != member or mm.group(1) != "uint32_t":
                    raise Unsupported(f"{where}: data array built from `{v}` as {mm.group(1)} (expected `{member}` as uint32_t)")
                oname = offsets_decl(sts[1])
                want = f"res [ \"{key}\" ] = py :: make_tuple ( {oname} , {mm.group(2)} )"
                if sts[2] != want:
                    raise Unsupported(f"{where}: `{sts[2]} ;` (expected `{want} ;`)")
                raws_out.append((key, 32))
            offs_out.append((key, offv))
        missing = sorted(set(name_of) - set(seen))
        if missing:
            raise Unsupported(f"{W}: no case for the selectable sub-detector(s) {missing}: selected, decoded, but never returned")
        self.info["output"] = {"header_keys": self.hh["header_names"], "columns": cols_out, "raw": raws_out, "offsets": offs_out}
        return cols_out, raws_out, offs_out

    def translate_entry(self):
        fn = self.fns.get(("py_read_bes_raw", 2))
        if fn is None or fn.qualified:
            raise Unsupported("free function py_read_bes_raw( data, sub_detectors ) not found")
        c = canon(fn.toks)
        m = re.fullmatch(r"if \( sub_detectors \. size \( \) == 0 \) sub_detectors = \{ (.*?) \} ; RawBinaryParser parser \( data \) ; "
                         r"return parser \. arrays \( sub_detectors \) ;", c)
        if not m or fn.params != [("py :: array_t < uint32_t >", "data"), ("std :: vector < std :: string >", "sub_detectors")]:
            raise Unsupported(f"py_read_bes_raw: body `{c[:200]}` is not `if ( sub_detectors.size() == 0 ) sub_detectors = {{ … }}; "
                              "RawBinaryParser parser( data ); return parser.arrays( sub_detectors );`")
        names = []
        for part in m.group(1).split(" , "):
            mm = re.fullmatch(r"\"(\w+)\"", part.strip())
            if not mm or mm.group(1) not in self.hh["names"]:
                raise Unsupported(f"py_read_bes_raw: default sub-detector `{part}` is not a key of sub_det_names_to_ids")
            names.append(mm.group(1))
        ids = [self.hh["names"][n] for n in names]
        for d in ids:
            if d not in self.ids_used:
                self.ids_used.append(d)
        self.info["default_selection"] = names
        return ids


HEADER = """-- GENERATED by tools/translate/cppraw.py from src/pybes3/besio/cpp/raw_io.cc and raw_io.hh. Do not edit.
import Pybes3Verif.Model.RawParser
/-!
The C++ raw-data parser, re-emitted from its source text statement by statement over the primitives of the parser monad of
`Model/RawParser.lean`.  `Props/RawCppTie.lean` proves every definition here equal to the hand-written model.
-/
set_option linter.unusedVariables false

namespace Pybes3Verif.Gen.RawCpp
open Pybes3Verif.Raw

"""


def generate(src_cc: str, src_hh: str) -> tuple[str, dict]:
    tr = Tr(src_cc, src_hh)
    L = [HEADER]
    prims = [tr.translate_fn(k) for k in PRIMS]
    digi = tr.translate_fill_digi()
    frags = [tr.translate_fn(k) for k in FRAGS]
    offs = tr.check_fill_offsets()
    tr.translate_arrays()
    default_ids = tr.translate_entry()
    # every function arrays() reaches has been translated; everything else must be unreachable from it
    reach, todo = set(), [("arrays", 1)]
    while todo:
        k = todo.pop()
        if k in reach or k not in tr.fns:
            continue
        reach.add(k)
        todo.extend(tr.member_calls(tr.fns[k]))
    done = set(PRIMS) | set(FRAGS) | {("fill_digi", 2), ("fill_offsets", 0), ("arrays", 1)}
    if reach - done:
        raise Unsupported(f"arrays() reaches untranslated member functions: {sorted(reach - done)}")
    tr.info["not_reachable_from_arrays"] = sorted(f"{k[0]}/{k[1]}" for k in tr.fns if k not in reach and k != ("py_read_bes_raw", 2))
    sel_ids = set(tr.hh["names"].values())
    if set(offs) != sel_ids:
        raise Unsupported(f"fill_offsets handles {sorted(offs)} but the selectable sub-detectors are {sorted(sel_ids)}")
    if set(tr.info["fill_digi"]) != sel_ids:
        raise Unsupported(f"fill_digi handles {sorted(tr.info['fill_digi'])} but the selectable sub-detectors are {sorted(sel_ids)}")

    flags, ids = tr.hh["enums"]["RawFlag"], tr.hh["enums"]["SubDetID"]
    L.append("/-- `enum RawFlag` -/\n" + "\n".join(f"def flag_{k} : Nat := 0x{v:08X}" for k, v in flags.items()) + "\n\n")
    L.append("/-- `enum SubDetID` -/\n" + "\n".join(f"def id_{k} : Nat := 0x{v:X}" for k, v in ids.items()) + "\n\n")
    L.append("/-- `m_data_end - m_cursor`: the number of words left (the constructor puts the cursor on the first word and the end one past the last) -/\n"
             "def remaining : P Nat := ⟨fun ws => .ok ws.length ws⟩\n\n")
    L.append("/-! ### cursor primitives -/\n\n" + "\n".join(prims) + "\n")
    L.append("/-! ### fill_digi -/\n\n" + digi + "\n")
    L.append("/-! ### fragments -/\n\n" + "\n".join(frags) + "\n")
    L.append("""/-- `arrays()`: `while ( m_cursor < m_data_end ) { read_event(); }` (`m_cursor < m_data_end` is `¬ atEnd`); one `EventRec` per iteration, closed by
the `fill_offsets()` at the end of `read_event`, the first `fill_offsets()` before the loop being the leading offset 0 -/
def readEventsCpp (sel : List Nat) : Nat → P (List EventRec)
  | 0 => outOfFuel
  | fuel + 1 => do
    let e ← atEnd
    if e then pure [] else do
      let ev ← readEventCpp (fuel + 1) sel
      let more ← readEventsCpp sel fuel
      pure (ev :: more)

""")
    L.append(f"""/-- `py_read_bes_raw`: `if ( sub_detectors.size() == 0 ) sub_detectors = {{ {', '.join('"' + n + '"' for n in tr.info['default_selection'])} }};`, the names
mapped through `sub_det_names_to_ids` as in the selection loop of `arrays()` -/
def effectiveSelCpp (sel : List Nat) : List Nat := if sel.isEmpty then [{', '.join('id_' + d for d in default_ids)}] else sel

/-- `py_read_bes_raw( data, sub_detectors )`: a fresh parser on the whole buffer, `arrays()` on the effective selection -/
def parseCpp (sel : List Nat) (ws : List Nat) : Res (List EventRec) :=
  (readEventsCpp (effectiveSelCpp sel) (ws.length + 1)).run ws

/-- `sub_det_names_to_ids` -/
def subDetNames : List (String × Nat) := [{', '.join(f'("{n}", id_{d})' for n, d in tr.hh['names'].items())}]

/-- `arrays()`, event-header dict: key i is `evt_header_item_names[i]`, value `m_evt_header_data[i]` (uint32) -/
def headerKeys : List String := [{', '.join('"' + n + '"' for n in tr.hh['header_names'])}]

/-- `arrays()`, sub-detector cases with a column dict: result key ↦ ordered (dict key, position of the returned vector in the member tuple =
index into the model's `Row`, element width in bits = dtype of the array = element type of that tuple position) -/
def columnWiring : List (String × List (String × Nat × Nat)) :=
  [{', '.join('("' + k + '", [' + ', '.join(f'("{d}", {p}, {b})' for d, p, b in w) + '])' for k, w in tr.info['output']['columns'])}]

/-- `arrays()`, sub-detector cases returning the raw words: result key ↦ element width; the value is `(offsets, data)` -/
def rawWiring : List (String × Nat) := [{', '.join(f'("{k}", {b})' for k, b in tr.info['output']['raw'])}]

/-- `arrays()`: result key ↦ the offsets vector returned with it (the one `fill_offsets()` fills for that sub-detector), as uint32 -/
def offsetsWiring : List (String × String) := [{', '.join(f'("{k}", "{o}")' for k, o in tr.info['output']['offsets'])}]

/-- `fill_offsets()` pushes, for every activated sub-detector, the current number of rows (`std::get<0>( m_x_data ).size()` resp.
`m_x_data.size()`); it is called once before the event loop and once at the end of every `read_event` -/
def offsetsAreRowCounts : Bool := true
/-- number of kept event-header words (`std::array<std::vector<uint32_t>, N> m_evt_header_data`) -/
def nHeaderWords : Nat := {tr.hh['n_header']}

end Pybes3Verif.Gen.RawCpp
""")
    tr.info["flags"] = {k: f"0x{v:08X}" for k, v in flags.items()}
    tr.info["ids"] = {k: f"0x{v:X}" for k, v in ids.items()}
    tr.info["names"] = tr.hh["names"]
    return "".join(L), tr.info


def _git_show(path: str) -> str:
    r = subprocess.run(["git", "-C", "/repo", "show", f"HEAD:{path}"], capture_output=True, text=True)
    if r.returncode != 0:
        raise Unsupported(f"git -C /repo show HEAD:{path} failed: {r.stderr.strip()}")
    return r.stdout


if __name__ == "__main__":
    args = sys.argv[1:]
    try:
        if len(args) >= 2:
            cc, hh = open(args[0]).read(), open(args[1]).read()
        else:
            cc, hh = _git_show(CC_GIT), _git_show(HH_GIT)
        out_path = args[2] if len(args) > 2 else OUT_PATH
        body, info = generate(cc, hh)
    except Unsupported as ex:
        print(f"Unsupported: {ex}")
        sys.exit(2)
    if not os.path.exists(out_path) or open(out_path).read() != body:
        open(out_path, "w").write(body)
    print(json.dumps(info, indent=1))
