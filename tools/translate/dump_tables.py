"""Runs in a fresh /venv interpreter: dumps geometry / reid tables of the working tree as JSON on stdout.

Integers are dumped as Python ints (two's complement handled by the emitter), floats as IEEE-754
bit patterns (uint64), bools as 0/1.
"""
import json
import sys

import numpy as np


def enc(a):
    a = np.asarray(a)
    if a.dtype == np.bool_:
        return {"kind": "u", "bits": 8, "shape": list(a.shape), "data": a.astype(np.uint8).ravel().tolist()}
    if a.dtype.kind == "f":
        return {"kind": "f", "bits": 64, "shape": list(a.shape), "data": a.astype(np.float64).ravel().view(np.uint64).tolist()}
    if a.dtype.kind in "iu":
        return {"kind": a.dtype.kind, "bits": a.dtype.itemsize * 8, "shape": list(a.shape), "data": a.ravel().tolist()}
    raise TypeError(a.dtype)


def main(what):
    out = {}
    if what == "geom":
        from pathlib import Path
        import pybes3.detectors.geometry.mdc as mdc
        import pybes3.detectors.geometry.emc as emc
        gdir = Path(mdc.__file__).parent
        for det, mod in (("mdc", mdc), ("emc", emc)):
            npz = np.load(gdir / f"{det}_geom.npz")
            out[f"npz_{det}"] = {k: enc(npz[k]) for k in npz.files}
            mod._ensure_loaded()
            g = {}
            for k, v in vars(mod).items():
                if isinstance(v, np.ndarray):
                    g[k] = enc(v)
            out[f"mod_{det}"] = g
            out[f"consts_{det}"] = {k: v for k, v in vars(mod).items() if isinstance(v, (int, float)) and not isinstance(v, bool) and not k.startswith("__")}
    elif what == "reid":
        import pybes3.besio._reid as r
        for det in ("mdc", "tof", "emc", "muc"):
            out[det] = enc(getattr(r, f"build_{det}_re2te")())
    json.dump(out, sys.stdout)


main(sys.argv[1])
