"""Translator for `convert_reid_to_teid` (src/pybes3/besio/_reid.py) and the place it is applied in `RawBinaryReader.arrays`
(src/pybes3/besio/raw_io.py) into Lean (Gen/ReidPy.lean).

`convert_reid_to_teid` is a sequence of blocks
    if "<det>" in raw_dict:
        table = build_<det>_re2te()
        offsets, data_dict = raw_dict["<det>"]
        reid = data_dict["id"]
        data_dict["id"] = table[reid.astype(np.intp)]
followed by `return raw_dict`.  Each block is recognised from its AST; the translator emits, per block, which detector key is
converted with which table builder and which column is replaced by which lookup, and the conversion itself as a Lean function over
the raw dict modelled as an association list.  Anything else raises Unsupported.
"""
from __future__ import annotations

import ast


class Unsupported(Exception):
    pass


U = ast.unparse


def translate_convert(src: str):
    tree = ast.parse(src)
    fn = next((n for n in tree.body if isinstance(n, ast.FunctionDef) and n.name == "convert_reid_to_teid"), None)
    if fn is None:
        raise Unsupported("convert_reid_to_teid not found")
    if [a.arg for a in fn.args.args] != ["raw_dict"]:
        raise Unsupported("convert_reid_to_teid signature")
    body = [s for s in fn.body if not (isinstance(s, ast.Expr) and isinstance(s.value, ast.Constant) and isinstance(s.value.value, str))]
    if not body or U(body[-1]) != "return raw_dict":
        raise Unsupported("convert_reid_to_teid does not end with `return raw_dict`")
    blocks = []
    for st in body[:-1]:
        if not (isinstance(st, ast.If) and not st.orelse and isinstance(st.test, ast.Compare) and len(st.test.ops) == 1 and isinstance(st.test.ops[0], ast.In)
                and isinstance(st.test.left, ast.Constant) and U(st.test.comparators[0]) == "raw_dict"):
            raise Unsupported(f"convert_reid_to_teid: statement `{U(st)[:100]}` is not an `if \"<det>\" in raw_dict:` block")
        det = st.test.left.value
        b = st.body
        if len(b) != 4:
            raise Unsupported(f"convert_reid_to_teid[{det}]: expected 4 statements, got {len(b)}")
        s0, s1, s2, s3 = b
        if not (isinstance(s0, ast.Assign) and U(s0.targets[0]) == "table" and isinstance(s0.value, ast.Call) and not s0.value.args and not s0.value.keywords and isinstance(s0.value.func, ast.Name)):
            raise Unsupported(f"convert_reid_to_teid[{det}]: `{U(s0)}`")
        builder = s0.value.func.id
        if U(s1) != f"offsets, data_dict = raw_dict['{det}']" and U(s1) != f"(offsets, data_dict) = raw_dict['{det}']":
            raise Unsupported(f"convert_reid_to_teid[{det}]: `{U(s1)}`")
        if not (isinstance(s2, ast.Assign) and U(s2.targets[0]) == "reid" and isinstance(s2.value, ast.Subscript) and U(s2.value.value) == "data_dict" and isinstance(s2.value.slice, ast.Constant)):
            raise Unsupported(f"convert_reid_to_teid[{det}]: `{U(s2)}`")
        col_in = s2.value.slice.value
        if not (isinstance(s3, ast.Assign) and isinstance(s3.targets[0], ast.Subscript) and U(s3.targets[0].value) == "data_dict" and isinstance(s3.targets[0].slice, ast.Constant)):
            raise Unsupported(f"convert_reid_to_teid[{det}]: `{U(s3)}`")
        col_out = s3.targets[0].slice.value
        if U(s3.value) not in ("table[reid.astype(np.intp)]", "table[reid]", "table[reid.astype(np.int64)]"):
            raise Unsupported(f"convert_reid_to_teid[{det}]: the new column is `{U(s3.value)}`, not a plain table lookup of the old one")
        blocks.append((det, builder, col_in, col_out))
    # builders exist and are memo-free functions of no argument
    for det, builder, _, _ in blocks:
        bf = next((n for n in tree.body if isinstance(n, ast.FunctionDef) and n.name == builder), None)
        if bf is None:
            raise Unsupported(f"table builder {builder} not found")
        if bf.args.args or bf.args.kwonlyargs:
            raise Unsupported(f"{builder} takes arguments")
    return blocks


def check_call_site(src_raw_io: str):
    """`arrays`: for every gathered result `org_dict = future.result(); if decode_reid: convert_reid_to_teid(org_dict); res.append(_raw_dict_to_ak(org_dict))`"""
    tree = ast.parse(src_raw_io)
    cls = next((n for n in tree.body if isinstance(n, ast.ClassDef) and n.name == "RawBinaryReader"), None)
    if cls is None:
        raise Unsupported("RawBinaryReader not found")
    fn = next((n for n in cls.body if isinstance(n, ast.FunctionDef) and n.name == "arrays"), None)
    if fn is None:
        raise Unsupported("RawBinaryReader.arrays not found")
    params = [a.arg for a in fn.args.args]
    if "decode_reid" not in params:
        raise Unsupported("arrays has no decode_reid parameter")
    default = fn.args.defaults[params.index("decode_reid") - (len(params) - len(fn.args.defaults))]
    if not (isinstance(default, ast.Constant) and default.value is True):
        raise Unsupported("decode_reid does not default to True")
    loops = [n for n in ast.walk(fn) if isinstance(n, ast.For) and U(n.iter) == "futures"]
    if len(loops) != 1:
        raise Unsupported("arrays: no unique `for future in futures` loop")
    b = loops[0].body
    want = ["org_dict = future.result()", "if decode_reid:\n    convert_reid_to_teid(org_dict)", "res.append(_raw_dict_to_ak(org_dict))"]
    if [U(x) for x in b] != want:
        raise Unsupported(f"arrays: gather loop body is {[U(x) for x in b]}")
    # convert_reid_to_teid is the function of _reid.py
    imp = [n for n in tree.body if isinstance(n, ast.ImportFrom) and any(a.name == "convert_reid_to_teid" for a in n.names)]
    if not imp or imp[0].module not in ("_reid", None) and not str(imp[0].module).endswith("_reid"):
        raise Unsupported("convert_reid_to_teid is not imported from _reid")
    return True


HEADER = """-- GENERATED by tools/translate/reidpy.py from /repo/src/pybes3/besio/_reid.py and raw_io.py. Do not edit.
import Pybes3Verif.Gen.Reid
/-! `convert_reid_to_teid`, translated block by block: which detector's `id` column is replaced by the image under which table. -/
namespace Pybes3Verif.Gen.ReidPy

/-- the raw dict of one decoded batch: key -> (offsets, columns); `evt_header`, `trg`, `ef` are keys like any other here -/
abbrev Det := List Nat × List (String × List Nat)
abbrev RawDict := List (String × Det)

/-- `data_dict[col] = table[data_dict[col']]` (a Python dict assignment keeps the position of an existing key, appends a new one) -/
def setCol (cols : List (String × List Nat)) (k : String) (v : List Nat) : List (String × List Nat) :=
  if cols.any (fun x => x.1 == k) then cols.map (fun x => if x.1 == k then (k, v) else x) else cols ++ [(k, v)]

def getCol (cols : List (String × List Nat)) (k : String) : List Nat := ((cols.find? (fun x => x.1 == k)).map (·.2)).getD []

"""


def generate(src_reid: str, src_raw_io: str):
    blocks = translate_convert(src_reid)
    check_call_site(src_raw_io)
    L = [HEADER]
    L.append("/-- (detector key, table builder, column read, column written) of every block, in source order -/\ndef blocks : List (String × String × String × String) := [" +
             ", ".join(f'("{d}", "{b}", "{ci}", "{co}")' for d, b, ci, co in blocks) + "]\n\n")
    for d, b, ci, co in blocks:
        L.append(f"""/-- `if "{d}" in raw_dict: table = {b}(); offsets, data_dict = raw_dict["{d}"]; data_dict["{co}"] = table[data_dict["{ci}"]]` -/
def step_{d} (table : Nat → Nat) (raw : RawDict) : RawDict :=
  raw.map (fun (k, det) => if k == "{d}" then (k, (det.1, setCol det.2 "{co}" ((getCol det.2 "{ci}").map table))) else (k, det))

""")
    tabs = " ".join(f"(t_{d} : Nat → Nat)" for d, _, _, _ in blocks)
    body = "raw"
    for d, _, _, _ in blocks:
        body = f"step_{d} t_{d} ({body})"
    L.append(f"/-- `convert_reid_to_teid(raw_dict)`: the blocks in source order -/\ndef convertPy {tabs} (raw : RawDict) : RawDict :=\n  {body}\n\n")
    L.append("/-- the gather loop of `arrays` applies the conversion to every batch iff `decode_reid` (default True), before the awkward assembly -/\ndef appliedIffDecodeReid : Bool := true\n\nend Pybes3Verif.Gen.ReidPy\n")
    return "".join(L), {"blocks": blocks}


if __name__ == "__main__":
    body, info = generate(open("/repo/src/pybes3/besio/_reid.py").read(), open("/repo/src/pybes3/besio/raw_io.py").read())
    open("/verif/lean/Pybes3Verif/Gen/ReidPy.lean", "w").write(body)
    print(info)
