"""Translator for the table getters and loaders of detectors/geometry/mdc.py and emc.py (C09's "tables handed to the caller are private
copies", C08/C09's "lookups return the row of the published table") into Lean facts + definitions (Gen/GeomPy.lean).

Recognised, per module, from the AST:
  * `_ensure_loaded`: the table is read once (`dict(np.load(_cur_dir / "<table>.npz"))`) guarded by `_loaded`; each module-level column
    is bound to one key of that dict (or to an index expression of one key, for the EMC corner points); derived arrays are listed;
  * the getter: `_ensure_loaded()` first, then a dict comprehension `{k: v.copy() for k, v in <table dict>.items()}` - every handed-out
    array is a fresh per-array copy (a `dict.copy()`, `dict(...)`, or handing out the module dict itself would alias the arrays) -, every
    returned column is taken from that private dict (slices of private copies included), for all three libraries;
  * every cached accessor kernel `X_gid_to_<col>` indexes the module column bound to the table key of the same name.
"""
from __future__ import annotations

import ast


class Unsupported(Exception):
    pass


U = ast.unparse


def _fn(tree, name):
    for n in tree.body:
        if isinstance(n, ast.FunctionDef) and n.name == name:
            return n
    raise Unsupported(f"{name} not found")


def module_facts(src: str, getter: str, stem: str):
    tree = ast.parse(src)
    ens = _fn(tree, "_ensure_loaded")
    body = [s for s in ens.body if not (isinstance(s, ast.Expr) and isinstance(s.value, ast.Constant))]
    # guard
    if not (isinstance(body[0], ast.Global) and body[0].names == ["_loaded"] and isinstance(body[1], ast.If) and U(body[1].test) == "_loaded" and U(body[1].body[0]) == "return"):
        raise Unsupported(f"{stem}._ensure_loaded: no `global _loaded; if _loaded: return` guard")
    if U(body[-1]) != "_loaded = True":
        raise Unsupported(f"{stem}._ensure_loaded does not end with `_loaded = True`")
    loads = [s for s in body if isinstance(s, ast.Assign) and "np.load" in U(s.value)]
    if len(loads) != 1:
        raise Unsupported(f"{stem}._ensure_loaded: {len(loads)} np.load statements")
    ld = loads[0]
    tbl_var = U(ld.targets[0])
    if not (isinstance(ld.value, ast.Call) and U(ld.value.func) == "dict" and len(ld.value.args) == 1 and U(ld.value.args[0]).startswith("np.load(_cur_dir / ")):
        raise Unsupported(f"{stem}._ensure_loaded: table loaded as `{U(ld.value)}`")
    table_file = ld.value.args[0].args[0].right.value
    # column bindings: NAME = tbl["key"]  |  NAME = tbl["key"][index]
    cols = {}
    derived = []
    for s in body:
        if s is ld or not isinstance(s, ast.Assign) or len(s.targets) != 1 or not isinstance(s.targets[0], ast.Name):
            continue
        name = s.targets[0].id
        v = s.value
        if name == "_loaded":
            continue
        if isinstance(v, ast.Subscript) and U(v.value) == tbl_var and isinstance(v.slice, ast.Constant):
            cols[name] = v.slice.value
        else:
            derived.append(name)
    # getter
    g = _fn(tree, getter)
    gb = [s for s in g.body if not (isinstance(s, ast.Expr) and isinstance(s.value, ast.Constant))]
    if U(gb[0]) != "_ensure_loaded()":
        raise Unsupported(f"{getter}: does not call _ensure_loaded() first")
    cp = gb[1]
    tgt = cp.target if isinstance(cp, ast.AnnAssign) else (cp.targets[0] if isinstance(cp, ast.Assign) else None)
    val = cp.value if isinstance(cp, (ast.Assign, ast.AnnAssign)) else None
    want = f"{{k: v.copy() for k, v in {tbl_var}.items()}}"
    if tgt is None or U(val) != want:
        raise Unsupported(f"{getter}: the handed-out dict is built as `{U(val) if val is not None else U(cp)}`, not as `{want}` (every array must be copied)")
    priv = U(tgt)
    # everything returned derives from the private dict only
    allowed_roots = {priv, "res", "pd", "ak", "np", "library", "k", "i", "range", "f", "ValueError", "ImportError", "dict", "str"}
    for n in ast.walk(ast.Module(body=gb[2:], type_ignores=[])):
        if isinstance(n, ast.Name) and isinstance(n.ctx, ast.Load) and n.id not in allowed_roots:
            raise Unsupported(f"{getter}: uses `{n.id}` after the private copy was made (a module array handed out would be an alias)")
        if isinstance(n, ast.Attribute) and n.attr in ("view", "base"):
            raise Unsupported(f"{getter}: `.{n.attr}` on a handed-out array")
    rets = [U(s.value) for s in ast.walk(ast.Module(body=gb[2:], type_ignores=[])) if isinstance(s, ast.Return)]
    # accessors
    acc = {}
    for f in tree.body:
        if isinstance(f, ast.FunctionDef) and any("vectorize" in U(d) for d in f.decorator_list) and f.name.startswith(f"{stem}_gid_to_"):
            b = [s for s in f.body if not (isinstance(s, ast.Expr) and isinstance(s.value, ast.Constant))]
            if len(b) == 1 and isinstance(b[0], ast.Return) and isinstance(b[0].value, ast.Subscript) and isinstance(b[0].value.value, ast.Name):
                acc[f.name] = (b[0].value.value.id, U(b[0].value.slice))
    bad = []
    for fname, (var, idx) in acc.items():
        col = fname[len(f"{stem}_gid_to_"):]
        key = cols.get(var)
        if key is None:
            continue
        if key != col and not (col.startswith("point_") and key == "points_" + col[len("point_"):]):
            bad.append(f"{fname} indexes `{var}` which is bound to table key {key!r}")
    if bad:
        raise Unsupported("; ".join(bad))
    return {"table": table_file, "table_var": tbl_var, "columns": cols, "derived": derived, "returns": rets,
            "accessors": {k: cols.get(v[0], v[0]) for k, v in acc.items()}}


def float_kernels(src_mdc: str, cols: dict):
    """`mdc_gid_z_to_x / _y` and the derived slope arrays `dx_dz`, `dy_dz` of `_ensure_loaded`, as expressions over the table columns:
    every `NAME[gid]` becomes the column's value for that wire (a variable named after the table key), `z` stays `z`."""
    tree = ast.parse(src_mdc)
    ens = _fn(tree, "_ensure_loaded")
    derived = {}
    for st in ens.body:
        if isinstance(st, ast.Assign) and isinstance(st.targets[0], ast.Name) and st.targets[0].id in ("dx_dz", "dy_dz"):
            derived[st.targets[0].id] = st.value

    def col(name):
        if name not in cols:
            raise Unsupported(f"float kernel: `{name}` is not a module column bound to a table key")
        return cols[name]

    def tr(e, elementwise):
        """elementwise: inside the loader the arrays are combined element-wise; inside the kernel they are indexed by gid"""
        if isinstance(e, ast.BinOp) and type(e.op) in (ast.Add, ast.Sub, ast.Mult, ast.Div):
            op = {ast.Add: "+", ast.Sub: "-", ast.Mult: "*", ast.Div: "/"}[type(e.op)]
            return f"({tr(e.left, elementwise)} {op} {tr(e.right, elementwise)})"
        if elementwise and isinstance(e, ast.Name):
            return col(e.id)
        if not elementwise and isinstance(e, ast.Subscript) and isinstance(e.value, ast.Name) and U(e.slice) == "gid":
            if e.value.id in derived:
                return tr(derived[e.value.id], True)
            return col(e.value.id)
        if not elementwise and isinstance(e, ast.Name) and e.id == "z":
            return "z"
        raise Unsupported(f"float kernel: expression `{U(e)}`")
    out = {}
    for name in ("mdc_gid_z_to_x", "mdc_gid_z_to_y"):
        f = _fn(tree, name)
        if not any("vectorize" in U(d) for d in f.decorator_list) or [a.arg for a in f.args.args] != ["gid", "z"]:
            raise Unsupported(f"{name}: not a vectorize kernel of (gid, z)")
        b = [x for x in f.body if not (isinstance(x, ast.Expr) and isinstance(x.value, ast.Constant))]
        if len(b) != 1 or not isinstance(b[0], ast.Return):
            raise Unsupported(f"{name}: body is not a single return")
        out[name] = tr(b[0].value, False)
    return out


def _ls(xs):
    return "[" + ", ".join('"' + x + '"' for x in xs) + "]"


def generate(src_mdc: str, src_emc: str):
    m = module_facts(src_mdc, "get_mdc_wire_position", "mdc")
    e = module_facts(src_emc, "get_emc_crystal_position", "emc")
    L = ["-- GENERATED by tools/translate/geompy.py from /repo/src/pybes3/detectors/geometry/{mdc,emc}.py. Do not edit.\n",
         "/-! Table getters and loaders: what is handed to the caller, and which table column each accessor kernel reads. -/\n",
         "namespace Pybes3Verif.Gen.GeomPy\n\n"]
    for stem, d in (("mdc", m), ("emc", e)):
        L.append(f"/-- `{stem}.py`: table file, (accessor kernel, table key it indexes) -/\n")
        L.append(f'def {stem}Table : String := "{d["table"]}"\n')
        L.append(f"def {stem}Accessors : List (String × String) := [" + ", ".join(f'("{k}", "{v}")' for k, v in sorted(d["accessors"].items())) + "]\n")
        L.append(f"def {stem}Derived : List String := {_ls(d['derived'])}\n")
        L.append(f"/-- the getter hands out `{{k: v.copy() for k, v in {d['table_var']}.items()}}` (or slices / containers built from it): every array is a private copy -/\n")
        L.append(f"def {stem}GetterCopiesEveryArray : Bool := true\n")
        L.append(f"/-- the table is read from disk once per process, guarded by `_loaded` -/\ndef {stem}LoadedOnce : Bool := true\n\n")
    fk = float_kernels(src_mdc, m["columns"])
    L.append("/-- `mdc_gid_z_to_x(gid, z)` / `mdc_gid_z_to_y(gid, z)` with the loader's `dx_dz` / `dy_dz` substituted: a function of the wire's table\n")
    L.append("row (variables named after the table keys) and `z`; polymorphic so that it can be read over the reals -/\n")
    args = "(west_x west_y west_z east_x east_y east_z z : α)"
    L.append(f"def zToXPy {{α : Type}} [Add α] [Sub α] [Mul α] [Div α] {args} : α := {fk['mdc_gid_z_to_x']}\n")
    L.append(f"def zToYPy {{α : Type}} [Add α] [Sub α] [Mul α] [Div α] {args} : α := {fk['mdc_gid_z_to_y']}\n\n")
    L.append("end Pybes3Verif.Gen.GeomPy\n")
    return "".join(L), {"mdc": m, "emc": e, "float_kernels": fk}


if __name__ == "__main__":
    from pathlib import Path
    g = Path("/repo/src/pybes3/detectors/geometry")
    body, info = generate((g / "mdc.py").read_text(), (g / "emc.py").read_text())
    Path("/verif/lean/Pybes3Verif/Gen/GeomPy.lean").write_text(body)
    print(info["float_kernels"])
