"""Translator: numba `@nb.vectorize` integer kernels (Python AST) -> Lean 4 definitions over BitVec 64.

Semantics assumed (DESIGN.md section 3 item 4, validated differentially on every run):
  every integer operand is widened to 64-bit two's complement before any operation;
  np.uintN(e) truncates to N bits (zero-extended again); comparisons `== !=` are sign-agnostic;
  order comparisons depend on signedness -> kernels containing one get a signed (`_s`) and an
  unsigned (`_u`) variant; `>>` is only accepted when its left operand is provably non-negative
  (masked with a constant < 2^63), where logical and arithmetic shift coincide.
Anything outside the grammar raises Unsupported("file:line: ..."), which the runner treats as a
broken proof obligation.
"""
from __future__ import annotations

import ast
from dataclasses import dataclass, field
from pathlib import Path


class Unsupported(Exception):
    pass


CASTS = {"uint8": 8, "uint16": 16, "uint32": 32, "uint64": 64}


@dataclass
class Kernel:
    name: str
    params: list[str]
    body: str = ""            # lean expression (with {V} placeholder for variant suffix)
    ret: str = "bv"           # bv | bool
    ordered: bool = False     # contains an order comparison (directly or via callee)
    calls: list[str] = field(default_factory=list)
    tables: list[str] = field(default_factory=list)
    lineno: int = 0


def lean_ident(n: str) -> str:
    # Lean identifiers may start with underscore; keep python names, escape a few keywords
    if n in {"end", "at", "from", "to", "in", "open", "local", "instance", "section", "prefix", "module", "import", "theorem", "def", "fun", "then", "else", "do", "where", "with", "match", "let", "show", "have"}:
        return n + "'"
    return n


class ModuleTranslator:
    def __init__(self, path: Path, table_names: dict[str, str] | None = None):
        self.path = Path(path)
        self.src = self.path.read_text()
        self.tree = ast.parse(self.src)
        self.consts: dict[str, int] = {}
        self.const_arrays: dict[str, list[int]] = {}
        self.kernels: dict[str, Kernel] = {}
        self.plain_funcs: dict[str, ast.FunctionDef] = {}
        # module-global name -> Lean table accessor name (for subscripts of loader-assigned arrays)
        self.table_names = table_names or {}
        self._collect_consts()

    def err(self, node, msg):
        raise Unsupported(f"{self.path}:{getattr(node, 'lineno', '?')}: {msg}")

    # ------------------------------------------------------------------ constants
    def _const_value(self, node):
        if isinstance(node, ast.Constant) and isinstance(node.value, int) and not isinstance(node.value, bool):
            return node.value
        if isinstance(node, ast.Call) and isinstance(node.func, ast.Attribute) and isinstance(node.func.value, ast.Name) \
                and node.func.value.id == "np" and node.func.attr in CASTS and len(node.args) == 1:
            v = self._const_value(node.args[0])
            if v is None:
                return None
            return v % (1 << CASTS[node.func.attr])
        if isinstance(node, ast.Name) and node.id in self.consts:
            return self.consts[node.id]
        if isinstance(node, ast.UnaryOp) and isinstance(node.op, ast.USub):
            v = self._const_value(node.operand)
            return None if v is None else -v
        return None

    def _collect_consts(self):
        for st in self.tree.body:
            if isinstance(st, ast.Assign) and len(st.targets) == 1 and isinstance(st.targets[0], ast.Name):
                name = st.targets[0].id
                v = self._const_value(st.value)
                if v is not None:
                    self.consts[name] = v
                    continue
                # np.array([...]) of int literals
                val = st.value
                if isinstance(val, ast.Call) and isinstance(val.func, ast.Attribute) and val.func.attr == "array" \
                        and val.args and isinstance(val.args[0], ast.List):
                    items = [self._const_value(e) for e in val.args[0].elts]
                    if all(i is not None for i in items):
                        self.const_arrays[name] = items

    # ------------------------------------------------------------------ kernels
    @staticmethod
    def is_vectorize(fn: ast.FunctionDef) -> bool:
        for d in fn.decorator_list:
            s = ast.unparse(d)
            if s.startswith("nb.vectorize") or s.startswith("numba.vectorize"):
                return True
        return False

    def translate_all(self, only: list[str] | None = None, skip: set[str] = frozenset()):
        for st in self.tree.body:
            if isinstance(st, ast.FunctionDef):
                if self.is_vectorize(st):
                    if (only is None or st.name in only) and st.name not in skip:
                        self.kernels[st.name] = self._kernel(st)
                else:
                    self.plain_funcs[st.name] = st
        return self.kernels

    def _kernel(self, fn: ast.FunctionDef) -> Kernel:
        if fn.args.vararg or fn.args.kwarg or fn.args.kwonlyargs or fn.args.defaults:
            self.err(fn, "unsupported signature")
        k = Kernel(fn.name, [a.arg for a in fn.args.args], lineno=fn.lineno)
        body = [s for s in fn.body if not (isinstance(s, ast.Expr) and isinstance(s.value, ast.Constant))]
        self._cur = k
        self._ret_kinds = set()
        k.body = self._block(body, set(k.params))
        if len(self._ret_kinds) != 1:
            self.err(fn, f"mixed return kinds {self._ret_kinds}")
        k.ret = self._ret_kinds.pop()
        return k

    # statements, CPS style -------------------------------------------------------------
    def _has_return(self, stmts) -> bool:
        for s in stmts:
            if isinstance(s, ast.Return):
                return True
            if isinstance(s, ast.If) and (self._has_return(s.body) or self._has_return(s.orelse)):
                return True
        return False

    def _assigned(self, stmts) -> list[str]:
        out = []
        for s in stmts:
            if isinstance(s, ast.Assign):
                for t in s.targets:
                    if isinstance(t, ast.Name) and t.id not in out:
                        out.append(t.id)
            elif isinstance(s, ast.AugAssign) and isinstance(s.target, ast.Name):
                if s.target.id not in out:
                    out.append(s.target.id)
            elif isinstance(s, ast.If):
                for n in self._assigned(s.body) + self._assigned(s.orelse):
                    if n not in out:
                        out.append(n)
        return out

    def _block(self, stmts, scope: set[str]) -> str:
        if not stmts:
            raise Unsupported(f"{self.path}:{self._cur.lineno}: control reaches end of kernel {self._cur.name} without return")
        s, rest = stmts[0], stmts[1:]
        if isinstance(s, ast.Return):
            if s.value is None:
                self.err(s, "bare return")
            e, kind = self._expr(s.value, scope)
            self._ret_kinds.add(kind)
            return e
        if isinstance(s, ast.Assign):
            if len(s.targets) != 1 or not isinstance(s.targets[0], ast.Name):
                self.err(s, "unsupported assignment target")
            e = self._bv(s.value, scope)
            n = s.targets[0].id
            return f"let {lean_ident(n)} : BitVec 64 := {e}\n  {self._block(rest, scope | {n})}"
        if isinstance(s, ast.AugAssign):
            if not isinstance(s.target, ast.Name) or s.target.id not in scope:
                self.err(s, "unsupported augmented assignment")
            n = s.target.id
            e = self._bv(ast.BinOp(left=ast.Name(id=n, ctx=ast.Load()), op=s.op, right=s.value, lineno=s.lineno), scope)
            return f"let {lean_ident(n)} : BitVec 64 := {e}\n  {self._block(rest, scope)}"
        if isinstance(s, ast.If):
            c = self._cond(s.test, scope)
            if self._has_return(s.body) or self._has_return(s.orelse):
                a = self._block(list(s.body) + rest, set(scope))
                b = self._block(list(s.orelse) + rest, set(scope))
                return f"if {c} then\n  ({a})\n  else\n  ({b})"
            # pure assignment if: merge assigned variables
            names = self._assigned([s])
            outs = []
            for branch in (s.body, s.orelse):
                sc = set(scope)
                lets = []
                for st in branch:
                    lets.append(self._assign_only(st, sc))
                missing = [n for n in names if n not in sc]
                if missing:
                    self.err(s, f"variable(s) {missing} assigned in only one branch and not defined before")
                tup = ", ".join(lean_ident(n) for n in names)
                outs.append("".join(lets) + (f"({tup})" if len(names) > 1 else tup))
            pat = ", ".join(lean_ident(n) for n in names)
            pat = f"({pat})" if len(names) > 1 else pat
            ty = " × ".join(["BitVec 64"] * len(names))
            return (f"let {pat} : {ty} := if {c} then ({outs[0]}) else ({outs[1]})\n  "
                    f"{self._block(rest, scope | set(names))}")
        self.err(s, f"unsupported statement {type(s).__name__}")

    def _assign_only(self, st, sc: set[str]) -> str:
        if isinstance(st, ast.Assign) and len(st.targets) == 1 and isinstance(st.targets[0], ast.Name):
            e = self._bv(st.value, sc)
            sc.add(st.targets[0].id)
            return f"let {lean_ident(st.targets[0].id)} : BitVec 64 := {e}; "
        if isinstance(st, ast.AugAssign) and isinstance(st.target, ast.Name) and st.target.id in sc:
            n = st.target.id
            e = self._bv(ast.BinOp(left=ast.Name(id=n, ctx=ast.Load()), op=st.op, right=st.value, lineno=st.lineno), sc)
            return f"let {lean_ident(n)} : BitVec 64 := {e}; "
        self.err(st, "only plain assignments are supported inside a non-returning if")

    # expressions ----------------------------------------------------------------------------
    def _lit(self, v: int) -> str:
        v %= 1 << 64
        return f"({hex(v)} : BitVec 64)" if v > 9 else f"({v} : BitVec 64)"

    def _bv(self, e, scope) -> str:
        s, kind = self._expr(e, scope)
        if kind == "bool":
            return f"(if {s} then (1 : BitVec 64) else 0)"
        return s

    def _cond(self, e, scope) -> str:
        s, kind = self._expr(e, scope)
        if kind == "bv":
            return f"({s} != 0)"
        return s

    def _nonneg(self, e) -> bool:
        """Is the python expression provably non-negative as a 64-bit signed value?"""
        if isinstance(e, ast.BinOp) and isinstance(e.op, ast.BitAnd):
            for side in (e.left, e.right):
                v = self._const_value(side)
                if v is not None and 0 <= v < (1 << 63):
                    return True
        if isinstance(e, ast.BinOp) and isinstance(e.op, ast.RShift):
            return self._nonneg(e.left)
        v = self._const_value(e)
        if v is not None and 0 <= v < (1 << 63):
            return True
        return False

    def _shamt(self, node, lean_b: str) -> str:
        v = self._const_value(node)
        if v is not None and 0 <= v < 64:
            name = f"/-{node.id}-/ " if isinstance(node, ast.Name) else ""
            return f"{name}{v}"
        return lean_b

    def _expr(self, e, scope) -> tuple[str, str]:
        if isinstance(e, ast.Constant):
            if isinstance(e.value, bool):
                return ("true" if e.value else "false"), "bool"
            if isinstance(e.value, int):
                return self._lit(e.value), "bv"
            self.err(e, f"unsupported constant {e.value!r}")
        if isinstance(e, ast.Name):
            if e.id in scope:
                return lean_ident(e.id), "bv"
            if e.id in self.consts:
                return f"/-{e.id}-/ {self._lit(self.consts[e.id])}", "bv"
            self.err(e, f"unknown name {e.id}")
        if isinstance(e, ast.BinOp):
            a = self._bv(e.left, scope)
            b = self._bv(e.right, scope)
            op = type(e.op)
            if op is ast.RShift:
                if not self._nonneg(e.left):
                    self.err(e, "right shift of a possibly negative value (sign-dependent)")
                return f"({a} >>> {self._shamt(e.right, b)})", "bv"
            if op is ast.LShift:
                return f"({a} <<< {self._shamt(e.right, b)})", "bv"
            table = {ast.BitAnd: "&&&", ast.BitOr: "|||", ast.BitXor: "^^^", ast.Add: "+", ast.Sub: "-", ast.Mult: "*"}
            if op in table:
                return f"({a} {table[op]} {b})", "bv"
            self.err(e, f"unsupported operator {op.__name__}")
        if isinstance(e, ast.UnaryOp):
            if isinstance(e.op, ast.Invert):
                return f"(~~~{self._bv(e.operand, scope)})", "bv"
            if isinstance(e.op, ast.USub):
                return f"(-{self._bv(e.operand, scope)})", "bv"
            if isinstance(e.op, ast.Not):
                return f"(!{self._cond(e.operand, scope)})", "bool"
            self.err(e, "unsupported unary operator")
        if isinstance(e, ast.BoolOp):
            parts = [self._cond(v, scope) for v in e.values]
            j = " || " if isinstance(e.op, ast.Or) else " && "
            return "(" + j.join(parts) + ")", "bool"
        if isinstance(e, ast.Compare):
            if len(e.ops) != 1:
                self.err(e, "chained comparison")
            a = self._bv(e.left, scope)
            b = self._bv(e.comparators[0], scope)
            op = type(e.ops[0])
            if op is ast.Eq:
                return f"({a} == {b})", "bool"
            if op is ast.NotEq:
                return f"({a} != {b})", "bool"
            self._cur.ordered = True
            fn = {ast.Lt: "lt", ast.LtE: "le", ast.Gt: "gt", ast.GtE: "ge"}.get(op)
            if fn is None:
                self.err(e, "unsupported comparison")
            return f"(cmp_{fn}{{V}} {a} {b})", "bool"
        if isinstance(e, ast.Call):
            f = e.func
            if isinstance(f, ast.Attribute) and isinstance(f.value, ast.Name) and f.value.id == "np":
                if f.attr in CASTS and len(e.args) == 1:
                    w = CASTS[f.attr]
                    inner = self._bv(e.args[0], scope)
                    if w == 64:
                        return inner, "bv"
                    return f"({inner} &&& {self._lit((1 << w) - 1)})", "bv"
                if f.attr == "digitize":
                    arr = e.args[1]
                    right = [k for k in e.keywords if k.arg == "right"]
                    if not (isinstance(arr, ast.Name) and arr.id in self.const_arrays) or \
                            (right and not (isinstance(right[0].value, ast.Constant) and right[0].value.value is False)):
                        self.err(e, "unsupported digitize form")
                    bins = self.const_arrays[arr.id]
                    if bins != sorted(bins):
                        self.err(e, "digitize bins not increasing")
                    x = self._bv(e.args[0], scope)
                    self._cur.ordered = True
                    return f"(digitize{{V}} [{', '.join(str(b) for b in bins)}] {x})", "bv"
                self.err(e, f"unsupported numpy call np.{f.attr}")
            if isinstance(f, ast.Name) and f.id in self.kernels:
                callee = self.kernels[f.id]
                if len(e.args) != len(callee.params):
                    self.err(e, "arity mismatch in kernel call")
                args = " ".join(self._bv(a, scope) for a in e.args)
                self._cur.calls.append(f.id)
                if callee.ordered:
                    self._cur.ordered = True
                suffix = "{V}" if callee.ordered else ""
                s = f"({lean_ident(f.id)}{suffix} {args})"
                return s, callee.ret
            self.err(e, f"unsupported call {ast.unparse(f)}")
        if isinstance(e, ast.Subscript):
            if isinstance(e.value, ast.Name) and e.value.id in self.table_names:
                tn = self.table_names[e.value.id]
                if e.value.id not in self._cur.tables:
                    self._cur.tables.append(e.value.id)
                if isinstance(e.slice, ast.Tuple):
                    idx = [self._bv(i, scope) for i in e.slice.elts]
                    return f"({tn} " + " ".join(f"({i}).toNat" for i in idx) + ")", "bv"
                return f"({tn} ({self._bv(e.slice, scope)}).toNat)", "bv"
            self.err(e, f"unsupported subscript of {ast.unparse(e.value)}")
        if isinstance(e, ast.IfExp):
            c = self._cond(e.test, scope)
            return f"(if {c} then {self._bv(e.body, scope)} else {self._bv(e.orelse, scope)})", "bv"
        self.err(e, f"unsupported expression {type(e).__name__}")

    # ------------------------------------------------------------------ emission
    def emit(self, namespace: str) -> str:
        out = []
        for k in self.kernels.values():
            params = " ".join(f"({lean_ident(p)} : BitVec 64)" for p in k.params)
            rt = "Bool" if k.ret == "bool" else "BitVec 64"
            variants = ["_s", "_u"] if k.ordered else [""]
            for v in variants:
                body = k.body.replace("{V}", v)
                out.append(f"/-- generated from `{k.name}` ({self.path.name}:{k.lineno}) -/\n"
                           f"@[kernel_defs] def {lean_ident(k.name)}{v} {params} : {rt} :=\n  {body}\n")
        return "\n".join(out)


PRELUDE = """import Pybes3Verif.Util.Attr
/-! Helpers shared by generated kernels (signed / unsigned order comparisons, digitize). -/
namespace Pybes3Verif.Gen

@[kernel_defs] def cmp_lt_s (a b : BitVec 64) : Bool := a.slt b
@[kernel_defs] def cmp_le_s (a b : BitVec 64) : Bool := a.sle b
@[kernel_defs] def cmp_gt_s (a b : BitVec 64) : Bool := b.slt a
@[kernel_defs] def cmp_ge_s (a b : BitVec 64) : Bool := b.sle a
@[kernel_defs] def cmp_lt_u (a b : BitVec 64) : Bool := a.ult b
@[kernel_defs] def cmp_le_u (a b : BitVec 64) : Bool := a.ule b
@[kernel_defs] def cmp_gt_u (a b : BitVec 64) : Bool := b.ult a
@[kernel_defs] def cmp_ge_u (a b : BitVec 64) : Bool := b.ule a

/-- `np.digitize(x, bins, right=False)`: number of bins `b` with `b ≤ x` (bins increasing). -/
def digitize_s (bins : List Nat) (x : BitVec 64) : BitVec 64 :=
  BitVec.ofNat 64 (bins.filter (fun b => (BitVec.ofNat 64 b).sle x)).length
def digitize_u (bins : List Nat) (x : BitVec 64) : BitVec 64 :=
  BitVec.ofNat 64 (bins.filter (fun b => (BitVec.ofNat 64 b).ule x)).length

end Pybes3Verif.Gen
"""
