"""Translator for the PYTHON side of the raw-file reader, src/pybes3/besio/raw_io.py, into Lean (Gen/RawPy.lean).

What is translated (each from its own AST, nothing assumed; anything outside the recognised shapes raises Unsupported - a broken
translator obligation, never a silent default):

  * `BesFlag`                       the enum members, resolved to their numeric values (searched in the file, else through its imports)
  * `_read` / `_skip`               `int.from_bytes(self._file.read(K), ORDER)` / `self._file.seek(M * n, 1)` with default n
                                    -> `wordBytes`, `littleEndian`, `skipUnit`, `skipDefault`, `readWordPy`
  * `_preprocess_file`              executed SYMBOLICALLY as a cursor program over the byte position (reads, skips, seeks, tell,
                                    padded strings, assertions, attribute assignments) -> `preprocessPy`
  * `_read_batch`                   the loop body as one step over the position -> `readBlockStepPy`; the `for _ in range(n)` loop
                                    with its counter -> `readBatchPy`; the surrounding shape -> `batchIsContiguousRange`, ...
  * `arrays`                        the `while` loop, statement by statement and once per case of `n_blocks` (`== -1` / `>= 0`)
                                    -> `submitLoopPy`; prologue / epilogue -> `arraysPy`, `resetsCursorFirst`,
                                    `gatherInSubmissionOrder`, `emptyBatchWhenNothingRead`
  * `_is_raw`, `concatenate`        -> `isRawPy`, `concatPy`, `concatArgsAligned`, `concatInListOrder`
  * `_raw_dict_to_ak`               the loop over `raw_dict.items()`, its if / elif / else chain (the set literal taken from the source) and
                                    the awkward constructors of every branch -> `recordDetectors`, `convertEntryPy`, `rawDictToAkPy`

Cursor semantics used by the symbolic execution: a read of k bytes / a relative seek by k moves the position by k (Python clamps a
*read* at the end of the file; every position the reader visits in a file that passes the assertions lies inside the file), integer
subtraction is emitted as the truncated subtraction of `Nat` (all occurrences are listed in the info dict).
"""
from __future__ import annotations

import ast
import operator
import os
import re


class Unsupported(Exception):
    pass


U = ast.unparse

SRC_PATH = "/repo/src/pybes3/besio/raw_io.py"
OUT_PATH = "/verif/lean/Pybes3Verif/Gen/RawPy.lean"

LEAN_RESERVED = {"file", "pos", "dataEnd", "fun", "let", "if", "then", "else", "match", "with", "at", "from", "end", "do", "in", "have",
                 "show", "open", "def", "theorem", "none", "some", "r", "fuel", "perBatch", "nBlocks", "rest"}


# ------------------------------------------------------------------------------------------------ small AST helpers
def _cls(tree, name):
    for n in tree.body:
        if isinstance(n, ast.ClassDef) and n.name == name:
            return n
    raise Unsupported(f"class {name} not found")


def _fn(tree, name):
    for n in tree.body:
        if isinstance(n, ast.FunctionDef) and n.name == name:
            return n
    raise Unsupported(f"function {name} not found")


def _method(cls, name):
    found = [n for n in cls.body if isinstance(n, ast.FunctionDef) and n.name == name]
    if len(found) != 1:
        raise Unsupported(f"{cls.name}.{name}: {len(found)} definitions")
    if found[0].decorator_list:
        raise Unsupported(f"{cls.name}.{name} is decorated")
    return found[0]


def _body(fn):
    b = list(fn.body)
    if b and isinstance(b[0], ast.Expr) and isinstance(b[0].value, ast.Constant) and isinstance(b[0].value.value, str):
        b = b[1:]
    return b


def _params(fn):
    a = fn.args
    if a.vararg or a.kwarg or a.kwonlyargs or a.posonlyargs:
        raise Unsupported(f"{fn.name}: *args / **kwargs / keyword-only / positional-only parameters")
    names = [x.arg for x in a.args]
    defaults = [None] * (len(names) - len(a.defaults)) + list(a.defaults)
    return names, defaults


def _ident(name: str) -> str:
    if not re.fullmatch(r"[A-Za-z_][A-Za-z0-9_]*", name):
        raise Unsupported(f"identifier {name!r}")
    return name + "_" if name in LEAN_RESERVED else name


def _hex(v: int) -> str:
    return f"0x{v:08X}"


def _const_int(e):
    """closed integer expression (literals, unary minus, + - * //) -> int, else None"""
    try:
        if isinstance(e, ast.Constant) and isinstance(e.value, int) and not isinstance(e.value, bool):
            return e.value
        if isinstance(e, ast.UnaryOp) and isinstance(e.op, ast.USub):
            v = _const_int(e.operand)
            return None if v is None else -v
        if isinstance(e, ast.BinOp) and type(e.op) in (ast.Add, ast.Sub, ast.Mult, ast.FloorDiv):
            a, b = _const_int(e.left), _const_int(e.right)
            if a is None or b is None:
                return None
            return {ast.Add: operator.add, ast.Sub: operator.sub, ast.Mult: operator.mul, ast.FloorDiv: operator.floordiv}[type(e.op)](a, b)
    except ZeroDivisionError:
        return None
    return None


# ------------------------------------------------------------------------------------------------ BesFlag
def resolve_flags(tree, path):
    """the members of `BesFlag` with their values; searched in this module, else in the module it is imported from"""
    where = path
    cls = next((n for n in tree.body if isinstance(n, ast.ClassDef) and n.name == "BesFlag"), None)
    if cls is None:
        imp = [n for n in tree.body if isinstance(n, ast.ImportFrom) and any(a.name == "BesFlag" and a.asname in (None, "BesFlag") for a in n.names)]
        if len(imp) != 1 or path is None:
            raise Unsupported("BesFlag is neither defined in raw_io.py nor imported by a single `from ... import BesFlag`")
        n = imp[0]
        base = os.path.dirname(os.path.abspath(path))
        for _ in range(max(n.level - 1, 0)):
            base = os.path.dirname(base)
        if n.level == 0:
            raise Unsupported(f"BesFlag is imported from the absolute module {n.module}: cannot locate its source")
        cand = os.path.join(base, *(n.module or "").split("."))
        where = next((p for p in (cand + ".py", os.path.join(cand, "__init__.py")) if os.path.exists(p)), None)
        if where is None:
            raise Unsupported(f"source of module {'.' * n.level}{n.module} (BesFlag) not found")
        cls = next((c for c in ast.parse(open(where).read()).body if isinstance(c, ast.ClassDef) and c.name == "BesFlag"), None)
        if cls is None:
            raise Unsupported(f"BesFlag not defined in {where}")
    if [U(b) for b in cls.bases] not in (["enum.IntEnum"], ["IntEnum"]):
        raise Unsupported(f"BesFlag is not an IntEnum (bases {[U(b) for b in cls.bases]}): `word == BesFlag.X` would not compare numerically")
    if cls.decorator_list or cls.keywords:
        raise Unsupported("BesFlag is decorated / has class keywords")
    flags = {}
    for st in _body(cls):
        if not (isinstance(st, ast.Assign) and len(st.targets) == 1 and isinstance(st.targets[0], ast.Name)):
            raise Unsupported(f"BesFlag: member statement `{U(st)[:80]}`")
        v = _const_int(st.value)
        if v is None or v < 0:
            raise Unsupported(f"BesFlag.{st.targets[0].id} is not a non-negative integer literal")
        if st.targets[0].id in flags:
            raise Unsupported(f"BesFlag.{st.targets[0].id} defined twice")
        flags[st.targets[0].id] = v
    return flags, where


# ------------------------------------------------------------------------------------------------ _read / _skip
def _from_bytes(e, reader: str):
    """`int.from_bytes(<reader>.read(K), ORDER)` -> (K, ORDER)"""
    if not (isinstance(e, ast.Call) and U(e.func) == "int.from_bytes" and len(e.args) == 2 and not e.keywords):
        raise Unsupported(f"`{U(e)}` is not int.from_bytes(<bytes>, <order>)")
    rd, order = e.args
    if not (isinstance(rd, ast.Call) and U(rd.func) == f"{reader}.read" and len(rd.args) == 1 and not rd.keywords and _const_int(rd.args[0]) is not None):
        raise Unsupported(f"`{U(rd)}` is not {reader}.read(<constant>)")
    if not (isinstance(order, ast.Constant) and order.value in ("little", "big")):
        raise Unsupported(f"byte order `{U(order)}`")
    return _const_int(rd.args[0]), order.value


def check_read_skip(cls):
    rd = _method(cls, "_read")
    if _params(rd)[0] != ["self"]:
        raise Unsupported("_read signature")
    b = _body(rd)
    if len(b) != 1 or not isinstance(b[0], ast.Return):
        raise Unsupported(f"_read is not a single return: `{U(rd)[:120]}`")
    k, order = _from_bytes(b[0].value, "self._file")
    if k != 4:
        raise Unsupported(f"_read reads {k} bytes: the model's word (`wordAt`, np.uint32 batches) is 4 bytes")
    sk = _method(cls, "_skip")
    names, defaults = _params(sk)
    if names != ["self", "n"] or defaults[1] is None or _const_int(defaults[1]) is None:
        raise Unsupported(f"_skip signature `{U(sk.args)}` is not (self, n=<constant>)")
    b = _body(sk)
    if len(b) != 1 or not (isinstance(b[0], ast.Expr) and isinstance(b[0].value, ast.Call) and U(b[0].value.func) == "self._file.seek"):
        raise Unsupported(f"_skip is not a single self._file.seek(...): `{U(sk)[:120]}`")
    call = b[0].value
    if len(call.args) != 2 or call.keywords or _const_int(call.args[1]) != 1:
        raise Unsupported(f"_skip: `{U(call)}` is not a relative seek (whence 1)")
    off = call.args[0]
    unit = None
    if isinstance(off, ast.BinOp) and isinstance(off.op, ast.Mult):
        if U(off.right) == "n" and _const_int(off.left) is not None:
            unit = _const_int(off.left)
        elif U(off.left) == "n" and _const_int(off.right) is not None:
            unit = _const_int(off.right)
    if unit is None or unit <= 0:
        raise Unsupported(f"_skip: offset `{U(off)}` is not <positive constant> * n")
    return {"word": k, "order": order, "unit": unit, "default": _const_int(defaults[1])}


# ------------------------------------------------------------------------------------------------ symbolic values
class Sym:
    """Lean expression of type Nat; prec in atom < app < mul < add"""
    def __init__(self, t, prec="add"):
        self.t, self.prec = t, prec

    def arg(self):
        return self.t if self.prec == "atom" else f"({self.t})"

    def factor(self):
        return self.t if self.prec in ("atom", "app") else f"({self.t})"

    def term(self):
        return self.t if self.prec in ("atom", "app", "mul") else f"({self.t})"

    def left(self, level):
        """as the LEFT operand of a left-associative operator of the given level"""
        if level == "mul":
            return self.t if self.prec != "add" else f"({self.t})"
        return self.t


class CeilDiv:
    """np.ceil(x / d).astype(int)"""
    def __init__(self, x, d):
        self.x, self.d = x, d

    def literal(self):
        return Sym(f"({self.x.left('add')} + {self.d - 1}) / {self.d}", "mul")


class Opaque:
    """a value the position never depends on (decoded strings)"""


EFFECT_CALLS = ("self._read", "self._skip", "self._file.read", "self._file.seek", "self._reset_cursor", "self._read_batch", "self._skip_event")


class Cursor:
    """symbolic execution of straight-line reader code; the file position is (base, offset) with base a Lean name / None"""

    def __init__(self, cls, io, flags, pos, attrs, what):
        self.cls, self.io, self.flags, self.what = cls, io, flags, what
        self.pos = pos
        self.items = []            # ("let", name, text) | ("assert", text) | ("breakif", cond, [assert texts])
        self.env = {}
        self.attrs = dict(attrs)
        self.np = 0
        self.nat_subs = []
        self.words = {}            # attribute / local name -> position it was read from
        self.counters = {}         # name -> list of increments seen (step mode)
        self.broke = False

    # ---- position
    def render(self, pos=None) -> Sym:
        base, off = pos or self.pos
        if base is None:
            return Sym(str(off), "atom")
        if off == 0:
            return Sym(base, "atom")
        return Sym(f"{base} + {off}", "add")

    def set_pos_sym(self, s: Sym):
        if s.prec == "atom":
            self.pos = (s.t, 0)
        else:
            self.np += 1
            name = f"p{self.np}"
            self.items.append(("let", name, s.t))
            self.pos = (name, 0)

    def advance(self, v):
        if isinstance(v, int):
            if v < 0 and self.pos[0] is None and self.pos[1] + v < 0:
                raise Unsupported(f"{self.what}: relative seek before the start of the file")
            if v < 0:
                self.nat_subs.append(f"{self.render().t} - {-v}")
                self.set_pos_sym(Sym(f"{self.render().t} - {-v}", "add"))
            else:
                self.pos = (self.pos[0], self.pos[1] + v)
        elif isinstance(v, Sym):
            self.set_pos_sym(Sym(f"{self.render().t} + {v.term()}", "add"))
        else:
            raise Unsupported(f"{self.what}: advance by {v!r}")

    def read_word(self) -> Sym:
        s = Sym(f"readWordPy file {self.render().arg()}", "app")
        s.at = self.render().t
        self.advance(self.io["word"])
        return s

    # ---- pure expressions
    def pure(self, e):
        for c in ast.walk(e):
            if isinstance(c, ast.Call) and U(c.func) in EFFECT_CALLS:
                raise Unsupported(f"{self.what}: `{U(c)}` inside the expression `{U(e)}` (evaluation order not modelled)")
        return self._pure(e)

    def _pure(self, e):
        k = _const_int(e)
        if k is not None:
            return k
        if isinstance(e, ast.Name):
            if e.id not in self.env:
                raise Unsupported(f"{self.what}: unknown name {e.id}")
            return self.env[e.id]
        if isinstance(e, ast.Attribute):
            if isinstance(e.value, ast.Name) and e.value.id == "BesFlag":
                if e.attr not in self.flags:
                    raise Unsupported(f"{self.what}: BesFlag.{e.attr} is not a member of BesFlag")
                return self.flags[e.attr]
            if isinstance(e.value, ast.Name) and e.value.id == "self" and e.attr != "_file":
                if e.attr not in self.attrs:
                    raise Unsupported(f"{self.what}: self.{e.attr} read before it is assigned")
                return self.attrs[e.attr]
            raise Unsupported(f"{self.what}: attribute `{U(e)}`")
        if isinstance(e, ast.Call):
            f = U(e.func)
            if f == "self._file.tell" and not e.args and not e.keywords:
                return self.render()
            # np.ceil(x / d).astype(int)
            if (isinstance(e.func, ast.Attribute) and e.func.attr == "astype" and [U(a) for a in e.args] == ["int"] and not e.keywords
                    and isinstance(e.func.value, ast.Call) and U(e.func.value.func) in ("np.ceil", "numpy.ceil", "math.ceil") and len(e.func.value.args) == 1
                    and not e.func.value.keywords):
                q = e.func.value.args[0]
                if isinstance(q, ast.BinOp) and isinstance(q.op, ast.Div):
                    x, d = self._pure(q.left), _const_int(q.right)
                    if isinstance(x, Sym) and d is not None and d > 0:
                        return CeilDiv(x, d)
            raise Unsupported(f"{self.what}: call `{U(e)}`")
        if isinstance(e, ast.BinOp):
            a, b = self._pure(e.left), self._pure(e.right)
            if isinstance(e.op, ast.Mult):
                if isinstance(a, CeilDiv) and isinstance(b, int) or isinstance(b, CeilDiv) and isinstance(a, int):
                    c, m = (a, b) if isinstance(a, CeilDiv) else (b, a)
                    if c.d == 4 and m == 4:
                        return Sym(f"padded {c.x.arg()}", "app")          # exactly the model's `padded`
                    return Sym(f"{c.literal().t} * {m}", "mul")
            a = a.literal() if isinstance(a, CeilDiv) else a
            b = b.literal() if isinstance(b, CeilDiv) else b
            if not all(isinstance(x, (int, Sym)) for x in (a, b)):
                raise Unsupported(f"{self.what}: arithmetic on a non-numeric value in `{U(e)}`")
            sa = a if isinstance(a, Sym) else Sym(str(a), "atom") if a >= 0 else None
            sb = b if isinstance(b, Sym) else Sym(str(b), "atom") if b >= 0 else None
            if sa is None or sb is None:
                raise Unsupported(f"{self.what}: negative constant in `{U(e)}`")
            if isinstance(e.op, ast.Add):
                return Sym(f"{sa.left('add')} + {sb.term()}", "add")
            if isinstance(e.op, ast.Sub):
                t = f"{sa.left('add')} - {sb.term()}"
                self.nat_subs.append(t)
                return Sym(t, "add")
            if isinstance(e.op, ast.Mult):
                return Sym(f"{sa.left('mul')} * {sb.factor()}", "mul")
            if isinstance(e.op, ast.FloorDiv):
                if isinstance(b, int) and b <= 0:
                    raise Unsupported(f"{self.what}: division by {b}")
                return Sym(f"{sa.left('mul')} / {sb.factor()}", "mul")
            raise Unsupported(f"{self.what}: operator in `{U(e)}`")
        raise Unsupported(f"{self.what}: expression `{U(e)}`")

    # ---- right-hand sides (at most one effect, outermost)
    def rhs(self, e):
        if isinstance(e, ast.Call) and U(e.func) == "self._read":
            if e.args or e.keywords:
                raise Unsupported(f"{self.what}: `{U(e)}`")
            return self.read_word()
        # self._file.read(E).decode(...).strip()
        inner, chain = e, []
        while isinstance(inner, ast.Call) and isinstance(inner.func, ast.Attribute) and inner.func.attr in ("decode", "strip", "rstrip", "lstrip"):
            chain.append(inner.func.attr)
            inner = inner.func.value
        if isinstance(inner, ast.Call) and U(inner.func) == "self._file.read":
            if len(inner.args) != 1 or inner.keywords:
                raise Unsupported(f"{self.what}: `{U(inner)}`")
            n = self.pure(inner.args[0])
            if isinstance(n, CeilDiv):
                n = n.literal()
            self.advance(n)
            return Opaque()
        return self.pure(e)

    # ---- statements
    def bind(self, name, val, is_attr):
        lean = _ident(name)
        if isinstance(val, Sym):
            if getattr(val, "at", None) is not None:
                self.words[name] = val.at
            if val.prec != "atom" or val.t != lean:
                self.items.append(("let", lean, val.t))
            val = Sym(lean, "atom")
        (self.attrs if is_attr else self.env)[name] = val

    def stmt(self, st, in_loop=False):
        if self.broke:
            raise Unsupported(f"{self.what}: statement after break")
        if isinstance(st, ast.Assert):
            t = st.test
            if not (isinstance(t, ast.Compare) and len(t.ops) == 1 and isinstance(t.ops[0], ast.Eq) and isinstance(t.left, ast.Call) and U(t.left) == "self._read()"):
                raise Unsupported(f"{self.what}: assertion `{U(t)}` is not `self._read() == <flag>`")
            want = self.pure(t.comparators[0])
            if not isinstance(want, int):
                raise Unsupported(f"{self.what}: assertion `{U(t)}` does not compare with a constant")
            w = self.read_word()
            self.items.append(("assert", f"{w.t} ≠ {_hex(want)}"))
            return
        if isinstance(st, ast.Expr) and isinstance(st.value, ast.Call):
            call = st.value
            f = U(call.func)
            if f == "self._skip":
                if call.keywords and not (len(call.keywords) == 1 and call.keywords[0].arg == "n" and not call.args):
                    raise Unsupported(f"{self.what}: `{U(call)}`")
                a = call.args[0] if call.args else call.keywords[0].value if call.keywords else None
                if len(call.args) > 1:
                    raise Unsupported(f"{self.what}: `{U(call)}`")
                n = self.io["default"] if a is None else self.pure(a)
                if isinstance(n, int):
                    self.advance(self.io["unit"] * n)
                elif isinstance(n, Sym):
                    self.advance(Sym(f"{self.io['unit']} * {n.factor()}", "mul"))
                else:
                    raise Unsupported(f"{self.what}: `{U(call)}`")
                return
            if f == "self._file.seek":
                if call.keywords or len(call.args) not in (1, 2):
                    raise Unsupported(f"{self.what}: `{U(call)}`")
                whence = 0 if len(call.args) == 1 else _const_int(call.args[1])
                # the offset may be negative for whence 1 / 2
                off = _const_int(call.args[0])
                if off is None:
                    off = self.pure(call.args[0])
                if whence == 0:
                    if isinstance(off, int):
                        if off < 0:
                            raise Unsupported(f"{self.what}: `{U(call)}` seeks before the start")
                        self.pos = (None, off)
                    elif isinstance(off, Sym):
                        self.set_pos_sym(off)
                    else:
                        raise Unsupported(f"{self.what}: `{U(call)}`")
                elif whence == 1:
                    self.advance(off)
                elif whence == 2:
                    if not isinstance(off, int):
                        raise Unsupported(f"{self.what}: `{U(call)}`: offset from the end is not a constant")
                    if off >= 0:
                        self.pos = ("file.length", off)
                    else:
                        self.nat_subs.append(f"file.length - {-off}")
                        self.set_pos_sym(Sym(f"file.length - {-off}", "add"))
                else:
                    raise Unsupported(f"{self.what}: `{U(call)}`: whence")
                return
            if f == "self._reset_cursor" and not call.args and not call.keywords:
                for s in _body(_method(self.cls, "_reset_cursor")):
                    self.stmt(s)
                return
            raise Unsupported(f"{self.what}: call statement `{U(call)}`")
        if isinstance(st, ast.Assign):
            if len(st.targets) != 1:
                raise Unsupported(f"{self.what}: `{U(st)}`")
            tgt = st.targets[0]
            val = self.rhs(st.value)
            if isinstance(val, CeilDiv):
                # keep the pattern (used as `x * 4` later); no let emitted for it
                if not isinstance(tgt, ast.Name):
                    raise Unsupported(f"{self.what}: `{U(st)}`")
                self.env[tgt.id] = val
                return
            if isinstance(tgt, ast.Name):
                self.bind(tgt.id, val, False)
                return
            if isinstance(tgt, ast.Attribute) and isinstance(tgt.value, ast.Name) and tgt.value.id == "self" and tgt.attr != "_file":
                self.bind(tgt.attr, val, True)
                return
            raise Unsupported(f"{self.what}: assignment target `{U(tgt)}`")
        if in_loop and isinstance(st, ast.AugAssign) and isinstance(st.target, ast.Name) and isinstance(st.op, ast.Add):
            k = _const_int(st.value)
            if k is None:
                raise Unsupported(f"{self.what}: `{U(st)}`")
            self.counters.setdefault(st.target.id, []).append((k, any(i[0] == "breakif" for i in self.items)))
            return
        if in_loop and isinstance(st, ast.If):
            # if <tell> OP self.data_end: assert <tell> == self.data_end, ...; break
            if st.orelse or not st.body or not isinstance(st.body[-1], ast.Break):
                raise Unsupported(f"{self.what}: `if {U(st.test)}` is not `if …: [assert …;] break`")
            cond = self.cmp(st.test)
            asserts = []
            for a in st.body[:-1]:
                if not isinstance(a, ast.Assert):
                    raise Unsupported(f"{self.what}: `{U(a)[:80]}` before break")
                asserts.append(self.cmp(a.test))
            self.items.append(("breakif", cond, asserts))
            return
        raise Unsupported(f"{self.what}: statement `{U(st)[:100]}`")

    def cmp(self, t) -> str:
        """comparison of pure Nat expressions -> Lean Prop text"""
        ops = {ast.Lt: "<", ast.LtE: "≤", ast.Gt: ">", ast.GtE: "≥", ast.Eq: "=", ast.NotEq: "≠"}
        if not (isinstance(t, ast.Compare) and len(t.ops) == 1 and type(t.ops[0]) in ops):
            raise Unsupported(f"{self.what}: condition `{U(t)}`")
        a, b = self.pure(t.left), self.pure(t.comparators[0])
        sa = a if isinstance(a, Sym) else Sym(str(a), "atom") if isinstance(a, int) and a >= 0 else None
        sb = b if isinstance(b, Sym) else Sym(str(b), "atom") if isinstance(b, int) and b >= 0 else None
        if sa is None or sb is None:
            raise Unsupported(f"{self.what}: condition `{U(t)}`")
        return f"{sa.t} {ops[type(t.ops[0])]} {sb.t}"


IDENT = re.compile(r"[A-Za-z_][A-Za-z0-9_']*")


def _prune(items, final_texts):
    """drop lets nothing depends on (values read into attributes the layout does not use)"""
    need = set()
    for t in final_texts:
        need |= set(IDENT.findall(t))
    out = []
    for it in reversed(items):
        if it[0] == "let":
            if it[1] in need:
                need.discard(it[1])
                need |= set(IDENT.findall(it[2]))
                out.append(it)
        elif it[0] == "assert":
            need |= set(IDENT.findall(it[1]))
            out.append(it)
        else:
            need |= set(IDENT.findall(it[1]))
            for a in it[2]:
                need |= set(IDENT.findall(a))
            out.append(it)
    return list(reversed(out))


def _emit_items(items, fail="none", brk="some none"):
    lines = []
    for it in items:
        if it[0] == "let":
            lines.append(f"  let {it[1]} := {it[2]}")
        elif it[0] == "assert":
            lines.append(f"  if {it[1]} then {fail} else")
        else:
            inner = brk if not it[2] else f"(if {' ∧ '.join(it[2])} then {brk} else {fail})"
            lines.append(f"  if {it[1]} then {inner} else")
    return lines


# ------------------------------------------------------------------------------------------------ _preprocess_file
def translate_preprocess(cls, io, flags):
    fn = _method(cls, "_preprocess_file")
    if _params(fn)[0] != ["self"]:
        raise Unsupported("_preprocess_file signature")
    cur = Cursor(cls, io, flags, (None, 0), {}, "_preprocess_file")
    for st in _body(fn):
        cur.stmt(st)
    out = {}
    for a in ("data_start", "data_end", "entries"):
        v = cur.attrs.get(a)
        if not isinstance(v, (Sym, int)):
            raise Unsupported(f"_preprocess_file does not assign self.{a} a position / word")
        out[a] = v.t if isinstance(v, Sym) else str(v)
    # __init__ opens the file in binary mode and preprocesses it; the reader is its own context manager
    init = [U(s) for s in _body(_method(cls, "__init__"))]
    if "self._file = open(file, 'rb')" not in init or init[-1] != "self._preprocess_file()":
        raise Unsupported("RawBinaryReader.__init__ does not open the file with open(file, 'rb') / does not end with self._preprocess_file()")
    if [U(s) for s in _body(_method(cls, "__enter__"))] != ["return self"]:
        raise Unsupported("RawBinaryReader.__enter__ does not return self")
    at_start = cur.render().t == out["data_start"]
    if not at_start:
        raise Unsupported(f"_preprocess_file leaves the cursor at `{cur.render().t}`, not at data_start")
    final = f"  some {{ dataStart := {out['data_start']}, dataEnd := {out['data_end']}, entries := {out['entries']} }}"
    items = _prune(cur.items, [final])
    lines = ["def preprocessPy (file : List Nat) : Option Layout :="] + _emit_items(items) + [final]
    used = {i[1] for i in items if i[0] == "let"}
    header = {k: v for k, v in cur.words.items() if _ident(k) not in used}
    return "\n".join(lines) + "\n", {"outputs": out, "header_words_at": header, "nat_subtractions": cur.nat_subs,
                                      "asserts": sum(1 for i in items if i[0] == "assert")}


# ------------------------------------------------------------------------------------------------ _read_batch
def translate_read_batch(cls, io, flags):
    fn = _method(cls, "_read_batch")
    names, _ = _params(fn)
    if names != ["self", "n_blocks"]:
        raise Unsupported(f"_read_batch signature {names}")
    b = _body(fn)
    if len(b) != 7:
        raise Unsupported(f"_read_batch: expected pos_start, counter, for-loop, pos_end, seek, frombuffer, return; got {len(b)} statements")
    s_start, s_cnt, loop, s_end, s_seek, s_data, s_ret = b
    if U(s_start) != "pos_start = self._file.tell()":
        raise Unsupported(f"_read_batch: `{U(s_start)}` is not `pos_start = self._file.tell()`")
    if not (isinstance(s_cnt, ast.Assign) and len(s_cnt.targets) == 1 and isinstance(s_cnt.targets[0], ast.Name) and _const_int(s_cnt.value) == 0):
        raise Unsupported(f"_read_batch: `{U(s_cnt)}` is not `<counter> = 0`")
    counter = s_cnt.targets[0].id
    if not (isinstance(loop, ast.For) and not loop.orelse and isinstance(loop.target, ast.Name) and U(loop.iter) == "range(n_blocks)"):
        raise Unsupported(f"_read_batch: loop header `for {U(loop.target)} in {U(loop.iter)}` is not `for _ in range(n_blocks)`")
    loopvar = loop.target.id
    cur = Cursor(cls, io, flags, ("pos", 0), {"data_end": Sym("dataEnd", "atom")}, "_read_batch loop body")
    for st in loop.body:
        if any(isinstance(n, ast.Name) and n.id in (loopvar, "pos_start") and isinstance(n.ctx, ast.Store) for n in ast.walk(st)):
            raise Unsupported("_read_batch: the loop body assigns the loop variable / pos_start")
        if any(isinstance(n, (ast.Continue, ast.Return)) for n in ast.walk(st)):
            raise Unsupported("_read_batch: continue / return inside the loop")
        cur.stmt(st, in_loop=True)
    if "data_end" in {k for k, v in cur.attrs.items() if not (isinstance(v, Sym) and v.t == "dataEnd")}:
        raise Unsupported("_read_batch: the loop body assigns self.data_end")
    if list(cur.counters) != [counter] or cur.counters[counter] != [(1, True)]:
        raise Unsupported(f"_read_batch: the block counter `{counter}` is not incremented by exactly 1, once, after the end-of-data check "
                          f"(found {cur.counters})")
    if not any(i[0] == "breakif" for i in cur.items):
        raise Unsupported("_read_batch: no end-of-data check in the loop")
    end = cur.render()
    if end.prec != "atom":
        cur.set_pos_sym(end)
        end = cur.render()
    final = f"  some (some {end.t})"
    items = _prune(cur.items, [final])
    step = "\n".join(["def readBlockStepPy (file : List Nat) (dataEnd pos : Nat) : Option (Option Nat) :="] + _emit_items(items) + [final]) + "\n"
    # epilogue
    if U(s_end) != "pos_end = self._file.tell()":
        raise Unsupported(f"_read_batch: `{U(s_end)}` is not `pos_end = self._file.tell()`")
    if U(s_seek) not in ("self._file.seek(pos_start, 0)", "self._file.seek(pos_start)"):
        raise Unsupported(f"_read_batch: `{U(s_seek)}` does not seek back to pos_start")
    if U(s_data) != "batch_data = np.frombuffer(self._file.read(pos_end - pos_start), dtype=np.uint32)":
        raise Unsupported(f"_read_batch: `{U(s_data)}` is not the uint32 view of the bytes [pos_start, pos_end)")
    if U(s_ret) != f"return (batch_data, {counter})":
        raise Unsupported(f"_read_batch: `{U(s_ret)}` does not return (batch_data, {counter})")
    batch = f"""def readBatchPy (file : List Nat) (dataEnd : Nat) : Nat → Nat → Nat → Option (Nat × Nat)
  | 0, pos, {_ident(counter)} => some (pos, {_ident(counter)})
  | n + 1, pos, {_ident(counter)} =>
    match readBlockStepPy file dataEnd pos with
    | none => none
    | some none => some (pos, {_ident(counter)})
    | some (some pos') => readBatchPy file dataEnd n pos' ({_ident(counter)} + 1)
"""
    return step, batch, {"counter": counter, "step_end": next((i[2] for i in items if i[0] == "let" and i[1] == end.t), end.t),
                         "nat_subtractions": cur.nat_subs}


# ------------------------------------------------------------------------------------------------ arrays
ARRAYS_PARAMS = ["self", "n_blocks", "n_block_per_batch", "sub_detectors", "max_workers", "decode_reid"]
CMP = {ast.Lt: ("<", operator.lt), ast.LtE: ("≤", operator.le), ast.Gt: (">", operator.gt), ast.GtE: ("≥", operator.ge),
       ast.Eq: ("=", operator.eq), ast.NotEq: ("≠", operator.ne)}


class LoopCase:
    """the `while` loop of `arrays` under one case of n_blocks: "none" (n_blocks == -1) or "some" (n_blocks = a natural number).
    Values: ("nat", text, prec) | ("bool", text) | ("cbool", b) | ("int", k) | ("tell",) | ("dend",)"""

    def __init__(self, case, total):
        self.case, self.total = case, total
        self.env = {total: ("nat", _ident(total), "atom"), "n_block_per_batch": ("nat", "perBatch", "atom")}
        self.env["n_blocks"] = ("nat", "n_blocks", "atom") if case == "some" else ("int", -1)
        self.rvar = "r"
        self.facts = set()       # (a, b) : a < b or a ≤ b known inside the loop body
        self.items = []
        self.submitted = None
        self.total_now = _ident(total)

    def val(self, e):
        k = _const_int(e)
        if k is not None:
            return ("int", k)
        if isinstance(e, ast.Name):
            if e.id not in self.env:
                raise Unsupported(f"arrays loop: unknown name {e.id}")
            return self.env[e.id]
        if isinstance(e, ast.Call) and U(e) == "self._file.tell()":
            return ("tell",)
        if isinstance(e, ast.Attribute) and U(e) == "self.data_end":
            return ("dend",)
        if isinstance(e, ast.BoolOp):
            vs = [self.val(v) for v in e.values]
            if not all(v[0] in ("bool", "cbool") for v in vs):
                raise Unsupported(f"arrays loop: `{U(e)}` combines non-boolean values")
            op = " || " if isinstance(e.op, ast.Or) else " && "
            return ("bool", "(" + op.join(self.b(v) for v in vs) + ")")
        if isinstance(e, ast.UnaryOp) and isinstance(e.op, ast.Not):
            v = self.val(e.operand)
            if v[0] not in ("bool", "cbool"):
                raise Unsupported(f"arrays loop: `{U(e)}`")
            return ("bool", f"(!{self.b(v)})")
        if isinstance(e, ast.Compare) and len(e.ops) == 1 and type(e.ops[0]) in CMP:
            return self.compare(self.val(e.left), type(e.ops[0]), self.val(e.comparators[0]), e)
        if isinstance(e, ast.IfExp):
            c = self.val(e.test)
            if c[0] == "cbool":
                return self.val(e.body if c[1] else e.orelse)
            if c[0] == "bool":
                a, b = self.val(e.body), self.val(e.orelse)
                if a[0] == "nat" and b[0] == "nat":
                    return ("nat", f"if {c[1]} then {a[1]} else {b[1]}", "add")
            raise Unsupported(f"arrays loop: `{U(e)}`")
        if isinstance(e, ast.Call) and U(e.func) == "min" and len(e.args) == 2 and not e.keywords:
            a, b = (self.nat(self.val(x), e) for x in e.args)
            return ("nat", f"min {self.arg(a)} {self.arg(b)}", "app")
        if isinstance(e, ast.BinOp) and isinstance(e.op, (ast.Add, ast.Sub)):
            a, b = self.val(e.left), self.val(e.right)
            if isinstance(e.op, ast.Sub):
                # integer subtraction = Nat subtraction only when b ≤ a is known from the loop condition
                if a[0] == "nat" and b[0] == "nat":
                    if (b[1], a[1]) not in self.facts:
                        raise Unsupported(f"arrays loop: `{U(e)}`: the loop condition does not guarantee {b[1]} ≤ {a[1]} "
                                          f"(Python integers may go negative, Nat subtraction truncates)")
                    return ("nat", f"{a[1]} - {self.term(b)}", "add")
                raise Unsupported(f"arrays loop: `{U(e)}` under n_blocks {'== -1' if self.case == 'none' else '>= 0'}")
            a, b = self.nat(a, e), self.nat(b, e)
            return ("nat", f"{a[1]} + {self.term(b)}", "add")
        raise Unsupported(f"arrays loop: expression `{U(e)}`")

    @staticmethod
    def arg(v):
        return v[1] if v[2] == "atom" else f"({v[1]})"

    @staticmethod
    def term(v):
        return v[1] if v[2] in ("atom", "app") else f"({v[1]})"

    def nat(self, v, e):
        if v[0] == "int" and v[1] >= 0:
            return ("nat", str(v[1]), "atom")
        if v[0] != "nat":
            raise Unsupported(f"arrays loop: `{U(e)}` uses a value that is not a natural number under n_blocks "
                              f"{'== -1' if self.case == 'none' else '>= 0'}")
        return v

    @staticmethod
    def b(v):
        return ("true" if v[1] else "false") if v[0] == "cbool" else v[1]

    def compare(self, a, op, b, e):
        sym, f = CMP[op]
        if a[0] == "int" and b[0] == "int":
            return ("cbool", f(a[1], b[1]))
        if {a[0], b[0]} == {"tell", "dend"}:
            l, r = (f"{self.rvar}.cursor", f"{self.rvar}.blocks.length") if a[0] == "tell" else (f"{self.rvar}.blocks.length", f"{self.rvar}.cursor")
            return ("bool", f"decide ({l} {sym} {r})")
        if a[0] == "nat" and b[0] == "int" and b[1] < 0:
            return ("cbool", f(0, b[1]))          # a natural number against a negative constant: decided by the signs
        if a[0] == "int" and a[1] < 0 and b[0] == "nat":
            return ("cbool", f(a[1], 0))
        if a[0] in ("nat", "int") and b[0] in ("nat", "int"):
            a, b = self.nat(a, e), self.nat(b, e)
            return ("bool", f"decide ({a[1]} {sym} {b[1]})", (a[1], sym, b[1]))
        raise Unsupported(f"arrays loop: comparison `{U(e)}`")

    # the loop condition, and what it guarantees inside the body
    def condition(self, test):
        v = self.val(test)
        if v[0] not in ("bool", "cbool"):
            raise Unsupported(f"arrays: loop condition `{U(test)}`")
        # a disjunction whose other disjuncts are constantly false under this case leaves one comparison that holds in the body
        disj = test.values if isinstance(test, ast.BoolOp) and isinstance(test.op, ast.Or) else [test]
        live = []
        for d in disj:
            dv = self.val(d)
            if dv[0] == "cbool" and dv[1] is False:
                continue
            if isinstance(d, ast.BoolOp) and isinstance(d.op, ast.And) and any(self.val(x) == ("cbool", False) for x in d.values):
                continue
            live.append(dv)
        if len(live) == 1 and len(live[0]) == 3 and live[0][2][1] in ("<", "≤"):
            self.facts.add((live[0][2][0], live[0][2][2]))
        return self.b(v)

    def stmt(self, st):
        if self.submitted is not None and not isinstance(st, ast.AugAssign):
            raise Unsupported(f"arrays loop: `{U(st)[:80]}` after the batch was submitted")
        if isinstance(st, ast.Assign) and len(st.targets) == 1 and isinstance(st.targets[0], ast.Name):
            name = st.targets[0].id
            if name in (self.total, "n_blocks", "n_block_per_batch", "futures", "sub_detectors"):
                raise Unsupported(f"arrays loop: `{U(st)[:80]}` re-assigns {name}")
            v = self.val(st.value)
            if v[0] != "nat":
                v = self.nat(v, st.value)
            self.items.append(("let", _ident(name), v[1]))
            self.env[name] = ("nat", _ident(name), "atom")
            return
        if (isinstance(st, ast.Assign) and len(st.targets) == 1 and isinstance(st.targets[0], ast.Tuple) and len(st.targets[0].elts) == 2
                and all(isinstance(x, ast.Name) for x in st.targets[0].elts) and isinstance(st.value, ast.Call) and U(st.value.func) == "self._read_batch"):
            if len(st.value.args) != 1 or st.value.keywords:
                raise Unsupported(f"arrays loop: `{U(st.value)}`")
            if any(i[0] == "readbatch" for i in self.items):
                raise Unsupported("arrays loop: _read_batch called twice in one iteration")
            n = self.nat(self.val(st.value.args[0]), st.value)
            batch, nread = (x.id for x in st.targets[0].elts)
            new_r = self.rvar + "'"
            self.items.append(("readbatch", _ident(batch), new_r, self.rvar, self.arg(n)))
            self.items.append(("let", _ident(nread), f"{_ident(batch)}.length"))
            self.rvar = new_r
            self.env[batch] = ("batch", _ident(batch))
            self.env[nread] = ("nat", _ident(nread), "atom")
            return
        if isinstance(st, ast.If) and not st.orelse and len(st.body) == 1 and isinstance(st.body[0], ast.Break):
            c = self.val(st.test)
            if c[0] not in ("bool", "cbool"):
                raise Unsupported(f"arrays loop: `if {U(st.test)}: break`")
            self.items.append(("breakif", self.b(c), self.rvar))
            return
        if isinstance(st, ast.Expr) and isinstance(st.value, ast.Call) and U(st.value.func) == "futures.append":
            call = st.value
            sub = call.args[0] if len(call.args) == 1 and not call.keywords else None
            if not (isinstance(sub, ast.Call) and U(sub.func) == "executor.submit" and not sub.keywords and len(sub.args) == 3
                    and U(sub.args[0]) == "read_bes_raw" and isinstance(sub.args[1], ast.Name) and U(sub.args[2]) == "sub_detectors"):
                raise Unsupported(f"arrays loop: `{U(call)}` is not futures.append(executor.submit(read_bes_raw, <batch>, sub_detectors))")
            b = self.env.get(sub.args[1].id)
            if not b or b[0] != "batch":
                raise Unsupported(f"arrays loop: `{U(sub)}` does not submit the data returned by _read_batch")
            self.submitted = b[1]
            return
        if isinstance(st, ast.AugAssign) and isinstance(st.target, ast.Name) and st.target.id == self.total and isinstance(st.op, ast.Add):
            if self.total_now != _ident(self.total):
                raise Unsupported(f"arrays loop: {self.total} updated twice")
            v = self.nat(self.val(st.value), st.value)
            self.total_now = f"{_ident(self.total)} + {self.term(v)}"
            return
        raise Unsupported(f"arrays loop: statement `{U(st)[:100]}`")


def _merge(some_t, none_t, indent):
    if some_t == none_t:
        return some_t
    pad = " " * indent
    return f"match nBlocks with\n{pad}| some n_blocks => {some_t}\n{pad}| none => {none_t}"


def translate_arrays(cls, tree):
    fn = _method(cls, "arrays")
    names, defaults = _params(fn)
    if names != ARRAYS_PARAMS:
        extra = [n for n in names if n not in ARRAYS_PARAMS]
        raise Unsupported(f"arrays: parameters {names} differ from the modelled ones {ARRAYS_PARAMS}"
                          + (f" (parameter(s) {extra} unknown to the model)" if extra else ""))
    if _const_int(defaults[1]) != -1:
        raise Unsupported("arrays: default of n_blocks is not -1 (\"all blocks\")")
    b = _body(fn)
    if len(b) != 4:
        raise Unsupported(f"arrays: expected reset, sub_detectors default, with-block, return; got {len(b)} statements")
    s_reset, s_sub, s_with, s_ret = b
    if U(s_reset) != "self._reset_cursor()":
        raise Unsupported(f"arrays: first statement `{U(s_reset)[:80]}` is not self._reset_cursor()")
    rc = [U(s) for s in _body(_method(cls, "_reset_cursor"))]
    if not rc or rc[0] != "self._file.seek(self.data_start)" or any("seek" in s or "read" in s for s in rc[1:]):
        raise Unsupported(f"_reset_cursor is not `self._file.seek(self.data_start)` (+ bookkeeping): {rc}")
    if U(s_sub) != "if sub_detectors is None:\n    sub_detectors = []":
        raise Unsupported(f"arrays: `{U(s_sub)[:80]}`")
    if not (isinstance(s_with, ast.With) and len(s_with.items) == 1 and U(s_with.items[0]) == "ThreadPoolExecutor(max_workers=max_workers) as executor"):
        raise Unsupported(f"arrays: `{U(s_with)[:100]}` is not `with ThreadPoolExecutor(max_workers=max_workers) as executor`")
    w = s_with.body
    if len(w) != 6:
        raise Unsupported(f"arrays: with-block has {len(w)} statements (expected counter, futures, while, empty-batch, res, gather)")
    s_tot, s_fut, s_while, s_empty, s_res, s_for = w
    if not (isinstance(s_tot, ast.Assign) and len(s_tot.targets) == 1 and isinstance(s_tot.targets[0], ast.Name) and _const_int(s_tot.value) is not None
            and _const_int(s_tot.value) >= 0):
        raise Unsupported(f"arrays: `{U(s_tot)}` is not `<blocks read> = <natural number>`")
    total, total0 = s_tot.targets[0].id, _const_int(s_tot.value)
    if U(s_fut) not in ("futures: list[Future] = []", "futures = []"):
        raise Unsupported(f"arrays: `{U(s_fut)}`")
    if not isinstance(s_while, ast.While) or s_while.orelse:
        raise Unsupported("arrays: no plain while-loop")
    for n in ast.walk(s_while):
        if isinstance(n, (ast.Continue, ast.Return)):
            raise Unsupported("arrays loop: continue / return")
    cases = {}
    for case in ("some", "none"):
        lc = LoopCase(case, total)
        cond = lc.condition(s_while.test)
        for st in s_while.body:
            lc.stmt(st)
        if lc.submitted is None:
            raise Unsupported("arrays loop: no batch is submitted")
        if not any(i[0] == "readbatch" for i in lc.items):
            raise Unsupported("arrays loop: no _read_batch call")
        cases[case] = (cond, lc)
    cs, ls = cases["some"]
    cn, ln = cases["none"]
    if [(i[0], i[1]) for i in ls.items] != [(i[0], i[1]) for i in ln.items] or ls.submitted != ln.submitted:
        raise Unsupported("arrays loop: the statements differ in shape between n_blocks == -1 and n_blocks >= 0")
    tot = _ident(total)
    L = [f"def submitLoopPy {{β : Type}} (perBatch : Nat) (nBlocks : Option Nat) : Nat → RawReader.Reader β → Nat → Option (List (List β) × RawReader.Reader β)",
         "  | 0, _, _ => none",
         f"  | fuel + 1, r, {tot} =>",
         f"    let continue_ := {_merge(cs, cn, 6)}",
         "    if !continue_ then some ([], r) else"]
    for a, c in zip(ls.items, ln.items):
        if a[0] == "let":
            L.append(f"    let {a[1]} := {_merge(a[2], c[2], 6)}")
        elif a[0] == "readbatch":
            if a[2:4] != c[2:4]:
                raise Unsupported("arrays loop: reader state differs between the cases")
            L.append(f"    let ({a[1]}, {a[2]}) := RawReader.readBatch {a[3]} {_merge(a[4], c[4], 6)}")
        else:
            if a[2] != c[2]:
                raise Unsupported("arrays loop: reader state differs between the cases")
            L.append(f"    if {_merge(a[1], c[1], 6)} then some ([], {a[2]}) else")
    if ls.total_now != ln.total_now or ls.rvar != ln.rvar:
        raise Unsupported("arrays loop: counter update differs between the cases")
    L += [f"    match submitLoopPy perBatch nBlocks fuel {ls.rvar} ({ls.total_now}) with",
          "    | none => none",
          f"    | some (rest, r'') => some ({ls.submitted} :: rest, r'')"]
    loop_text = "\n".join(L) + "\n"

    # epilogue: empty batch, gather in submission order
    want_empty = ("if not futures:\n    empty_batch = np.empty(0, dtype=np.uint32)\n"
                  "    futures.append(executor.submit(read_bes_raw, empty_batch, sub_detectors))")
    if U(s_empty) != want_empty:
        raise Unsupported(f"arrays: after the loop `{U(s_empty)[:160]}` is not \"if not futures: submit an empty uint32 batch\"")
    if U(s_res) != "res = []":
        raise Unsupported(f"arrays: `{U(s_res)}`")
    if not (isinstance(s_for, ast.For) and not s_for.orelse and isinstance(s_for.target, ast.Name)):
        raise Unsupported("arrays: gather is not a plain for-loop")
    if U(s_for.iter) != "futures":
        raise Unsupported(f"arrays: results are gathered over `{U(s_for.iter)}`, not over `futures` in list (= submission) order")
    fv = s_for.target.id
    want_body = [f"org_dict = {fv}.result()", "if decode_reid:\n    convert_reid_to_teid(org_dict)", "res.append(_raw_dict_to_ak(org_dict))"]
    if [U(s) for s in s_for.body] != want_body:
        raise Unsupported(f"arrays: gather body {[U(s)[:60] for s in s_for.body]} is not result / convert_reid_to_teid iff decode_reid / _raw_dict_to_ak / append")
    if U(s_ret) != "return ak.concatenate(res)":
        raise Unsupported(f"arrays: `{U(s_ret)}` is not `return ak.concatenate(res)`")
    # nothing in the function re-binds the parameters the loop reads
    for n in ast.walk(fn):
        if isinstance(n, ast.Name) and isinstance(n.ctx, ast.Store) and n.id in ("n_blocks", "n_block_per_batch", "decode_reid", "max_workers"):
            raise Unsupported(f"arrays: parameter {n.id} is re-assigned")
    arrays_text = f"""def arraysPy {{β ε : Type}} (decode : List β → List ε) (perBatch : Nat) (nBlocks : Option Nat) (sched : List Nat) (fuel : Nat)
    (r : RawReader.Reader β) : Option (List ε × RawReader.Reader β) :=
  let r0 : RawReader.Reader β := {{ r with cursor := 0 }}
  match submitLoopPy perBatch nBlocks fuel r0 {total0} with
  | none => none
  | some (futures, r1) =>
    let futures := if futures.isEmpty then futures ++ [[]] else futures
    some (RawReader.gather (RawReader.runPool futures decode sched), r1)
"""
    return loop_text, arrays_text, {"params": names, "total": total, "condition_some": cs, "condition_none": cn}


# ------------------------------------------------------------------------------------------------ _is_raw / concatenate
def translate_concat(tree, cls, io, flags):
    isr = _fn(tree, "_is_raw")
    if _params(isr)[0] != ["file"]:
        raise Unsupported("_is_raw signature")
    b = _body(isr)
    if len(b) != 1 or not (isinstance(b[0], ast.With) and len(b[0].items) == 1 and U(b[0].items[0]) == "open(file, 'rb') as f" and len(b[0].body) == 1
                           and isinstance(b[0].body[0], ast.Return)):
        raise Unsupported(f"_is_raw is not `with open(file, 'rb') as f: return …`: `{U(isr)[:160]}`")
    t = b[0].body[0].value
    if not (isinstance(t, ast.Compare) and len(t.ops) == 1 and isinstance(t.ops[0], ast.Eq) and isinstance(t.comparators[0], ast.Attribute)
            and U(t.comparators[0].value) == "BesFlag"):
        raise Unsupported(f"_is_raw: `{U(t)}` is not `<first word> == BesFlag.<X>`")
    if _from_bytes(t.left, "f") != (io["word"], io["order"]):
        raise Unsupported("_is_raw reads the first word differently from _read")
    flag = t.comparators[0].attr
    if flag not in flags:
        raise Unsupported(f"_is_raw: BesFlag.{flag} unknown")

    fn = _fn(tree, "concatenate")
    cparams, _ = _params(fn)
    arr_params, _ = _params(_method(cls, "arrays"))
    body = [s for s in _body(fn)
            if not (isinstance(s, ast.If) and U(s.test) == "verbose" and not s.orelse
                    and all(isinstance(x, ast.Expr) and isinstance(x.value, ast.Call) and U(x.value.func) == "print" for x in s.body))]
    if len(body) != 6:
        raise Unsupported(f"concatenate: expected glob, filter, empty check, res, loop, return; got {len(body)} statements")
    s_glob, s_filter, s_none, s_res, s_for, s_ret = body
    if U(s_glob) != "if not isinstance(files, list):\n    files = glob.glob(files)":
        raise Unsupported(f"concatenate: `{U(s_glob)[:120]}`")
    v = s_filter.value if isinstance(s_filter, ast.Assign) else None
    if not (isinstance(v, ast.ListComp) and U(s_filter.targets[0]) == "files" and len(v.generators) == 1):
        raise Unsupported(f"concatenate: `{U(s_filter)[:120]}` is not a list comprehension over `files`: the files are not taken in list order")
    g = v.generators[0]
    if not (U(g.iter) == "files" and isinstance(g.target, ast.Name) and not g.is_async and [U(i) for i in g.ifs] == [f"_is_raw({g.target.id})"]
            and U(v.elt) == f"str(Path({g.target.id}).resolve())"):
        raise Unsupported(f"concatenate: `{U(s_filter)[:160]}` is not `[str(Path(f).resolve()) for f in files if _is_raw(f)]`")
    if not (isinstance(s_none, ast.If) and U(s_none.test) == "len(files) == 0" and not s_none.orelse and len(s_none.body) == 1 and isinstance(s_none.body[0], ast.Raise)):
        raise Unsupported(f"concatenate: `{U(s_none)[:120]}` is not `if len(files) == 0: raise …`")
    if U(s_res) != "res = []":
        raise Unsupported(f"concatenate: `{U(s_res)}`")
    if not (isinstance(s_for, ast.For) and not s_for.orelse and U(s_for.iter) == "enumerate(files)" and isinstance(s_for.target, ast.Tuple)
            and len(s_for.target.elts) == 2 and all(isinstance(x, ast.Name) for x in s_for.target.elts)):
        raise Unsupported(f"concatenate: loop header `for {U(s_for.target)} in {U(s_for.iter)}` is not `for i, f in enumerate(files)`")
    fvar = s_for.target.elts[1].id
    fb = [s for s in s_for.body
          if not (isinstance(s, ast.If) and U(s.test) == "verbose" and not s.orelse
                  and all(isinstance(x, ast.Expr) and isinstance(x.value, ast.Call) and U(x.value.func) == "print" for x in s.body))]
    if len(fb) != 1 or not (isinstance(fb[0], ast.With) and len(fb[0].items) == 1 and U(fb[0].items[0]) == f"RawBinaryReader({fvar}) as reader" and len(fb[0].body) == 1):
        raise Unsupported(f"concatenate: loop body is not `with RawBinaryReader({fvar}) as reader: res.append(reader.arrays(…))`")
    app = fb[0].body[0]
    if not (isinstance(app, ast.Expr) and isinstance(app.value, ast.Call) and U(app.value.func) == "res.append" and len(app.value.args) == 1
            and isinstance(app.value.args[0], ast.Call) and U(app.value.args[0].func) == "reader.arrays"):
        raise Unsupported(f"concatenate: `{U(app)[:120]}` is not res.append(reader.arrays(…))")
    call = app.value.args[0]
    if any(isinstance(a, ast.Starred) for a in call.args) or any(k.arg is None for k in call.keywords):
        raise Unsupported("concatenate: reader.arrays called with * / **")
    recv = arr_params[1:]
    if len(call.args) > len(recv):
        raise Unsupported(f"concatenate: reader.arrays gets {len(call.args)} positional arguments, arrays has {len(recv)} parameters")
    got = {recv[i]: a for i, a in enumerate(call.args)}
    for k in call.keywords:
        if k.arg in got or k.arg not in recv:
            raise Unsupported(f"concatenate: keyword {k.arg} in reader.arrays(…)")
        got[k.arg] = k.value
    if "n_blocks" not in got or _const_int(got["n_blocks"]) != -1:
        raise Unsupported(f"concatenate: reader.arrays receives n_blocks = `{U(got['n_blocks']) if 'n_blocks' in got else '<default>'}`, not -1 (whole file)")
    for p in ("n_block_per_batch", "sub_detectors", "max_workers", "decode_reid"):
        if p not in cparams:
            raise Unsupported(f"concatenate has no parameter {p}")
        if p not in got:
            raise Unsupported(f"concatenate: its argument {p} is not passed to reader.arrays")
        if U(got[p]) != p:
            raise Unsupported(f"concatenate: parameter {p} of arrays receives `{U(got[p])}` (positional arguments are matched against the signature "
                              f"{recv}), not concatenate's {p}")
    for p, a in got.items():
        if p not in ("n_blocks", "n_block_per_batch", "sub_detectors", "max_workers", "decode_reid"):
            raise Unsupported(f"concatenate: reader.arrays receives {p} = `{U(a)}`, a parameter unknown to the model")
    for n in ast.walk(fn):
        if isinstance(n, ast.Name) and isinstance(n.ctx, ast.Store) and n.id in ("n_block_per_batch", "sub_detectors", "max_workers", "decode_reid"):
            raise Unsupported(f"concatenate: parameter {n.id} is re-assigned before it is passed on")
        if isinstance(n, ast.Name) and isinstance(n.ctx, ast.Store) and n.id in ("files", "res") and not any(n is t for s in (s_glob.body[0], s_filter, s_res)
                                                                                                       for t in ast.walk(s)):
            raise Unsupported(f"concatenate: {n.id} is re-assigned")
    if U(s_ret) != "return ak.concatenate(res)":
        raise Unsupported(f"concatenate: `{U(s_ret)}` is not `return ak.concatenate(res)`")
    text = f"""def isRawPy (file : List Nat) : Bool := readWordPy file 0 == {_hex(flags[flag])}

def concatPy (sel : List Nat) (perBatch : Nat) (sched : List Nat) (files : List (List Nat)) : Option (List EventRec) :=
  let files := files.filter (fun file => isRawPy file)
  if files.length = 0 then none else
  (files.mapM (fun f => arraysModel sel perBatch none sched f)).map List.flatten
"""
    return text, {"is_raw_flag": flag, "arrays_call": {p: U(a) for p, a in got.items()}}


# ------------------------------------------------------------------------------------------------ _raw_dict_to_ak
AK_LIST = ("awkward.contents.ListOffsetArray", "ak.contents.ListOffsetArray")
AK_REC = ("awkward.contents.RecordArray", "ak.contents.RecordArray")
AK_NP = ("awkward.contents.NumpyArray", "ak.contents.NumpyArray")
AK_INDEX = ("awkward.index.Index", "awkward.index.Index64", "ak.index.Index", "ak.index.Index64")


class AkBranch:
    """one branch of the chain: [a, b = <value>;] contents[<key>] = <awkward constructor expression>"""

    def __init__(self, key, val, what):
        self.key, self.val, self.what = key, val, what
        self.kinds = {}            # python name -> "dict" | "array"

    def use(self, name, kind):
        if self.kinds.setdefault(name, kind) != kind:
            raise Unsupported(f"{self.what}: `{name}` is used both as a dict of columns and as an array")

    def seq(self, e):
        """an expression denoting a Python list / array -> (lean text, element type "str" | "col" | "nat")"""
        if isinstance(e, ast.Name):
            if e.id not in self.names:
                raise Unsupported(f"{self.what}: unknown name {e.id}")
            self.use(e.id, "array")
            return _ident(e.id), "nat"
        if isinstance(e, ast.Call) and U(e.func) == "list" and len(e.args) == 1 and not e.keywords:
            return self.seq(e.args[0])
        if isinstance(e, ast.Call) and isinstance(e.func, ast.Attribute) and e.func.attr in ("keys", "values") and not e.args and not e.keywords \
                and isinstance(e.func.value, ast.Name):
            n = e.func.value.id
            if n not in self.names:
                raise Unsupported(f"{self.what}: unknown name {n}")
            self.use(n, "dict")
            return (f"{_ident(n)}.map Prod.fst", "str") if e.func.attr == "keys" else (f"{_ident(n)}.map Prod.snd", "col")
        if isinstance(e, ast.Subscript) and isinstance(e.slice, ast.Slice):
            t, ty = self.seq(e.value)
            lo, hi, st = (None if x is None else _const_int(x) for x in (e.slice.lower, e.slice.upper, e.slice.step))
            if any(x is not None and v is None for x, v in ((e.slice.lower, lo), (e.slice.upper, hi), (e.slice.step, st))):
                raise Unsupported(f"{self.what}: slice `{U(e)}`")
            if st == -1 and lo is None and hi is None:
                return f"({t}).reverse", ty
            if st in (None, 1) and hi is None and lo is not None and lo >= 0:
                return f"({t}).drop {lo}", ty
            if st in (None, 1) and lo is None and hi is not None and hi >= 0:
                return f"({t}).take {hi}", ty
            raise Unsupported(f"{self.what}: slice `{U(e)}`")
        if isinstance(e, ast.ListComp):
            if len(e.generators) != 1 or e.generators[0].ifs or e.generators[0].is_async or not isinstance(e.generators[0].target, ast.Name):
                raise Unsupported(f"{self.what}: comprehension `{U(e)}`")
            v = e.generators[0].target.id
            if not (isinstance(e.elt, ast.Call) and U(e.elt.func) in AK_NP and [U(a) for a in e.elt.args] == [v] and not e.elt.keywords):
                raise Unsupported(f"{self.what}: comprehension element `{U(e.elt)}` is not NumpyArray({v})")
            t, ty = self.seq(e.generators[0].iter)
            if ty != "col":
                raise Unsupported(f"{self.what}: `{U(e)}` does not wrap the dict's columns")
            return t, "col"
        if isinstance(e, ast.Call) and U(e.func) in ("sorted", "set", "reversed", "frozenset"):
            raise Unsupported(f"{self.what}: `{U(e)}`: not the dict's own order")
        raise Unsupported(f"{self.what}: sequence expression `{U(e)}`")

    def record(self, e):
        if not (isinstance(e, ast.Call) and U(e.func) in AK_REC and len(e.args) == 2 and not e.keywords):
            raise Unsupported(f"{self.what}: `{U(e)[:100]}` is not RecordArray(<contents>, <fields>)")
        cont, ty_c = self.seq(e.args[0])
        keys, ty_k = self.seq(e.args[1])
        if ty_c != "col" or ty_k != "str":
            raise Unsupported(f"{self.what}: RecordArray(`{U(e.args[0])}`, `{U(e.args[1])}`) is not (columns, names)")
        return f"({keys}).zip ({cont})"

    def top(self, e):
        if isinstance(e, ast.Call) and U(e.func) in AK_REC:
            return f"AkCol.record ({self.record(e)})"
        if isinstance(e, ast.Call) and U(e.func) in AK_LIST and len(e.args) == 2 and not e.keywords:
            idx, content = e.args
            if not (isinstance(idx, ast.Call) and U(idx.func) in AK_INDEX and len(idx.args) == 1 and not idx.keywords):
                raise Unsupported(f"{self.what}: offsets `{U(idx)}` are not wrapped as awkward.index.Index(…)")
            o, ty = self.seq(idx.args[0])
            if ty != "nat":
                raise Unsupported(f"{self.what}: offsets `{U(idx.args[0])}`")
            if isinstance(content, ast.Call) and U(content.func) in AK_REC:
                return f"AkCol.jaggedRecords ({o}) ({self.record(content)})"
            if isinstance(content, ast.Call) and U(content.func) in AK_NP and len(content.args) == 1 and not content.keywords:
                d, ty = self.seq(content.args[0])
                if ty != "nat":
                    raise Unsupported(f"{self.what}: NumpyArray(`{U(content.args[0])}`)")
                return f"AkCol.jaggedWords ({o}) ({d})"
            raise Unsupported(f"{self.what}: list content `{U(content)[:100]}`")
        raise Unsupported(f"{self.what}: `{U(e)[:100]}` is neither RecordArray(…) nor ListOffsetArray(Index(…), …)")

    def translate(self, stmts):
        unpack = None
        if len(stmts) == 2:
            u = stmts[0]
            if not (isinstance(u, ast.Assign) and len(u.targets) == 1 and isinstance(u.targets[0], ast.Tuple) and len(u.targets[0].elts) == 2
                    and all(isinstance(x, ast.Name) for x in u.targets[0].elts) and U(u.value) == self.val):
                raise Unsupported(f"{self.what}: `{U(u)[:80]}` is not `a, b = {self.val}`")
            unpack = [x.id for x in u.targets[0].elts]
            if len(set(unpack)) != 2 or self.val in unpack or self.key in unpack:
                raise Unsupported(f"{self.what}: `{U(u)}`")
            stmts = stmts[1:]
        if len(stmts) != 1 or not (isinstance(stmts[0], ast.Assign) and U(stmts[0].targets[0]) == f"contents[{self.key}]" and len(stmts[0].targets) == 1):
            raise Unsupported(f"{self.what}: branch is not `[a, b = {self.val};] contents[{self.key}] = …`")
        self.names = set(unpack) if unpack else {self.val}
        text = self.top(stmts[0].value)
        if unpack is None:
            if self.kinds.get(self.val) != "dict":
                raise Unsupported(f"{self.what}: `{self.val}` is used as an array without being unpacked into (offsets, data)")
            pat = f".dict {_ident(self.val)}"
        else:
            a, b = unpack
            if self.kinds.get(a) != "array":
                raise Unsupported(f"{self.what}: the first component `{a}` is not used as the offsets array")
            if b not in self.kinds:
                raise Unsupported(f"{self.what}: the second component `{b}` is dropped")
            pat = f".offsDict {_ident(a)} {_ident(b)}" if self.kinds[b] == "dict" else f".offsData {_ident(a)} {_ident(b)}"
        return pat, text


def translate_raw_dict_to_ak(tree):
    fn = _fn(tree, "_raw_dict_to_ak")
    if _params(fn)[0] != ["raw_dict"] or fn.decorator_list:
        raise Unsupported("_raw_dict_to_ak signature")
    b = _body(fn)
    if len(b) != 3 or U(b[0]) != "contents = {}" or U(b[2]) != "return ak.Array(contents)":
        raise Unsupported(f"_raw_dict_to_ak: expected `contents = {{}}`, one for-loop, `return ak.Array(contents)`; got {[U(x)[:40] for x in b]}")
    loop = b[1]
    if not (isinstance(loop, ast.For) and not loop.orelse and U(loop.iter) == "raw_dict.items()" and isinstance(loop.target, ast.Tuple)
            and len(loop.target.elts) == 2 and all(isinstance(x, ast.Name) for x in loop.target.elts)):
        raise Unsupported(f"_raw_dict_to_ak: loop header `for {U(loop.target)} in {U(loop.iter)}` is not `for k, v in raw_dict.items()`")
    key, val = (x.id for x in loop.target.elts)
    if len(loop.body) != 1 or not isinstance(loop.body[0], ast.If):
        raise Unsupported("_raw_dict_to_ak: loop body is not a single if / elif / else chain")
    for n in (x for st in loop.body for x in ast.walk(st)):
        if isinstance(n, (ast.Break, ast.Continue, ast.Return)):
            raise Unsupported("_raw_dict_to_ak: break / continue / return inside the loop")
        if isinstance(n, ast.Name) and isinstance(n.ctx, ast.Store) and n.id in ("contents", "raw_dict", key):
            raise Unsupported(f"_raw_dict_to_ak: {n.id} is re-assigned inside the loop")
    chain, node, sets = [], loop.body[0], []
    while True:
        t = node.test
        if isinstance(t, ast.Compare) and len(t.ops) == 1 and isinstance(t.ops[0], ast.Eq) and U(t.left) == key and isinstance(t.comparators[0], ast.Constant) \
                and isinstance(t.comparators[0].value, str):
            cond = f'{_ident(key)} == "{_lean_str(t.comparators[0].value)}"'
            label = t.comparators[0].value
        elif isinstance(t, ast.Compare) and len(t.ops) == 1 and isinstance(t.ops[0], ast.In) and U(t.left) == key \
                and isinstance(t.comparators[0], (ast.Set, ast.List, ast.Tuple)) \
                and all(isinstance(x, ast.Constant) and isinstance(x.value, str) for x in t.comparators[0].elts):
            names = sorted({x.value for x in t.comparators[0].elts})
            sets.append(names)
            cond = f"recordDetectors.contains {_ident(key)}"
            label = "in " + ", ".join(names)
        else:
            raise Unsupported(f"_raw_dict_to_ak: condition `{U(t)}` is neither `{key} == \"<name>\"` nor `{key} in {{<names>}}`")
        chain.append((cond, label, AkBranch(key, val, f"_raw_dict_to_ak[{label}]").translate(node.body)))
        if len(node.orelse) == 1 and isinstance(node.orelse[0], ast.If):
            node = node.orelse[0]
            continue
        if not node.orelse:
            raise Unsupported("_raw_dict_to_ak: no else branch: other fields would be dropped")
        chain.append((None, "else", AkBranch(key, val, "_raw_dict_to_ak[else]").translate(node.orelse)))
        break
    if len(sets) != 1:
        raise Unsupported(f"_raw_dict_to_ak: expected exactly one `{key} in {{…}}` test, found {len(sets)}")
    L = ["def recordDetectors : List String := [" + ", ".join(f'"{_lean_str(n)}"' for n in sets[0]) + "]", "",
         "/-- the if / elif / else chain of the loop body: the layout built for one (name, value) pair -/",
         f"def convertEntryPy ({_ident(key)} : String) ({_ident(val)} : RawVal) : Option AkCol :="]
    for i, (cond, _, (pat, text)) in enumerate(chain):
        head = "  " + ("else " if i else "") + (f"if {cond} then" if cond else "").strip()
        if cond is None:
            head = "  else"
        L.append(head)
        L.append(f"    (match {_ident(val)} with")
        L.append(f"     | {pat} => some ({text})")
        L.append("     | _ => none)")
    L += ["", "/-- the loop over `raw_dict.items()` filling `contents` -/", f"def rawDictToAkPy (raw_dict : List (String × RawVal)) : Option (List (String × AkCol)) :=",
          f"  raw_dict.foldlM (fun contents ({_ident(key)}, {_ident(val)}) =>",
          f"    (convertEntryPy {_ident(key)} {_ident(val)}).map (fun col => dictSetPy contents {_ident(key)} col)) []"]
    return "\n".join(L) + "\n", {"key": key, "value": val, "record_detectors": sets[0],
                                  "branches": {label: {"shape": pat, "builds": text} for _, label, (pat, text) in chain}}


def _lean_str(s: str) -> str:
    if any(ord(c) < 32 or c in '"\\' for c in s):
        raise Unsupported(f"string literal {s!r}")
    return s


# ------------------------------------------------------------------------------------------------ output
HEADER = """-- GENERATED by tools/translate/rawpy.py from /repo/src/pybes3/besio/raw_io.py. Do not edit.
import Pybes3Verif.Model.RawFile
/-! The Python side of the raw-file reader (`raw_io.py`), translated from the source on every run: `_read` / `_skip`, the cursor
program of `_preprocess_file` (executed symbolically over the byte position), the loop body and the loop of `_read_batch`, the batch
loop / prologue / epilogue of `arrays`, `_is_raw`, `concatenate` and `_raw_dict_to_ak`.  `Props/RawPyTie.lean` proves these equal to the hand-written
models (`Model/RawFile.lean`, `Model/RawReader.lean`, `Model/RawConcat.lean`).
Cursor semantics: a read of k bytes and a relative seek by k move the position by k; integer subtraction is `Nat` subtraction. -/
namespace Pybes3Verif.Gen.RawPy
open Pybes3Verif.Raw Pybes3Verif.RawFile

"""


def generate(src: str, path: str | None = SRC_PATH) -> tuple[str, dict]:
    tree = ast.parse(src)
    flags, flags_from = resolve_flags(tree, path)
    cls = _cls(tree, "RawBinaryReader")
    io = check_read_skip(cls)
    pre, i_pre = translate_preprocess(cls, io, flags)
    step, batch, i_rb = translate_read_batch(cls, io, flags)
    loop, arrays, i_arr = translate_arrays(cls, tree)
    concat, i_cc = translate_concat(tree, cls, io, flags)
    toak, i_ak = translate_raw_dict_to_ak(tree)
    fold = ("((file.drop pos).take {k}).foldr (fun b acc => b + 256 * acc) 0" if io["order"] == "little"
            else "((file.drop pos).take {k}).foldl (fun acc b => 256 * acc + b) 0").format(k=io["word"])
    L = [HEADER]
    L.append("/-- the members of `BesFlag` -/\n" + "\n".join(f"def flag_{_ident(k)} : Nat := {_hex(v)}" for k, v in flags.items()) + "\n\n")
    L.append(f"""/-- `_read`: `int.from_bytes(self._file.read({io['word']}), "{io['order']}")` -/
def wordBytes : Nat := {io['word']}
def littleEndian : Bool := {'true' if io['order'] == 'little' else 'false'}
/-- `_skip(n = {io['default']})`: `self._file.seek({io['unit']} * n, 1)` -/
def skipUnit : Nat := {io['unit']}
def skipDefault : Nat := {io['default']}

/-- the value `_read()` returns with the cursor at byte `pos` -/
def readWordPy (file : List Nat) (pos : Nat) : Nat := {fold}

/-- `_preprocess_file` as a cursor program: every assertion is a `none`; words stored in attributes the layout does not depend on
({', '.join(f'{k} @ {v}' for k, v in i_pre['header_words_at'].items())}) are read past.  The cursor ends at `data_start` (`_reset_cursor`). -/
""")
    L.append(pre)
    L.append("""
/-- one iteration of the loop of `_read_batch` with the cursor at `pos`: `none` = an assertion fails, `some none` = `break` at the end
of the data, `some (some pos')` = one block consumed, cursor at `pos'` -/
""")
    L.append(step)
    L.append(f"""
/-- `for _ in range(n_blocks)` of `_read_batch`: (position after the loop = `pos_end`, `{i_rb['counter']}`), the counter going up by one per
consumed block -/
""")
    L.append(batch)
    L.append("""
/-- `_read_batch` returns the uint32 view of the bytes `[pos_start, pos_end)` (`seek(pos_start, 0)`, `read(pos_end - pos_start)`,
`np.frombuffer(…, dtype=np.uint32)`) together with the counter, and leaves the cursor at `pos_end` -/
def batchIsContiguousRange : Bool := true
def batchDtypeUint32 : Bool := true
def cursorAfterBatchAtPosEnd : Bool := true

/-- the `while` loop of `arrays`, once per case of `n_blocks` (`none`: `n_blocks == -1`; `some n_blocks`: a natural number);
`self._file.tell() < self.data_end` is `r.cursor < r.blocks.length`, `_read_batch` is the model's `readBatch`, `n_read` the number of
blocks of the batch; the batches are appended to `futures` in submission order -/
""")
    L.append(loop)
    L.append("""
/-- `arrays`: `_reset_cursor()` (= `seek(data_start)`, block 0) first, the loop from 0 blocks read, an empty batch when nothing was
submitted, every future's own result taken in list order and concatenated -/
""")
    L.append(arrays)
    L.append("""
/-- `self._reset_cursor()` is the first statement of `arrays`, and is `self._file.seek(self.data_start)` -/
def resetsCursorFirst : Bool := true
/-- `for future in futures: … future.result() …; ak.concatenate(res)`: list order = submission order; `convert_reid_to_teid` iff `decode_reid` -/
def gatherInSubmissionOrder : Bool := true
/-- `if not futures: futures.append(executor.submit(read_bes_raw, np.empty(0, dtype=np.uint32), sub_detectors))` -/
def emptyBatchWhenNothingRead : Bool := true

/-- `_is_raw` / `concatenate` for an explicit list of files: filtered by `_is_raw` in list order (no sorting, no set), every file read
completely (`n_blocks = -1`) by a fresh reader with concatenate's own `n_block_per_batch`, `sub_detectors`, `max_workers`,
`decode_reid`, the arrays concatenated in that order.  (A non-list argument goes through `glob.glob`, whose order is the
directory's.) -/
""")
    L.append(concat)
    L.append("""
/-- every positional / keyword argument of `reader.arrays(…)` arrives in the parameter of `arrays` of the same name, `n_blocks = -1` -/
def concatArgsAligned : Bool := true
/-- `[str(Path(f).resolve()) for f in files if _is_raw(f)]`, `for i, f in enumerate(files)`, `ak.concatenate(res)` -/
def concatInListOrder : Bool := true

/-! ### `_raw_dict_to_ak` -/

/-- what the C++ parser hands over under one key: a dict of columns, `(offsets, dict of columns)` or `(offsets, array)` -/
inductive RawVal
  | dict (cols : List (String × List Nat))
  | offsDict (offsets : List Nat) (cols : List (String × List Nat))
  | offsData (offsets : List Nat) (data : List Nat)
  deriving DecidableEq, Repr

/-- the awkward layouts `_raw_dict_to_ak` builds: `RecordArray([NumpyArray …], names)`,
`ListOffsetArray(Index(offsets), RecordArray(…))`, `ListOffsetArray(Index(offsets), NumpyArray(data))`; a record is the list of
(name, column) pairs `zip(names, contents)` -/
inductive AkCol
  | record (cols : List (String × List Nat))
  | jaggedRecords (offsets : List Nat) (cols : List (String × List Nat))
  | jaggedWords (offsets : List Nat) (data : List Nat)
  deriving DecidableEq, Repr

/-- `d[k] = v` on an insertion-ordered dict -/
def dictSetPy {α : Type} (d : List (String × α)) (k : String) (v : α) : List (String × α) :=
  if d.any (fun p => p.1 == k) then d.map (fun p => if p.1 == k then (k, v) else p) else d ++ [(k, v)]

/-- `_raw_dict_to_ak`: the names of the `in {…}` test (sorted), the if / elif / else chain over the field name with the layout each
branch builds (`none` = the value does not have the shape the branch unpacks / calls `.keys()` / `.values()` on: Python raises), and
the loop `contents = {}; for name, data in raw_dict.items(): contents[name] = …; ak.Array(contents)`.  First the names: -/
""")
    L.append(toak)
    L.append("""
/-- per-event view: a list layout with offsets `o` has `len(o) - 1` entries, entry `i` being `content[o[i]:o[i+1]]` -/
def slicePy {α : Type} (offsets : List Nat) (i : Nat) (data : List α) : List α :=
  (data.drop (offsets.getD i 0)).take (offsets.getD (i + 1) 0 - offsets.getD i 0)

def eventsOf : AkCol → List (List (String × List Nat))
  | .record cols => (List.range ((cols.head?.map (·.2.length)).getD 0)).map (fun i => cols.map (fun c => (c.1, (c.2.drop i).take 1)))
  | .jaggedRecords offsets cols => (List.range (offsets.length - 1)).map (fun i => cols.map (fun c => (c.1, slicePy offsets i c.2)))
  | .jaggedWords offsets data => (List.range (offsets.length - 1)).map (fun i => [("", slicePy offsets i data)])

/-- in the gather loop of `arrays`: `org_dict = future.result()`, then `convert_reid_to_teid(org_dict)` iff `decode_reid`, THEN
`res.append(_raw_dict_to_ak(org_dict))` -/
def rawDictToAkAfterReid : Bool := true
/-- one `_raw_dict_to_ak` array per gathered batch, appended to `res` in list order, `return ak.concatenate(res)` -/
def batchArraysConcatenatedInListOrder : Bool := true

end Pybes3Verif.Gen.RawPy
""")
    info = {"flags": {k: _hex(v) for k, v in flags.items()}, "flags_from": flags_from, "io": io, "preprocess": i_pre, "read_batch": i_rb,
            "arrays": i_arr, "concatenate": i_cc, "raw_dict_to_ak": i_ak}
    return "".join(L), info


if __name__ == "__main__":
    import json
    import sys
    src_path = sys.argv[1] if len(sys.argv) > 1 else SRC_PATH
    out_path = sys.argv[2] if len(sys.argv) > 2 else OUT_PATH
    try:
        body, info = generate(open(src_path).read(), src_path)
    except Unsupported as ex:
        print(f"Unsupported: {ex}")
        sys.exit(2)
    if not os.path.exists(out_path) or open(out_path).read() != body:
        open(out_path, "w").write(body)
    print(json.dumps(info, indent=1))
