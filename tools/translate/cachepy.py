"""Translator for src/pybes3/_cache_numba.py (+ the call site in src/pybes3/__init__.py) into Lean (Gen/CachePy.lean).

What is translated (each from its own AST, nothing assumed):
  * `src_cache_list`: the (table file, cache glob) pairs, with `cur_dir` / `geom_dir` resolved symbolically relative to the package
    -> `pairs`, `nTablesPy`.  Every glob must be `<dir of the table>/__pycache__/<stem>.*.nb[ci]` where `<stem>.py` lies next to the
    table, loads exactly that table (`np.load(_cur_dir / "<table>")`) and defines cached kernels; no other module of the package
    may mention the table (its cache would not be covered by the glob).
  * `cache_auto_clear`: the glob expansion, the two guards, the two aggregates (`max` over the mtimes of all sources / `min` over the
    mtimes of all matched caches that are files), the decision (`>`/`>=`/`<`/`<=`/`==`/`!=`, `or`/`and`/`not` translated generically),
    the removal loop (every matched file, unconditionally, no early exit), the failure path (ImportError after the loop)
    -> `srcAgg`, `cacheAgg`, `clearDecisionPy`, `emptyCachesNoop`, `removesAllMatched`.
  * `check_numba_cache` / `clear_numba_cache`: a plain for-loop over all pairs in list order with the literal `force`
    -> `sweepVisitsAllPairs`, `checkForce`, `clearForce`.
  * `__init__.py`: `check_numba_cache()` runs at import time before any other module of the package is imported
    -> `checkBeforeSubmodules`.
Anything outside the recognised shapes raises Unsupported (a broken translator obligation - never a silent default).
"""
from __future__ import annotations

import ast
import re
from pathlib import Path

DEFAULT_PKG_ROOT = "/repo/src/pybes3"


class Unsupported(Exception):
    pass


U = ast.unparse


def _fn(tree, name):
    found = [n for n in tree.body if isinstance(n, ast.FunctionDef) and n.name == name]
    if len(found) != 1:
        raise Unsupported(f"function {name}: expected exactly one module-level definition, found {len(found)}")
    if found[0].decorator_list:
        raise Unsupported(f"function {name} is decorated: `{U(found[0].decorator_list[0])}`")
    return found[0]


def _is_doc(n):
    return isinstance(n, ast.Expr) and isinstance(n.value, ast.Constant) and isinstance(n.value.value, str)


def _body(fn):
    """statements without the docstring"""
    b = list(fn.body)
    if b and _is_doc(b[0]):
        b = b[1:]
    return b


def _lean_str(s: str) -> str:
    if not isinstance(s, str) or any(ord(c) < 32 or ord(c) > 126 or c in '"\\' for c in s):
        raise Unsupported(f"string literal {s!r}")
    return '"' + s + '"'


def _name(n, what):
    if not isinstance(n, ast.Name):
        raise Unsupported(f"{what}: expected a plain name, got `{U(n)}`")
    return n.id


GLOB_META = set("*?[]")
BUILTINS_USED = {"glob", "os", "max", "min", "str", "isinstance", "Path", "print"}


# ------------------------------------------------------------------------------------------------ module level / src_cache_list
def _module_level(tree):
    """The module may only contain: docstring, `from __future__`, `import os`, `from glob import glob`, `from pathlib import Path`,
    the assignments of cur_dir / geom_dir-like path names / src_cache_list, and the three functions.  Returns the assignments."""
    assigns = {}
    order = []
    imported = {}
    for n in tree.body:
        if _is_doc(n):
            continue
        if isinstance(n, ast.ImportFrom):
            if n.level != 0:
                raise Unsupported(f"_cache_numba imports a module of the package (`{U(n)}`): it would be imported before the check runs")
            if n.module == "__future__":
                continue
            if n.module not in ("glob", "pathlib"):
                raise Unsupported(f"_cache_numba: unexpected import `{U(n)}`")
            for a in n.names:
                if a.asname not in (None, a.name):
                    raise Unsupported(f"_cache_numba: aliased import `{U(n)}`")
                imported[a.name] = n.module
            continue
        if isinstance(n, ast.Import):
            for a in n.names:
                if a.name != "os" or a.asname not in (None, "os"):
                    raise Unsupported(f"_cache_numba: unexpected import `{U(n)}`")
                imported["os"] = "os"
            continue
        if isinstance(n, ast.Assign):
            if len(n.targets) != 1 or not isinstance(n.targets[0], ast.Name):
                raise Unsupported(f"_cache_numba: module-level assignment `{U(n)[:120]}`")
            k = n.targets[0].id
            if k in assigns:
                raise Unsupported(f"_cache_numba: `{k}` is assigned more than once at module level")
            assigns[k] = n.value
            order.append(k)
            continue
        if isinstance(n, ast.FunctionDef):
            if n.name not in ("cache_auto_clear", "check_numba_cache", "clear_numba_cache"):
                raise Unsupported(f"_cache_numba: unexpected function `{n.name}`")
            continue
        raise Unsupported(f"_cache_numba: unexpected module-level statement `{U(n)[:120]}`")
    if imported.get("glob") != "glob" or imported.get("Path") != "pathlib" or imported.get("os") != "os":
        raise Unsupported(f"_cache_numba: `glob`, `Path`, `os` must be glob.glob, pathlib.Path, os; got {imported}")
    # nothing rebinds the library names, and src_cache_list is only read as the iterable of the two loops
    for n in ast.walk(tree):
        if isinstance(n, ast.Name) and isinstance(n.ctx, (ast.Store, ast.Del)) and n.id in BUILTINS_USED:
            raise Unsupported(f"_cache_numba: `{n.id}` is rebound (line {n.lineno})")
        if isinstance(n, (ast.FunctionDef, ast.ClassDef)) and n.name in BUILTINS_USED:
            raise Unsupported(f"_cache_numba: `{n.name}` is redefined")
        if isinstance(n, ast.arg) and n.arg in BUILTINS_USED:
            raise Unsupported(f"_cache_numba: parameter `{n.arg}` shadows a library name")
        if isinstance(n, (ast.Global, ast.Nonlocal)):
            raise Unsupported(f"_cache_numba: `{U(n)}`")
    return assigns, order


def _sym_path(e, env, what):
    """path expression -> POSIX string relative to the package directory ('' = the package directory itself)"""
    if isinstance(e, ast.Name):
        if e.id not in env:
            raise Unsupported(f"{what}: unknown path name `{e.id}`")
        return env[e.id]
    if isinstance(e, ast.BinOp) and isinstance(e.op, ast.Div):
        left = _sym_path(e.left, env, what)
        if not (isinstance(e.right, ast.Constant) and isinstance(e.right.value, str)):
            raise Unsupported(f"{what}: path component `{U(e.right)}` is not a string literal")
        r = e.right.value
        if r.startswith("/") or r == "" or any(p in ("..", ".", "") for p in r.split("/")):
            raise Unsupported(f"{what}: path component {r!r} is absolute, empty or contains . / ..")
        return (left + "/" if left else "") + r
    raise Unsupported(f"{what}: path expression `{U(e)}` is not NAME or <path> / \"literal\"")


def _module_loads_table(pkg_root: Path, rel_dir: str, stem: str, table: str):
    """`<stem>.py` next to the table loads exactly this table from its own directory and defines cached kernels"""
    mod = pkg_root / rel_dir / f"{stem}.py"
    if not mod.is_file():
        raise Unsupported(f"glob of {table}: module {rel_dir}/{stem}.py does not exist next to the table")
    mt = ast.parse(mod.read_text())
    cur = [n for n in mt.body if isinstance(n, ast.Assign) and U(n.targets[0]) == "_cur_dir"]
    if len(cur) != 1 or U(cur[0].value) not in ("Path(__file__).resolve().parent", "Path(__file__).parent"):
        raise Unsupported(f"{rel_dir}/{stem}.py: `_cur_dir` is not the module's own directory")
    loads = [n for n in ast.walk(mt) if isinstance(n, ast.Call) and U(n.func) in ("np.load", "numpy.load")]
    loaded = []
    for c in loads:
        if len(c.args) < 1 or not (isinstance(c.args[0], ast.BinOp) and isinstance(c.args[0].op, ast.Div) and U(c.args[0].left) == "_cur_dir"
                                   and isinstance(c.args[0].right, ast.Constant) and isinstance(c.args[0].right.value, str)):
            raise Unsupported(f"{rel_dir}/{stem}.py: `{U(c)}` does not load `_cur_dir / \"<file>\"`")
        loaded.append(c.args[0].right.value)
    if loaded != [table]:
        raise Unsupported(f"{rel_dir}/{stem}.py loads {loaded}, but its cache glob is tied to {table!r} only")
    if not _has_cached_kernels(mt):
        raise Unsupported(f"{rel_dir}/{stem}.py defines no kernel with cache=True")


def _has_cached_kernels(tree) -> bool:
    for n in ast.walk(tree):
        if isinstance(n, (ast.FunctionDef, ast.AsyncFunctionDef)):
            for d in n.decorator_list:
                if isinstance(d, ast.Call) and any(k.arg == "cache" and isinstance(k.value, ast.Constant) and k.value.value is True for k in d.keywords):
                    return True
    return False


def translate_pairs(tree, pkg_root: Path):
    assigns, order = _module_level(tree)
    if "cur_dir" not in assigns or U(assigns["cur_dir"]) != "Path(__file__).parent":
        raise Unsupported("`cur_dir` is not `Path(__file__).parent`")
    if "src_cache_list" not in assigns:
        raise Unsupported("`src_cache_list` is not assigned at module level")
    env = {"cur_dir": ""}
    for k in order:
        if k in ("cur_dir", "src_cache_list"):
            continue
        if order.index(k) > order.index("src_cache_list"):
            raise Unsupported(f"module-level `{k}` is assigned after src_cache_list")
        env[k] = _sym_path(assigns[k], env, f"`{k}`")
    uses = [n for n in ast.walk(tree) if isinstance(n, ast.Name) and n.id == "src_cache_list"]
    if sum(isinstance(n.ctx, ast.Store) for n in uses) != 1 or len(uses) != 3:
        raise Unsupported(f"`src_cache_list` must be assigned once and read exactly by the two loops; found {len(uses)} occurrences")
    lst = assigns["src_cache_list"]
    if not isinstance(lst, ast.List) or not lst.elts:
        raise Unsupported("`src_cache_list` is not a non-empty list literal")
    pairs = []
    stems = []
    for i, el in enumerate(lst.elts):
        if not (isinstance(el, ast.Tuple) and len(el.elts) == 2):
            raise Unsupported(f"src_cache_list[{i}] is not a 2-tuple: `{U(el)}`")
        table = _sym_path(el.elts[0], env, f"src_cache_list[{i}] table")
        cglob = _sym_path(el.elts[1], env, f"src_cache_list[{i}] glob")
        if GLOB_META & set(table):
            raise Unsupported(f"src_cache_list[{i}]: table path {table!r} contains glob characters (must name exactly one file)")
        d, _, name = table.rpartition("/")
        if not (pkg_root / table).is_file():
            raise Unsupported(f"src_cache_list[{i}]: table {table} does not exist under {pkg_root} (`if not sources: raise ValueError`)")
        prefix = (d + "/" if d else "") + "__pycache__/"
        m = re.fullmatch(re.escape(prefix) + r"([A-Za-z_][A-Za-z0-9_]*)\.\*\.nb\[ci\]", cglob)
        if not m:
            raise Unsupported(f"src_cache_list[{i}]: glob {cglob!r} is not `{prefix}<module stem>.*.nb[ci]` "
                              f"(all index AND data files of the module next to {name})")
        stem = m.group(1)
        _module_loads_table(pkg_root, d, stem, name)
        # no other module of the package may use this table: its cached kernels would not be matched by the glob
        for py in sorted(pkg_root.rglob("*.py")):
            rel = py.relative_to(pkg_root).as_posix()
            if rel in ("_cache_numba.py", (d + "/" if d else "") + stem + ".py"):
                continue
            try:
                other = ast.parse(py.read_text())
            except SyntaxError as ex:
                raise Unsupported(f"{rel}: {ex}")
            if any(isinstance(n, ast.Constant) and n.value == name for n in ast.walk(other)):
                raise Unsupported(f"table {name} is also mentioned in {rel}, whose cache files are not matched by {cglob!r}")
        pairs.append((name, cglob))
        stems.append((d, stem))
    if len(set(p[0] for p in pairs)) != len(pairs) or len(set(stems)) != len(stems):
        raise Unsupported(f"src_cache_list: tables or module stems are not distinct: {pairs}")
    return pairs


# ------------------------------------------------------------------------------------------------ cache_auto_clear
def _check_expansion(st, var):
    """VAR[: ann] = glob(str(VAR)) if isinstance(VAR, (Path, str)) else [item for s in VAR for item in glob(str(s))]"""
    if isinstance(st, ast.AnnAssign):
        tgt, val = st.target, st.value
    elif isinstance(st, ast.Assign) and len(st.targets) == 1:
        tgt, val = st.targets[0], st.value
    else:
        raise Unsupported(f"cache_auto_clear: expected the glob expansion of `{var}`, got `{U(st)[:120]}`")
    if not (isinstance(tgt, ast.Name) and tgt.id == var and isinstance(val, ast.IfExp)):
        raise Unsupported(f"cache_auto_clear: expected `{var} = glob(...) if ... else [...]`, got `{U(st)[:160]}`")
    if U(val.test) != f"isinstance({var}, (Path, str))" or U(val.body) != f"glob(str({var}))":
        raise Unsupported(f"cache_auto_clear: expansion of `{var}`: `{U(val.test)}` / `{U(val.body)}`")
    lc = val.orelse
    ok = (isinstance(lc, ast.ListComp) and len(lc.generators) == 2 and not any(g.ifs or g.is_async for g in lc.generators)
          and isinstance(lc.generators[0].target, ast.Name) and isinstance(lc.generators[1].target, ast.Name) and isinstance(lc.elt, ast.Name))
    if ok:
        s, item = lc.generators[0].target.id, lc.generators[1].target.id
        ok = lc.elt.id == item and s != item and U(lc.generators[0].iter) == var and U(lc.generators[1].iter) == f"glob(str({s}))"
    if not ok:
        raise Unsupported(f"cache_auto_clear: list branch of the expansion of `{var}`: `{U(lc)}`")


def _aggregate(st):
    """NAME = max|min([os.path.getmtime(v) for v in LIST if os.path.isfile(v)])  ->  (NAME, 'max'|'min', LIST)"""
    if not (isinstance(st, ast.Assign) and len(st.targets) == 1 and isinstance(st.targets[0], ast.Name)):
        return None
    c = st.value
    if not (isinstance(c, ast.Call) and isinstance(c.func, ast.Name) and c.func.id in ("max", "min")):
        return None
    who = st.targets[0].id
    if len(c.args) != 1 or c.keywords:
        raise Unsupported(f"cache_auto_clear: `{U(st)}`: {c.func.id} must take exactly the list of modification times")
    comp = c.args[0]
    if not (isinstance(comp, (ast.ListComp, ast.GeneratorExp)) and len(comp.generators) == 1):
        raise Unsupported(f"cache_auto_clear: `{who}` is not {c.func.id} over a comprehension of modification times: `{U(st)}`")
    g = comp.generators[0]
    if not (isinstance(g.target, ast.Name) and isinstance(g.iter, ast.Name) and not g.is_async):
        raise Unsupported(f"cache_auto_clear: `{who}`: comprehension header `{U(g)}` (must range over the whole list of matched files)")
    v = g.target.id
    if U(comp.elt) != f"os.path.getmtime({v})":
        raise Unsupported(f"cache_auto_clear: `{who}` aggregates `{U(comp.elt)}`, not the modification time of each matched file")
    if [U(i) for i in g.ifs] != [f"os.path.isfile({v})"]:
        raise Unsupported(f"cache_auto_clear: `{who}`: filter {[U(i) for i in g.ifs]} is not exactly `os.path.isfile({v})` "
                          f"(the aggregate must range over ALL matched files)")
    return who, c.func.id, g.iter.id


def _cond_to_lean(e, names, top=True):
    """and/or/not of comparisons between the numeric names and of the boolean names -> Lean Bool"""
    if isinstance(e, ast.BoolOp):
        op = " && " if isinstance(e.op, ast.And) else " || "
        s = op.join(_cond_to_lean(v, names, False) for v in e.values)
        return s if top else "(" + s + ")"
    if isinstance(e, ast.UnaryOp) and isinstance(e.op, ast.Not):
        return f"!{_cond_to_lean(e.operand, names, False)}"
    if isinstance(e, ast.Name) and names.get(e.id, (None, None))[1] == "bool":
        return names[e.id][0]
    if isinstance(e, ast.Compare) and len(e.ops) == 1 and isinstance(e.left, ast.Name) and isinstance(e.comparators[0], ast.Name):
        a, b = e.left.id, e.comparators[0].id
        if names.get(a, (None, None))[1] == "nat" and names.get(b, (None, None))[1] == "nat":
            ops = {ast.Gt: ">", ast.GtE: "≥", ast.Lt: "<", ast.LtE: "≤", ast.Eq: "=", ast.NotEq: "≠"}
            for k, sym in ops.items():
                if isinstance(e.ops[0], k):
                    return f"decide ({names[a][0]} {sym} {names[b][0]})"
    raise Unsupported(f"cache_auto_clear: decision `{U(e)}` is outside comparisons of the two aggregates combined with and/or/not and `force`")


def _forbid(nodes, kinds, what):
    for st in nodes:
        for n in ast.walk(st):
            if isinstance(n, kinds):
                raise Unsupported(f"{what}: unexpected `{U(n)[:80]}`")


def translate_cache_auto_clear(tree):
    fn = _fn(tree, "cache_auto_clear")
    a = fn.args
    if [x.arg for x in a.args] != ["sources", "caches", "silent", "force"] or a.vararg or a.kwarg or a.kwonlyargs or a.posonlyargs \
            or [U(d) for d in a.defaults] != ["True", "False"]:
        raise Unsupported(f"cache_auto_clear signature: ({U(a)})")
    b = _body(fn)
    if len(b) < 8:
        raise Unsupported(f"cache_auto_clear: only {len(b)} statements")
    # --- expansion + guards
    _check_expansion(b[0], "sources")
    _check_expansion(b[1], "caches")
    g1, g2 = b[2], b[3]
    if not (isinstance(g1, ast.If) and U(g1.test) == "not sources" and not g1.orelse and len(g1.body) == 1 and isinstance(g1.body[0], ast.Raise)
            and isinstance(g1.body[0].exc, ast.Call) and U(g1.body[0].exc.func) == "ValueError"):
        raise Unsupported(f"cache_auto_clear: first guard is not `if not sources: raise ValueError(...)` but `{U(g1)[:120]}`")
    if not (isinstance(g2, ast.If) and U(g2.test) == "not caches" and not g2.orelse and len(g2.body) == 1 and U(g2.body[0]) == "return []"):
        raise Unsupported(f"cache_auto_clear: second guard is not `if not caches: return []` but `{U(g2)[:120]}`")
    # --- tail: decision, failure, message, return
    if len(b) < 4 + 4 + 4:
        raise Unsupported(f"cache_auto_clear: expected 12 statements, got {len(b)}")
    mid, (dec, fail, msg, ret) = b[4:-4], b[-4:]
    # --- the simple assignments between the guards and the decision (any order): two empty lists, the two aggregates
    empties, aggs = [], []
    for st in mid:
        ag = _aggregate(st)
        if ag:
            aggs.append(ag)
        elif isinstance(st, ast.Assign) and len(st.targets) == 1 and isinstance(st.targets[0], ast.Name) and U(st.value) == "[]":
            empties.append(st.targets[0].id)
        else:
            raise Unsupported(f"cache_auto_clear: between the guards and the decision only `X = []` and the max/min aggregates are expected, got `{U(st)[:160]}`")
    if len(empties) != 2 or len(aggs) != 2:
        raise Unsupported(f"cache_auto_clear: expected two result lists and two aggregates, got {empties} and {aggs}")
    over = {lst: (who, f) for who, f, lst in aggs}
    if set(over) != {"sources", "caches"}:
        raise Unsupported(f"cache_auto_clear: the aggregates range over {sorted(l for _, _, l in aggs)}, expected one over `sources` and one over `caches`")
    src_name, src_f = over["sources"]
    cache_name, cache_f = over["caches"]
    # --- return value names the list of removed files
    if not (isinstance(ret, ast.Return) and isinstance(ret.value, ast.Name) and ret.value.id in empties):
        raise Unsupported(f"cache_auto_clear: does not end with `return <list of removed files>` but `{U(ret)}`")
    removed = ret.value.id
    failed = [e for e in empties if e != removed]
    if len(failed) != 1:
        raise Unsupported(f"cache_auto_clear: result lists {empties}")
    failed = failed[0]
    # --- decision
    if not isinstance(dec, ast.If) or dec.orelse:
        raise Unsupported(f"cache_auto_clear: expected the decision `if ... :` (without else), got `{U(dec)[:120]}`")
    names = {src_name: ("srcLatest", "nat"), cache_name: ("cacheEarliest", "nat"), "force": ("force", "bool")}
    decision = _cond_to_lean(dec.test, names)
    # --- removal loop
    if len(dec.body) != 1 or not isinstance(dec.body[0], ast.For):
        raise Unsupported(f"cache_auto_clear: the decision's body is not exactly one for-loop over the matched caches: `{U(dec.body[0])[:120]}`"
                          f"{' ...' if len(dec.body) > 1 else ''}")
    loop = dec.body[0]
    if loop.orelse or not (isinstance(loop.target, ast.Name) and isinstance(loop.iter, ast.Name) and loop.iter.id == "caches"):
        raise Unsupported(f"cache_auto_clear: removal loop header `for {U(loop.target)} in {U(loop.iter)}` is not `for <c> in caches` (all matched files)")
    c = loop.target.id
    if len(loop.body) != 1 or not isinstance(loop.body[0], ast.Try):
        raise Unsupported(f"cache_auto_clear: removal loop body is not a single try statement (every matched file must be removed "
                          f"unconditionally): `{U(loop.body[0])[:120]}`")
    tr = loop.body[0]
    if tr.orelse or tr.finalbody or [U(x) for x in tr.body] != [f"os.remove({c})", f"{removed}.append({c})"]:
        raise Unsupported(f"cache_auto_clear: try body is {[U(x) for x in tr.body]}, expected os.remove({c}); {removed}.append({c})")
    hs = [(U(h.type) if h.type else None, h.name, [U(x) for x in h.body]) for h in tr.handlers]
    if hs != [("FileNotFoundError", None, ["pass"]), ("Exception", None, [f"{failed}.append({c})"])]:
        raise Unsupported(f"cache_auto_clear: exception handlers {hs}: expected FileNotFoundError -> pass, Exception -> {failed}.append({c})")
    # --- failure path after the loop
    if not (isinstance(fail, ast.If) and U(fail.test) == failed and not fail.orelse and isinstance(fail.body[-1], ast.Raise)
            and isinstance(fail.body[-1].exc, ast.Call) and U(fail.body[-1].exc.func) == "ImportError"):
        raise Unsupported(f"cache_auto_clear: after the loop `if {failed}: ... raise ImportError(...)` is expected, got `{U(fail)[:120]}`")
    _forbid(fail.body[:-1], (ast.Return, ast.Raise, ast.Try, ast.Break, ast.Continue, ast.Delete, ast.While), "cache_auto_clear: failure message")
    # --- message: prints only
    if not (isinstance(msg, ast.If) and U(msg.test) == "not silent" and not msg.orelse):
        raise Unsupported(f"cache_auto_clear: expected `if not silent:` before the return, got `{U(msg)[:120]}`")
    _forbid(msg.body, (ast.Return, ast.Raise, ast.Try, ast.Break, ast.Continue, ast.Delete, ast.While, ast.For, ast.AugAssign), "cache_auto_clear: message block")
    for n in (x for st in msg.body for x in ast.walk(st)):
        if isinstance(n, ast.Call) and not (U(n.func) == "print" or (isinstance(n.func, ast.Attribute) and n.func.attr == "join" and isinstance(n.func.value, ast.Constant))):
            raise Unsupported(f"cache_auto_clear: message block calls `{U(n)[:80]}`")
    # --- the key names are bound exactly once, nothing else touches them
    key = {"sources": 1, "caches": 1, removed: 1, failed: 1, src_name: 1, cache_name: 1}
    if len(key) != 6:
        raise Unsupported("cache_auto_clear: result lists / aggregates share a name")
    stores = {}
    for n in ast.walk(fn):
        if isinstance(n, ast.Name) and isinstance(n.ctx, (ast.Store, ast.Del)):
            stores[n.id] = stores.get(n.id, 0) + 1
        if isinstance(n, ast.NamedExpr):
            raise Unsupported(f"cache_auto_clear: `{U(n)}`")
    for k, cnt in key.items():
        if stores.get(k, 0) != cnt:
            raise Unsupported(f"cache_auto_clear: `{k}` is bound {stores.get(k, 0)} times, expected {cnt}")
    for k in ("force", "silent"):
        if k in stores:
            raise Unsupported(f"cache_auto_clear: parameter `{k}` is reassigned")
    # mutation of the lists outside the recognised places
    for n in ast.walk(fn):
        if isinstance(n, ast.Call) and isinstance(n.func, ast.Attribute) and isinstance(n.func.value, ast.Name) and n.func.value.id in ("sources", "caches"):
            raise Unsupported(f"cache_auto_clear: `{U(n)}` touches the list of matched files")
        if isinstance(n, ast.Subscript) and isinstance(n.value, ast.Name) and n.value.id in ("sources", "caches"):
            raise Unsupported(f"cache_auto_clear: `{U(n)}` picks single elements of the list of matched files")
    return {"src_agg": src_f, "cache_agg": cache_f, "decision": decision, "decision_py": U(dec.test), "loop_var": c}


# ------------------------------------------------------------------------------------------------ check_numba_cache / clear_numba_cache
def translate_sweep(tree, fname):
    fn = _fn(tree, fname)
    a = fn.args
    if a.args or a.vararg or a.kwarg or a.kwonlyargs or a.posonlyargs:
        raise Unsupported(f"{fname} takes arguments: ({U(a)})")
    b = _body(fn)
    if len(b) != 2:
        raise Unsupported(f"{fname}: expected `silent = ...` followed by one for-loop over src_cache_list, got {[U(x)[:60] for x in b]}")
    sil, loop = b
    if not (isinstance(sil, ast.Assign) and U(sil.targets[0]) == "silent"):
        raise Unsupported(f"{fname}: first statement `{U(sil)[:120]}`")
    for n in ast.walk(sil.value):
        if isinstance(n, ast.Call) and U(n.func) != "os.getenv":
            raise Unsupported(f"{fname}: `silent` is computed by `{U(n)[:80]}`")
    if not isinstance(loop, ast.For) or loop.orelse:
        raise Unsupported(f"{fname}: no plain for-loop over the pairs (every pair must be visited, in list order): `{U(loop)[:120]}`")
    if not (isinstance(loop.iter, ast.Name) and loop.iter.id == "src_cache_list"):
        raise Unsupported(f"{fname}: loop ranges over `{U(loop.iter)}`, not over src_cache_list itself")
    if not (isinstance(loop.target, ast.Tuple) and len(loop.target.elts) == 2 and all(isinstance(e, ast.Name) for e in loop.target.elts)):
        raise Unsupported(f"{fname}: loop target `{U(loop.target)}`")
    s, c = (e.id for e in loop.target.elts)
    if s == c or {s, c} & {"silent", "src_cache_list", "cache_auto_clear"}:
        raise Unsupported(f"{fname}: loop target names `{s}`, `{c}`")
    if len(loop.body) != 1 or not (isinstance(loop.body[0], ast.Expr) and isinstance(loop.body[0].value, ast.Call) and U(loop.body[0].value.func) == "cache_auto_clear"):
        raise Unsupported(f"{fname}: loop body is not exactly one call of cache_auto_clear: `{U(loop.body[0])[:120]}`")
    call = loop.body[0].value
    params = ["sources", "caches", "silent", "force"]
    got = {}
    if len(call.args) > 4 or any(isinstance(x, ast.Starred) for x in call.args):
        raise Unsupported(f"{fname}: call `{U(call)}`")
    for p, v in zip(params, call.args):
        got[p] = v
    for k in call.keywords:
        if k.arg not in params or k.arg in got:
            raise Unsupported(f"{fname}: call `{U(call)}`")
        got[k.arg] = k.value
    if set(got) != set(params):
        raise Unsupported(f"{fname}: call must pass sources, caches, silent, force explicitly: `{U(call)}`")
    if U(got["sources"]) != s or U(got["caches"]) != c or U(got["silent"]) != "silent":
        raise Unsupported(f"{fname}: call does not pass the pair's table as sources and glob as caches: `{U(call)}`")
    f = got["force"]
    if not (isinstance(f, ast.Constant) and isinstance(f.value, bool)):
        raise Unsupported(f"{fname}: force is not a literal: `{U(f)}`")
    return f.value


# ------------------------------------------------------------------------------------------------ __init__.py
def check_init(init_tree, pkg_root: Path):
    """`check_numba_cache()` is an unconditional module-level statement, preceded only by `from __future__ ...` and
    `from ._cache_numba import check_numba_cache`; every module of the package with cached kernels is therefore imported after it."""
    calls = [i for i, n in enumerate(init_tree.body)
             if isinstance(n, ast.Expr) and isinstance(n.value, ast.Call) and U(n.value.func) == "check_numba_cache"]
    anywhere = [n for n in ast.walk(init_tree) if isinstance(n, ast.Call) and U(n.func).endswith("check_numba_cache")]
    if len(calls) != 1 or len(anywhere) != 1:
        raise Unsupported(f"__init__: expected exactly one unconditional module-level `check_numba_cache()`, found {len(calls)} (of {len(anywhere)} calls)")
    pos = calls[0]
    if init_tree.body[pos].value.args or init_tree.body[pos].value.keywords:
        raise Unsupported("__init__: check_numba_cache is called with arguments")
    imported = False
    for n in init_tree.body[:pos]:
        if _is_doc(n):
            continue
        if isinstance(n, ast.ImportFrom) and n.level == 0 and n.module == "__future__":
            continue
        if isinstance(n, ast.ImportFrom) and n.level == 1 and n.module == "_cache_numba":
            for al in n.names:
                if al.name == "check_numba_cache" and al.asname in (None, "check_numba_cache"):
                    imported = True
            continue
        if isinstance(n, (ast.Import, ast.ImportFrom)):
            raise Unsupported(f"__init__: `{U(n)[:100]}` is imported BEFORE check_numba_cache() runs (modules with cached kernels "
                              f"must be imported after the check)")
        raise Unsupported(f"__init__: unexpected statement before check_numba_cache(): `{U(n)[:100]}`")
    if not imported:
        raise Unsupported("__init__: `from ._cache_numba import check_numba_cache` does not precede the call")
    for n in init_tree.body[pos + 1:]:
        for m in ast.walk(n):
            if isinstance(m, ast.Name) and m.id == "check_numba_cache" and isinstance(m.ctx, ast.Store):
                raise Unsupported("__init__: check_numba_cache is rebound")
    # the modules with cached kernels, and the sub-packages of pybes3 through which they are imported
    cached = []
    for py in sorted(pkg_root.rglob("*.py")):
        try:
            if _has_cached_kernels(ast.parse(py.read_text())):
                cached.append(py.relative_to(pkg_root).as_posix())
        except SyntaxError as ex:
            raise Unsupported(f"{py}: {ex}")
    tops = sorted({c.split("/")[0].removesuffix(".py") for c in cached})
    after = set()
    for n in init_tree.body[pos + 1:]:
        if isinstance(n, ast.ImportFrom) and n.level == 1:
            if n.module is None:
                after |= {al.name for al in n.names}
            else:
                after.add(n.module.split(".")[0])
    missing = [t for t in tops if t not in after]
    if missing:
        raise Unsupported(f"__init__: sub-modules with cached kernels {missing} are not imported after the check (where are they imported?)")
    return {"cached_modules": cached, "subpackages_after_check": tops}


# ------------------------------------------------------------------------------------------------ emit
HEADER = """-- GENERATED by tools/translate/cachepy.py from /repo/src/pybes3/_cache_numba.py and /repo/src/pybes3/__init__.py. Do not edit.
import Pybes3Verif.Model.Cache
/-! `_cache_numba.py` translated from the source on every run: the (table, cache glob) pairs, the two modification-time aggregates and
the clearing decision of `cache_auto_clear`, the verified shape of its removal loop, the sweeps `check_numba_cache` /
`clear_numba_cache`, and the position of the import-time check in `__init__.py`.  Modification times are `Nat` as in `Model.Cache`. -/
namespace Pybes3Verif.Gen.CachePy

"""


def generate(src_cache_numba: str, src_init: str, pkg_root: str = DEFAULT_PKG_ROOT):
    root = Path(pkg_root)
    try:
        tree = ast.parse(src_cache_numba)
        init_tree = ast.parse(src_init)
    except SyntaxError as ex:
        raise Unsupported(f"syntax error: {ex}")
    pairs = translate_pairs(tree, root)
    cac = translate_cache_auto_clear(tree)
    check_force = translate_sweep(tree, "check_numba_cache")
    clear_force = translate_sweep(tree, "clear_numba_cache")
    ini = check_init(init_tree, root)
    lb = lambda v: "true" if v else "false"  # noqa: E731
    L = [HEADER]
    L.append("/-- `src_cache_list`: table file name and cache glob (relative to the package directory), in list order -/\n"
             "def pairs : List (String × String) := [\n" + ",\n".join(f"  ({_lean_str(t)}, {_lean_str(g)})" for t, g in pairs) + "]\n")
    L.append(f"""
/-- number of (table, glob) pairs -/
def nTablesPy : Nat := {len(pairs)}

/-- `if not sources: raise ValueError` (no state change) and `if not caches: return []`: without matched cache files nothing happens -/
def emptyCachesNoop : Bool := true

/-- `{cac['src_agg']}([os.path.getmtime(s) for s in sources if os.path.isfile(s)])` over ALL matched sources, folded from 0
(modification times are naturals: for `max` this is the maximum of the list) -/
def srcAgg (ms : List Nat) : Nat := ms.foldl {cac['src_agg']} 0

/-- `{cac['cache_agg']}([os.path.getmtime(c) for c in caches if os.path.isfile(c)])` over ALL matched cache files: `m` the first, `ms` the others -/
def cacheAgg (m : Nat) (ms : List Nat) : Nat := ms.foldl {cac['cache_agg']} m

/-- the decision `if {cac['decision_py']}:` -/
def clearDecisionPy (srcLatest cacheEarliest : Nat) (force : Bool) : Bool := {cac['decision']}

/-- under the decision: `for {cac['loop_var']} in caches: try: os.remove({cac['loop_var']}) ... except FileNotFoundError: pass except Exception: <record>` - every matched
file, no per-file test, no early exit; a failed removal raises ImportError after the loop -/
def removesAllMatched : Bool := true

/-- `check_numba_cache` and `clear_numba_cache` are `for src, cache in src_cache_list: cache_auto_clear(sources=src, caches=cache, ...)`:
every pair, in list order -/
def sweepVisitsAllPairs : Bool := true

/-- `force=` literal in `check_numba_cache` -/
def checkForce : Bool := {lb(check_force)}

/-- `force=` literal in `clear_numba_cache` -/
def clearForce : Bool := {lb(clear_force)}

/-- `__init__.py`: `check_numba_cache()` is an unconditional module-level statement preceded only by
`from ._cache_numba import check_numba_cache`; the sub-packages with cached kernels ({', '.join(ini['subpackages_after_check'])}) are imported after it -/
def checkBeforeSubmodules : Bool := true

end Pybes3Verif.Gen.CachePy
""")
    info = {"pairs": pairs, "n_tables": len(pairs), "src_agg": cac["src_agg"], "cache_agg": cac["cache_agg"], "decision": cac["decision"],
            "decision_py": cac["decision_py"], "check_force": check_force, "clear_force": clear_force, **ini}
    return "".join(L), info


if __name__ == "__main__":
    import sys
    pkg = sys.argv[1] if len(sys.argv) > 1 else DEFAULT_PKG_ROOT
    out = sys.argv[2] if len(sys.argv) > 2 else "/verif/lean/Pybes3Verif/Gen/CachePy.lean"
    try:
        body, info = generate(open(f"{pkg}/_cache_numba.py").read(), open(f"{pkg}/__init__.py").read(), pkg)
    except Unsupported as ex:
        print(f"Unsupported: {ex}")
        sys.exit(2)
    open(out, "w").write(body)
    print(info)
