"""Translator for the float code of src/pybes3/tracks/helix.py::_change_pivot (and the `radius` property) into a Lean
definition over the polymorphic `Ops α` of Model/Helix.lean  (DESIGN.md 0.6, "symbolic tie of the helix model").

The function is executed *symbolically*, statement by statement, in two modes:
  * "object": old_pivot is a vector.VectorObject3D, scalars are Python floats (the `elif dphi > np.pi` branch)
  * "array" : old_pivot is a vector.VectorNumpy3D, scalars are numpy arrays (the `np.where` branch)
Every assignment becomes one Lean `let`; 2-D vectors are expanded into their cartesian components with the semantics of
the `vector` package written out (polar -> cartesian, `.rho = sqrt(x*x + y*y)`, `.phi = atan2(y, x)`); numpy functions map
to the definitions of Model/NumpySem.lean.  Anything outside the supported subset raises Unsupported (a broken translator
obligation, never a silent default).
"""
from __future__ import annotations

import ast


class Unsupported(Exception):
    pass


SCALAR_PARAMS = ["r", "old_dr", "old_phi0", "old_dz", "kappa", "tanl"]


class S:
    """scalar expression (Lean text)"""
    def __init__(self, t):
        self.t = t


class B:
    """boolean expression (Lean text of type Bool)"""
    def __init__(self, t):
        self.t = t


class V2:
    def __init__(self, x, y):
        self.x, self.y = x, y


class V3:
    def __init__(self, name):
        self.name = name


class Jac:
    """the Jacobian under construction: (i, j) -> Lean text"""
    def __init__(self):
        self.entries = {}


NONE = object()


def par(t):
    return t if t.replace("_", "").replace(".", "").isalnum() else f"({t})"


class Tr:
    def __init__(self, fn: ast.FunctionDef, mode: str):
        self.fn, self.mode = fn, mode
        self.lets = []          # (name, lean expr)
        self.env = {p: S(p) for p in SCALAR_PARAMS}
        self.env["old_pivot"] = V3("old_pivot")
        self.env["new_pivot"] = V3("new_pivot")
        self.env["old_error"] = "ERROR"
        self.counter = {}
        self.ret = None

    # ---- helpers
    def fresh(self, name):
        """Lean allows shadowing: re-binding `x` emits another `let x := ...`"""
        return name

    def bind(self, name, val):
        if isinstance(val, S):
            self.lets.append((name, val.t)); self.env[name] = S(name)
        elif isinstance(val, B):
            self.lets.append((name, val.t)); self.env[name] = B(name)
        elif isinstance(val, V2):
            self.lets.append((name + "_x", val.x)); self.lets.append((name + "_y", val.y))
            self.env[name] = V2(name + "_x", name + "_y")
        else:
            self.env[name] = val

    def num(self, v):
        if isinstance(v, bool):
            raise Unsupported("bool literal")
        if v == 0: return "R.zero"
        if v == 1: return "R.one"
        if v == 2: return "R.two"
        raise Unsupported(f"numeric literal {v!r} has no counterpart in Ops")

    # ---- expressions
    def expr(self, e):
        if isinstance(e, ast.Name):
            if e.id not in self.env:
                raise Unsupported(f"unknown name {e.id}")
            return self.env[e.id]
        if isinstance(e, ast.Constant):
            if e.value is None:
                return NONE
            return S(self.num(e.value))
        if isinstance(e, ast.Attribute):
            src = ast.unparse(e)
            if src == "np.pi":
                return S("R.pi")
            base = self.expr(e.value) if not (isinstance(e.value, ast.Name) and e.value.id in ("np", "vector")) else None
            if isinstance(base, V3) and e.attr in ("x", "y", "z"):
                return S(f"{base.name}.{e.attr}")
            if isinstance(base, V2) and e.attr == "rho":
                return S(f"vecRho R {par(base.x)} {par(base.y)}")
            if isinstance(base, V2) and e.attr == "phi":
                return S(f"vecPhi R {par(base.x)} {par(base.y)}")
            if isinstance(base, Jac) and e.attr == "ndim":
                return ("ndim",)
            if isinstance(base, Jac) and e.attr == "T":
                return ("jacT", base)
            raise Unsupported(f"attribute {src}")
        if isinstance(e, ast.UnaryOp) and isinstance(e.op, ast.USub):
            v = self.expr(e.operand)
            if isinstance(v, S):
                return S(f"R.neg {par(v.t)}")
            raise Unsupported("negation of a non-scalar")
        if isinstance(e, ast.BinOp):
            if isinstance(e.op, ast.MatMult):
                return ("matmul", self.expr(e.left), self.expr(e.right))
            a, b = self.expr(e.left), self.expr(e.right)
            if isinstance(a, V2) and isinstance(b, V2) and isinstance(e.op, (ast.Add, ast.Sub)):
                f = "R.add" if isinstance(e.op, ast.Add) else "R.sub"
                return V2(f"{f} {par(a.x)} {par(b.x)}", f"{f} {par(a.y)} {par(b.y)}")
            if isinstance(a, B) and isinstance(b, S) and isinstance(e.op, ast.Mult):
                return S(f"boolTimes R {par(a.t)} {par(b.t)}")
            if isinstance(a, S) and isinstance(b, S):
                f = {ast.Add: "R.add", ast.Sub: "R.sub", ast.Mult: "R.mul", ast.Div: "R.div"}.get(type(e.op))
                if f:
                    return S(f"{f} {par(a.t)} {par(b.t)}")
                if isinstance(e.op, ast.Mod):
                    return S(f"pmod R {par(a.t)} {par(b.t)}")
            raise Unsupported(f"binary operation {ast.unparse(e)}")
        if isinstance(e, ast.Compare) and len(e.ops) == 1:
            if isinstance(e.ops[0], (ast.Is, ast.IsNot)):
                l, r_ = self.expr(e.left), self.expr(e.comparators[0])
                if r_ is NONE and l == "ERROR":
                    return isinstance(e.ops[0], ast.IsNot)          # the error-matrix path is the one translated
                raise Unsupported(ast.unparse(e))
            l = self.expr(e.left)
            if l == ("ndim",):
                if isinstance(e.ops[0], ast.Eq) and isinstance(e.comparators[0], ast.Constant):
                    return (self.mode == "array") == (e.comparators[0].value == 3)
                raise Unsupported(ast.unparse(e))
            r_ = self.expr(e.comparators[0])
            if isinstance(l, S) and isinstance(r_, S):
                if isinstance(e.ops[0], ast.Lt):
                    return B(f"R.lt {par(l.t)} {par(r_.t)}")
                if isinstance(e.ops[0], ast.Gt):
                    return B(f"R.lt {par(r_.t)} {par(l.t)}")
            raise Unsupported(f"comparison {ast.unparse(e)}")
        if isinstance(e, ast.Call):
            f = ast.unparse(e.func)
            if f == "isinstance":
                what = ast.unparse(e.args[1])
                obj = ast.unparse(e.args[0])
                if what == "vector.VectorObject3D":
                    return self.mode == "object"
                if what == "vector.VectorNumpy3D":
                    return self.mode == "array"
                if what == "np.ndarray":
                    return self.mode == "array"
                raise Unsupported(f"isinstance(.., {what})")
            if f in ("np.cos", "np.sin", "np.sqrt", "np.abs") and len(e.args) == 1:
                a = self.expr(e.args[0])
                if isinstance(a, S):
                    return S(f"R.{f[3:]} {par(a.t)}")
            if f == "np.copysign" and len(e.args) == 2:
                a, b = self.expr(e.args[0]), self.expr(e.args[1])
                return S(f"npCopysign R {par(a.t)} {par(b.t)}")
            if f == "np.sign" and len(e.args) == 1:
                return S(f"npSign R {par(self.expr(e.args[0]).t)}")
            if f == "np.where" and len(e.args) == 3:
                c, a, b = (self.expr(x) for x in e.args)
                if isinstance(c, B) and isinstance(a, S) and isinstance(b, S):
                    return S(f"if {c.t} then {a.t} else {b.t}")
            if f == "vector.obj" and {k.arg for k in e.keywords} == {"rho", "phi"}:
                kw = {k.arg: self.expr(k.value) for k in e.keywords}
                return V2(f"R.mul {par(kw['rho'].t)} (R.cos {par(kw['phi'].t)})", f"R.mul {par(kw['rho'].t)} (R.sin {par(kw['phi'].t)})")
            if f == "vector.arr" and len(e.args) == 1 and isinstance(e.args[0], ast.Dict):
                d = {k.value: self.expr(v) for k, v in zip(e.args[0].keys, e.args[0].values)}
                if set(d) == {"rho", "phi"}:
                    return V2(f"R.mul {par(d['rho'].t)} (R.cos {par(d['phi'].t)})", f"R.mul {par(d['rho'].t)} (R.sin {par(d['phi'].t)})")
            if f.endswith(".to_2D") and not e.args:
                base = self.expr(e.func.value)
                if isinstance(base, V3):
                    return V2(f"{base.name}.x", f"{base.name}.y")
            if f == "np.zeros_like":
                if ast.unparse(e.args[0]) != "old_error":
                    raise Unsupported("zeros_like of something else than old_error")
                kw = {k.arg: ast.unparse(k.value) for k in e.keywords}
                if kw.get("dtype") not in ("np.float64", "float", "np.float_", "np.double"):
                    raise Unsupported("Jacobian not allocated as float64 (entries would be truncated to the dtype of the error matrix)")
                return Jac()
            if f.endswith(".transpose"):
                base = self.expr(e.func.value)
                if isinstance(base, Jac):
                    perm = tuple(ast.literal_eval(a) for a in e.args)
                    return ("jacperm", base, perm)
            raise Unsupported(f"call {ast.unparse(e)}")
        if isinstance(e, ast.Tuple):
            return tuple(self.expr(x) for x in e.elts)
        raise Unsupported(f"expression {ast.unparse(e)}")

    # ---- statements
    def block(self, stmts):
        for st in stmts:
            if self.ret is not None:
                raise Unsupported("statement after return")
            self.stmt(st)

    def stmt(self, st):
        if isinstance(st, ast.Expr) and isinstance(st.value, ast.Constant) and isinstance(st.value.value, str):
            return                                          # docstring
        if isinstance(st, (ast.Assign, ast.AnnAssign)):
            tgt = st.targets[0] if isinstance(st, ast.Assign) else st.target
            if isinstance(st, ast.Assign) and len(st.targets) != 1:
                raise Unsupported("multiple assignment")
            val = self.expr(st.value)
            if isinstance(tgt, ast.Name):
                if isinstance(val, tuple) and val and val[0] == "jacperm":
                    # transposition between (tracks, i, j) and (i, j, tracks): entries are addressed [i, j] in between
                    self.axes = val[2]
                    self.env[tgt.id] = val[1]; return
                if isinstance(val, tuple) and val and val[0] == "matmul":
                    self.check_propagation(val); self.env[tgt.id] = "PROPAGATED"; return
                if val is NONE:
                    self.env[tgt.id] = NONE; return
                self.bind(tgt.id, val); return
            if isinstance(tgt, ast.Subscript) and isinstance(self.expr(tgt.value), Jac):
                idx = ast.literal_eval(tgt.slice)
                if not (isinstance(idx, tuple) and len(idx) == 2):
                    raise Unsupported("Jacobian index")
                if self.mode == "array" and getattr(self, "axes", None) != (1, 2, 0):
                    raise Unsupported("array mode writes Jacobian entries without moving the track axis last")
                if not isinstance(val, S):
                    raise Unsupported("Jacobian entry")
                name = f"J{idx[0]}{idx[1]}"
                self.lets.append((name, val.t))
                self.expr(tgt.value).entries[idx] = name
                return
            raise Unsupported(f"assignment target {ast.unparse(tgt)}")
        if isinstance(st, ast.AugAssign) and isinstance(st.target, ast.Name):
            cur = self.expr(st.target); v = self.expr(st.value)
            f = {ast.Add: "R.add", ast.Sub: "R.sub", ast.Mult: "R.mul", ast.Div: "R.div"}.get(type(st.op))
            if f and isinstance(cur, S) and isinstance(v, S):
                self.bind(st.target.id, S(f"{f} {par(cur.t)} {par(v.t)}")); return
            raise Unsupported(ast.unparse(st))
        if isinstance(st, ast.If):
            c = self.expr(st.test)
            if c is True:
                self.block(st.body); return
            if c is False:
                self.block(st.orelse); return
            if isinstance(c, B):
                # symbolic condition: both branches may only re-assign scalars; merge with if-then-else
                snap_env, snap_lets = dict(self.env), len(self.lets)
                self.block(st.body)
                body_lets = self.lets[snap_lets:]; del self.lets[snap_lets:]
                env_body = self.env; self.env = dict(snap_env)
                self.block(st.orelse)
                else_lets = self.lets[snap_lets:]; del self.lets[snap_lets:]
                env_else = self.env; self.env = dict(snap_env)
                names = [n for n, _ in body_lets] + [n for n, _ in else_lets if n not in [m for m, _ in body_lets]]
                for n in dict.fromkeys(names):
                    if n not in snap_env or not isinstance(snap_env[n], S):
                        raise Unsupported(f"variable {n} defined only inside a data-dependent branch")
                    tb = "; ".join(f"let {m} := {t}" for m, t in body_lets) + (f"; {n}" if body_lets else n)
                    te = "; ".join(f"let {m} := {t}" for m, t in else_lets) + (f"; {n}" if else_lets else n)
                    self.lets.append((n, f"if {c.t} then ({tb}) else ({te})"))
                return
            raise Unsupported(f"condition {ast.unparse(st.test)}")
        if isinstance(st, ast.Raise):
            raise Unsupported("reached a raise statement on the translated path")
        if isinstance(st, ast.Return):
            self.ret = self.expr(st.value); return
        raise Unsupported(f"statement {ast.unparse(st)[:80]}")

    def check_propagation(self, val):
        """new_error = jacobian @ old_error @ jacobian.T  (object) / jacobian @ old_error @ jacobian.transpose(0, 2, 1)  (array)"""
        try:
            _, left, right = val
            _, j1, e = left
            ok = isinstance(j1, Jac) and e == "ERROR"
            if self.mode == "object":
                ok = ok and right[0] == "jacT" and right[1] is j1
            else:
                ok = ok and right[0] == "jacperm" and right[1] is j1 and right[2] == (0, 2, 1) and getattr(self, "axes", None) == (2, 0, 1)
        except Exception:
            ok = False
        if not ok:
            raise Unsupported("error propagation is not `jacobian @ old_error @ jacobian^T` (with the track axis moved back first in array mode)")

    def run(self):
        self.block(self.fn.body)
        if not (isinstance(self.ret, tuple) and len(self.ret) == 4):
            raise Unsupported("return value is not a 4-tuple")
        dr, phi, dz, err = self.ret
        if err != "PROPAGATED":
            raise Unsupported("the returned error matrix is not the propagated one")
        jac = [v for v in self.env.values() if isinstance(v, Jac)]
        if len(jac) != 1:
            raise Unsupported("no unique Jacobian")
        return dr, phi, dz, jac[0]


def translate_change_pivot(src: str, mode: str):
    tree = ast.parse(src)
    fn = next((n for n in tree.body if isinstance(n, ast.FunctionDef) and n.name == "_change_pivot"), None)
    if fn is None:
        raise Unsupported("_change_pivot not found")
    params = [a.arg for a in fn.args.args]
    if params != ["r", "old_dr", "old_phi0", "old_dz", "kappa", "tanl", "old_error", "old_pivot", "new_pivot"]:
        raise Unsupported(f"signature of _change_pivot changed: {params}")
    tr = Tr(fn, mode)
    dr, phi, dz, jac = tr.run()
    name = "changePivotPy" + ("Arr" if mode == "array" else "Obj")
    lines = [f"/-- `_change_pivot` ({mode} path), statement by statement -/",
             f"def {name} (R : Ops α) (r old_dr old_phi0 old_dz kappa tanl : α) (old_pivot new_pivot : Vec3 α) : α × α × α × (Nat → Nat → α) :="]
    for n, t in tr.lets:
        lines.append(f"  let {n} := {t}")
    ents = sorted(jac.entries.items())
    lines.append(f"  ({dr.t}, {phi.t}, {dz.t}, fun i j =>")
    lines.append("    match i, j with")
    for (i, j), n in ents:
        lines.append(f"    | {i}, {j} => {n}")
    lines.append("    | _, _ => R.zero)")
    return "\n".join(lines) + "\n", {"lets": len(tr.lets), "jacobian_entries": [list(k) for k, _ in ents]}


def translate_radius(src: str):
    """HelixObject.radius / HelixAwkward*.radius: 1000 / 2.99792458 / abs(kappa)"""
    tree = ast.parse(src)
    bodies = []
    for cls in [n for n in tree.body if isinstance(n, ast.ClassDef)]:
        for f in cls.body:
            if isinstance(f, ast.FunctionDef) and f.name == "radius":
                ret = [s for s in f.body if isinstance(s, ast.Return)]
                if len(ret) != 1:
                    raise Unsupported(f"{cls.name}.radius")
                bodies.append((cls.name, ast.unparse(ret[0].value)))
    ok = {"1000 / 2.99792458 / np.abs(self.kappa)", "1000 / 2.99792458 / abs(self.kappa)", "1000 / 2.99792458 / np.abs(self['kappa'])", "1000 / 2.99792458 / np.abs(self.kappa)"}
    for c, b in bodies:
        if b not in ok:
            raise Unsupported(f"{c}.radius is `{b}`, not 1000 / 2.99792458 / |kappa|")
    if not bodies:
        raise Unsupported("no radius property found")
    return bodies


WIRING = {"r": "self.radius", "old_dr": "self.dr", "old_phi0": "self.phi0", "old_dz": "self.dz", "kappa": "self.kappa", "tanl": "self.tanl"}
RESULT = {"dr": "new_dr", "phi0": "new_phi0", "kappa": "kappa", "dz": "new_dz", "tanl": "tanl"}


def check_callers(src: str):
    """every call of _change_pivot passes (radius, dr, phi0, dz, kappa, tanl) of the helix it is applied to, and builds the new helix
    from (new_dr, new_phi0, kappa, new_dz, tanl, new_pivot, new_error) - the wiring the Lean wrapper `changePivotWired` assumes"""
    tree = ast.parse(src)
    found = []
    for fn in ast.walk(tree):
        if not isinstance(fn, ast.FunctionDef) or fn.name == "_change_pivot":
            continue
        calls = [c for c in ast.walk(fn) if isinstance(c, ast.Call) and ast.unparse(c.func) == "_change_pivot"]
        if not calls:
            continue
        if len(calls) != 1:
            raise Unsupported(f"{fn.name}: several _change_pivot calls")
        call = calls[0]
        selfname = fn.args.args[0].arg
        assigns = {}
        for st in ast.walk(fn):
            if isinstance(st, ast.Assign) and len(st.targets) == 1 and isinstance(st.targets[0], ast.Name):
                assigns.setdefault(st.targets[0].id, []).append(st.value)

        def origin(v):
            if isinstance(v, ast.Name) and v.id in assigns and len(assigns[v.id]) == 1:
                return origin(assigns[v.id][0])
            if isinstance(v, ast.Call) and ast.unparse(v.func) == "_flat_to_numpy" and len(v.args) == 1:
                return origin(v.args[0])
            return ast.unparse(v).replace(selfname + ".", "self.")
        kw = {k.arg: origin(k.value) for k in call.keywords}
        if call.args:
            raise Unsupported(f"{fn.name}: positional arguments to _change_pivot")
        for k, want in WIRING.items():
            if kw.get(k) != want:
                raise Unsupported(f"{fn.name}: _change_pivot({k}={kw.get(k)}) - expected {want}")
        # the result names
        tgt = [st for st in ast.walk(fn) if isinstance(st, ast.Assign) and st.value is call]
        if len(tgt) != 1 or ast.unparse(tgt[0].targets[0]) != "(new_dr, new_phi0, new_dz, new_error)" and ast.unparse(tgt[0].targets[0]) != "new_dr, new_phi0, new_dz, new_error":
            raise Unsupported(f"{fn.name}: result of _change_pivot is not unpacked as new_dr, new_phi0, new_dz, new_error")
        # construction of the new helix: keyword call HelixObject(...) or dict literal res_dict
        built = None
        for n in ast.walk(fn):
            if isinstance(n, ast.Call) and ast.unparse(n.func) == "HelixObject":
                built = {k.arg: origin(k.value) for k in n.keywords}
            if isinstance(n, ast.Dict) and any(isinstance(k, ast.Constant) and k.value == "phi0" for k in n.keys):
                built = {k.value: origin(v) for k, v in zip(n.keys, n.values) if isinstance(k, ast.Constant)}
        if built is None:
            raise Unsupported(f"{fn.name}: construction of the new helix not found")
        for k, want in RESULT.items():
            got = built.get(k)
            if got != want and got != WIRING.get(want, want):
                raise Unsupported(f"{fn.name}: new helix {k}={got} - expected {want}")
        found.append(fn.name)
    if sorted(found) != ["_awk_change_pivot", "change_pivot"]:
        raise Unsupported(f"callers of _change_pivot: {found}")
    # radius: property bodies and kappa_to_radius
    k2r = next((n for n in tree.body if isinstance(n, ast.FunctionDef) and n.name == "kappa_to_radius"), None)
    if k2r is None or ast.unparse([s for s in k2r.body if isinstance(s, ast.Return)][0].value) != "1000 / 2.99792458 / np.abs(kappa)":
        raise Unsupported("kappa_to_radius is not 1000 / 2.99792458 / np.abs(kappa)")
    rad = []
    for cls in [n for n in tree.body if isinstance(n, ast.ClassDef)]:
        for f in cls.body:
            if isinstance(f, ast.FunctionDef) and f.name == "radius":
                body = ast.unparse([s for s in f.body if isinstance(s, ast.Return)][0].value)
                if body not in ("1000 / 2.99792458 / np.abs(self.kappa)", "kappa_to_radius(self.kappa)"):
                    raise Unsupported(f"{cls.name}.radius is `{body}`")
                if any("cached" in ast.unparse(d) or "cache" in ast.unparse(d) for d in f.decorator_list):
                    raise Unsupported(f"{cls.name}.radius is memoised (kappa is a mutable attribute)")
                rad.append(cls.name)
    if sorted(rad) != ["HelixAwkwardArray", "HelixAwkwardRecord", "HelixObject"]:
        raise Unsupported(f"radius properties: {rad}")
    return {"callers": found, "radius": rad}


LEAN_HEADER = """-- GENERATED by tools/translate/helix.py from /repo/src/pybes3/tracks/helix.py. Do not edit.
import Pybes3Verif.Model.NumpySem
/-! `_change_pivot` translated statement by statement (object path and array path) + the caller wiring
(`r = self.radius = 1000 / 2.99792458 / |kappa|`, extracted and checked by the translator). -/
namespace Pybes3Verif.Helix.Py
open Pybes3Verif.Helix

variable {α : Type}

"""


def generate(src: str) -> tuple[str, dict]:
    obj, i1 = translate_change_pivot(src, "object")
    arr, i2 = translate_change_pivot(src, "array")
    wiring = check_callers(src)
    body = LEAN_HEADER + obj + "\n" + arr + """
/-- `1000 / 2.99792458 / np.abs(kappa)` (`radius` properties, `kappa_to_radius`) -/
def radiusPy (R : Ops α) (kappa : α) : α := R.div R.alpha (R.abs kappa)

/-- `h.change_pivot(p')` in object form: `_change_pivot(r=self.radius, old_dr=self.dr, …)` -/
def changePivotWiredObj (R : Ops α) (h : Params α) (p p' : Vec3 α) : α × α × α × (Nat → Nat → α) :=
  changePivotPyObj R (radiusPy R h.kappa) h.dr h.phi0 h.dz h.kappa h.tanl p p'

/-- the same for record / array form (`_awk_change_pivot`) -/
def changePivotWiredArr (R : Ops α) (h : Params α) (p p' : Vec3 α) : α × α × α × (Nat → Nat → α) :=
  changePivotPyArr R (radiusPy R h.kappa) h.dr h.phi0 h.dz h.kappa h.tanl p p'

end Pybes3Verif.Helix.Py
"""
    return body, {"object": i1, "array": i2, "wiring": wiring}
