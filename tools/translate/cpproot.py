"""Translator for the C++ readers of src/pybes3/besio/cpp/root_io.hh into Lean (Gen/RootCpp.lean).

What is translated (each from the C++ text of the method bodies, statement by statement, in source order; anything outside the
recognised statement shapes raises Unsupported naming the statement - a broken translator obligation, never a silent default):

  * uproot-custom.hh (third party)   the constants `kNewClassTag`, `kByteCountMask`, `BinaryBuffer::kIsReferenced`; `read<T>` (checked
                                     token for token: big-endian, cursor += sizeof(T)); `skip`, `skip_fVersion`, `skip_fNBytes`,
                                     `get_cursor`, `skip_null_terminated_string` (checked token for token); `read_fNBytes`,
                                     `skip_obj_header`, `skip_TObject` (translated) -> `readNBytesCpp`, `skipObjHeaderCpp`,
                                     `skipTObjectCpp`, `skipTObjectLenCpp`
  * `Bes3TObjArrayReader`            `read` -> `readTObjArrayCpp`; offsets bookkeeping / `data()` -> `offsetsAccumulateSize`, ...
  * `Bes3CgemClusterColReader`       `read` -> `readClusterCpp` (the body of the object loop), `readClustersCpp` (the loop, threading
                                     `m_version`), `readCgemColCpp`; `data()` -> `cgemDataKeysCpp`
  * `Bes3SymMatrixArrayReader<T>`    `get_symmetric_matrix_index` -> `symIdxCpp`; constructor -> `symAcceptsCpp`; `read` -> `symExpandCpp`

Cursor semantics: `read<T>` moves the cursor by sizeof(T), `skip(n)` by n.  `get_cursor() - mark` is evaluated symbolically as the sum of
the bytes consumed since `auto mark = get_cursor()` (a `skip_TObject()` in between is emitted as the model's length-returning
`skipTObjectLen`).  Integer subtraction is emitted as the truncated subtraction of `Nat` (occurrences are listed in the info dict; the
only one, `fNBytes - consumed == K`, is compared against positive constants only, for which truncation cannot create a match).
`m_version` is an `Option Nat` (`none` = the initial -1); values are big-endian bit patterns (`Nat`).
"""
from __future__ import annotations

import json
import os
import re
import subprocess
import sys


class Unsupported(Exception):
    pass


REPO = "/repo"
SRC_REL = "src/pybes3/besio/cpp/root_io.hh"
UPROOT_CUSTOM_HH = "/venv/lib/python3.12/site-packages/uproot_custom/include/uproot-custom/uproot-custom.hh"
OUT_PATH = "/verif/lean/Pybes3Verif/Gen/RootCpp.lean"

TYPE_SIZE = {"uint8_t": 1, "int8_t": 1, "bool": 1, "char": 1, "uint16_t": 2, "int16_t": 2, "uint32_t": 4, "int32_t": 4, "float": 4,
             "uint64_t": 8, "int64_t": 8, "double": 8}
READ_BY_SIZE = {1: "byte", 2: "u16", 4: "u32", 8: "u64"}
LEAN_RESERVED = {"fun", "let", "if", "then", "else", "match", "with", "at", "from", "end", "do", "in", "have", "show", "open", "def",
                 "theorem", "none", "some", "version", "elem", "flat", "n", "packed", "skip", "byte", "u16", "u32", "u64", "take",
                 "times", "fail", "pure", "v", "flatArray"}

# ------------------------------------------------------------------------------------------------ tokens
_TOKEN = re.compile(r"""
    (?P<ws>\s+) | (?P<lc>//[^\n]*) | (?P<bc>/\*.*?\*/) |
    (?P<str>"(?:[^"\\\n]|\\.)*") | (?P<chr>'(?:[^'\\\n]|\\.)') |
    (?P<num>0[xX][0-9a-fA-F]+(?:ULL|UL|LL|U|L)?|\d+(?:ULL|UL|LL|U|L)?) |
    (?P<id>[A-Za-z_]\w*) |
    (?P<op>->|::|\+\+|--|==|!=|<=|>=|<<|&&|\|\||\+=|-=|[-+*/%<>=!~&|^?:;,.(){}\[\]\#])
""", re.X | re.S)


def tokenize(src: str) -> list[str]:
    out, pos = [], 0
    while pos < len(src):
        m = _TOKEN.match(src, pos)
        if not m:
            raise Unsupported(f"cannot tokenize C++ text at `{src[pos:pos + 40]!r}`")
        pos = m.end()
        if m.lastgroup in ("ws", "lc", "bc"):
            continue
        out.append(m.group())
    return out


def T(s: str) -> list[str]:
    """token list of a C++ snippet (used for the token-for-token checks)"""
    return tokenize(s)


def show(toks) -> str:
    return " ".join(toks)


def _match_close(toks, i, open_, close):
    """index of the token closing the bracket opened at toks[i]"""
    assert toks[i] == open_
    depth = 0
    for k in range(i, len(toks)):
        if toks[k] == open_:
            depth += 1
        elif toks[k] == close:
            depth -= 1
            if depth == 0:
                return k
    raise Unsupported(f"unbalanced `{open_}` in `{show(toks[i:i + 12])} ...`")


def _is_id(t):
    return re.fullmatch(r"[A-Za-z_]\w*", t) is not None


def _num(t):
    m = re.fullmatch(r"(0[xX][0-9a-fA-F]+|\d+)(?:ULL|UL|LL|U|L)?", t)
    return int(m.group(1), 0) if m else None


def pat(toks, pattern: str):
    """match a token list against a pattern: literal tokens, `$x` = identifier, `#x` = integer literal, `@x` = scalar type name"""
    ps = pattern.split()
    if len(ps) != len(toks):
        return None
    out = {}
    for p, t in zip(ps, toks):
        if p[0] == "$" and len(p) > 1:
            if not _is_id(t) or (p[1:] in out and out[p[1:]] != t):
                return None
            out[p[1:]] = t
        elif p[0] == "#" and len(p) > 1:
            if _num(t) is None:
                return None
            out[p[1:]] = _num(t)
        elif p[0] == "@" and len(p) > 1:
            if t not in TYPE_SIZE and t != "T":
                return None
            out[p[1:]] = t
        elif p != t:
            return None
    return out


# ------------------------------------------------------------------------------------------------ classes and members
class Member:
    def __init__(self, name, header, body, init):
        self.name, self.header, self.body, self.init = name, header, body, init   # token lists; body without the outer braces


class Cls:
    def __init__(self, name):
        self.name, self.fields, self.methods, self.enums = name, [], [], {}

    def method(self, name, nth=None):
        found = [m for m in self.methods if m.name == name]
        if len(found) != 1:
            raise Unsupported(f"{self.name}::{name}: {len(found)} definitions")
        return found[0]


def find_class(toks, name) -> Cls:
    starts = [i for i in range(len(toks) - 1) if toks[i] == "class" and toks[i + 1] == name]
    if len(starts) != 1:
        raise Unsupported(f"class {name}: {len(starts)} definitions")
    i = starts[0] + 2
    while toks[i] != "{":
        if toks[i] == ";":
            raise Unsupported(f"class {name}: forward declaration only")
        i += 1
    end = _match_close(toks, i, "{", "}")
    body = toks[i + 1:end]
    cls = Cls(name)
    k = 0
    while k < len(body):
        if body[k] in ("private", "public", "protected") and body[k + 1] == ":":
            k += 2
            continue
        if body[k] == "enum":
            j = k
            while body[j] != "{":
                j += 1
            e = _match_close(body, j, "{", "}")
            if body[e + 1] != ";":
                raise Unsupported(f"class {name}: enum followed by `{body[e + 1]}`")
            cls.enums.update(_enum_items(body[j + 1:e]))
            k = e + 2
            continue
        if body[k] == "template":
            k = _match_close(body, k + 1, "<", ">") + 1
            continue
        # one member: up to `;` (declaration) or a function body
        j, seen_paren, head = k, False, []
        while True:
            if j >= len(body):
                raise Unsupported(f"class {name}: unterminated member `{show(body[k:k + 10])}`")
            t = body[j]
            if t == "(":
                e = _match_close(body, j, "(", ")")
                head += body[j:e + 1]
                j, seen_paren = e + 1, True
                continue
            if t == "<" and head and _is_id(head[-1]) and not seen_paren:
                e = _match_close(body, j, "<", ">")
                head += body[j:e + 1]
                j = e + 1
                continue
            if t == "{":
                e = _match_close(body, j, "{", "}")
                if seen_paren:
                    cls.methods.append(_member(name, head, body[j + 1:e]))
                    k = e + 1
                    if k < len(body) and body[k] == ";":
                        k += 1
                    break
                head += body[j:e + 1]
                j = e + 1
                continue
            if t == ";":
                cls.fields.append(head)
                k = j + 1
                break
            head.append(t)
            j += 1
    return cls


def _enum_items(toks):
    items, cur = {}, []
    for t in toks + [","]:
        if t == ",":
            if cur:
                if len(cur) < 3 or cur[1] != "=":
                    raise Unsupported(f"enum item `{show(cur)}`")
                items[cur[0]] = cur[2:]
            cur = []
        else:
            cur.append(t)
    return items


def _member(cname, head, body):
    i = head.index("(")
    if i == 0 or not _is_id(head[i - 1]):
        raise Unsupported(f"class {cname}: member header `{show(head)}`")
    name = head[i - 1]
    e = _match_close(head, i, "(", ")")
    rest = head[e + 1:]
    init = []
    if ":" in rest:
        c = rest.index(":")
        rest, init = rest[:c], rest[c + 1:]
    for q in rest:
        if q not in ("const", "override"):
            raise Unsupported(f"{cname}::{name}: qualifier `{q}`")
    m = Member(name, head[:e + 1], body, init)
    m.params = _split_commas(head[i + 1:e])
    m.ret = head[:i - 1]
    return m


def _split_commas(toks):
    out, cur, depth = [], [], 0
    for t in toks:
        if t in "([{<" and t != "":
            depth += 1
        elif t in ")]}>":
            depth -= 1
        if t == "," and depth == 0:
            out.append(cur)
            cur = []
        else:
            cur.append(t)
    if cur:
        out.append(cur)
    return out


# ------------------------------------------------------------------------------------------------ statements
class St:
    def __init__(self, kind, **kw):
        self.kind = kind
        self.__dict__.update(kw)

    def __repr__(self):
        return f"St({self.kind}, {', '.join(f'{k}={v!r}' for k, v in self.__dict__.items() if k != 'kind')})"


def parse_block(toks) -> list[St]:
    out, i = [], 0
    while i < len(toks):
        st, i = _parse_stmt(toks, i)
        if st is not None:
            out.append(st)
    return out


def _parse_stmt(toks, i):
    t = toks[i]
    if t == "{":
        e = _match_close(toks, i, "{", "}")
        return St("block", body=parse_block(toks[i + 1:e])), e + 1
    if t == ";":
        return None, i + 1
    if t in ("for", "if", "switch", "while"):
        if toks[i + 1] != "(":
            raise Unsupported(f"`{t}` without `(`")
        e = _match_close(toks, i + 1, "(", ")")
        head = toks[i + 2:e]
        if t == "switch":
            if toks[e + 1] != "{":
                raise Unsupported("switch without a braced body")
            e2 = _match_close(toks, e + 1, "{", "}")
            return St("switch", expr=head, arms=_parse_arms(toks[e + 2:e2])), e2 + 1
        body, nxt = _parse_stmt(toks, e + 1)
        body = [] if body is None else (body.body if body.kind == "block" else [body])
        if t == "for":
            parts = _split_semis(head)
            if len(parts) != 3:
                raise Unsupported(f"for header `{show(head)}`")
            return St("for", init=parts[0], cond=parts[1], incr=parts[2], body=body, text=f"for ( {show(head)} )"), nxt
        if t == "while":
            return St("while", cond=head, body=body, text=f"while ( {show(head)} )"), nxt
        if nxt < len(toks) and toks[nxt] == "else":
            raise Unsupported(f"`if ( {show(head)} ) ... else`: else branches are not supported")
        return St("if", cond=head, body=body, text=f"if ( {show(head)} )"), nxt
    if t in ("case", "default", "else", "do", "goto", "try", "static"):
        raise Unsupported(f"statement starting with `{t}`: `{show(toks[i:i + 12])}`")
    # simple statement up to `;` at depth 0
    depth, j = 0, i
    while j < len(toks):
        if toks[j] in "([{":
            depth += 1
        elif toks[j] in ")]}":
            depth -= 1
        elif toks[j] == ";" and depth == 0:
            break
        j += 1
    if j >= len(toks):
        raise Unsupported(f"statement without `;`: `{show(toks[i:i + 12])}`")
    s = toks[i:j]
    if s[0] == "debug_printf":
        return None, j + 1
    return St("simple", toks=s, text=show(s) + " ;"), j + 1


def _split_semis(toks):
    out, cur, depth = [], [], 0
    for t in toks:
        if t in "([{":
            depth += 1
        elif t in ")]}":
            depth -= 1
        if t == ";" and depth == 0:
            out.append(cur)
            cur = []
        else:
            cur.append(t)
    out.append(cur)
    return out


def _parse_arms(toks):
    """`case K: stmts` / `default: stmts` -> [(K | None, [St])]"""
    arms, i = [], 0
    while i < len(toks):
        if toks[i] == "case":
            k = _num(toks[i + 1])
            if k is None or toks[i + 2] != ":":
                raise Unsupported(f"case label `{show(toks[i:i + 4])}` is not an integer literal")
            label, i = k, i + 3
        elif toks[i] == "default" and toks[i + 1] == ":":
            label, i = None, i + 2
        else:
            raise Unsupported(f"switch body: expected a case label at `{show(toks[i:i + 8])}`")
        j, depth = i, 0
        while j < len(toks) and not (depth == 0 and toks[j] in ("case", "default")):
            if toks[j] in "([{":
                depth += 1
            elif toks[j] in ")]}":
                depth -= 1
            j += 1
        arms.append((label, parse_block(toks[i:j])))
        i = j
    return arms


# ------------------------------------------------------------------------------------------------ expressions
def parse_expr(toks):
    """C integer expression -> tuple AST: ('num', v) ('var', x) ('un', op, a) ('bin', op, a, b) ('tern', c, a, b)
    ('call', f, [args]) ('mcall', recv, method, [args])"""
    pos = [0]
    text = show(toks)

    def peek():
        return toks[pos[0]] if pos[0] < len(toks) else None

    def eat(t=None):
        x = peek()
        if x is None or (t is not None and x != t):
            raise Unsupported(f"unsupported C expression `{text}`" + (f" (expected `{t}`)" if t else ""))
        pos[0] += 1
        return x

    def args():
        eat("(")
        out = []
        if peek() != ")":
            out.append(tern())
            while peek() == ",":
                eat(",")
                out.append(tern())
        eat(")")
        return out

    def prim():
        x = eat()
        if x == "(":
            e = tern()
            eat(")")
            return e
        if _num(x) is not None:
            return ("num", _num(x))
        if not _is_id(x):
            raise Unsupported(f"unsupported C expression `{text}` (token `{x}`)")
        if peek() == "(":
            return ("call", x, args())
        if peek() == ".":
            eat(".")
            m = eat()
            if not _is_id(m):
                raise Unsupported(f"unsupported C expression `{text}`")
            return ("mcall", x, m, args())
        return ("var", x)

    def unary():
        if peek() in ("!", "~", "-"):
            op = eat()
            return ("un", op, unary())
        return prim()

    def level(ops, nxt):
        def f():
            e = nxt()
            while peek() in ops:
                op = eat()
                e = ("bin", op, e, nxt())
            return e
        return f

    mul = level(("*", "/"), unary)
    add = level(("+", "-"), mul)
    shf = level(("<<",), add)
    rel = level(("<", ">", "<=", ">="), shf)
    eq = level(("==", "!="), rel)
    band = level(("&",), eq)

    def tern():
        c = band()
        if peek() == "?":
            eat("?")
            a = tern()
            eat(":")
            b = tern()
            return ("tern", c, a, b)
        return c

    e = tern()
    if pos[0] != len(toks):
        raise Unsupported(f"unsupported C expression `{text}` (at `{peek()}`)")
    return e


def const_eval(e, consts=None):
    """closed integer expression -> int (literals, + - * / <<, named constants), else Unsupported"""
    k = e[0]
    if k == "num":
        return e[1]
    if k == "var" and consts and e[1] in consts:
        return consts[e[1]]
    if k == "un" and e[1] == "-":
        return -const_eval(e[2], consts)
    if k == "bin" and e[1] in ("+", "-", "*", "/", "<<"):
        a, b = const_eval(e[2], consts), const_eval(e[3], consts)
        if e[1] == "/" and (b == 0 or a < 0 or b < 0):
            raise Unsupported("constant division")
        return {"+": a + b, "-": a - b, "*": a * b, "/": a // b if b else 0, "<<": a << b}[e[1]]
    raise Unsupported(f"not a constant integer expression: {e}")


_PREC = {"tern": 0, "cmp": 1, "add": 2, "mul": 3, "app": 4, "atom": 5}


class Lx:
    """Lean term text with a precedence class"""
    def __init__(self, t, prec="atom"):
        self.t, self.prec = t, prec

    def at(self, prec):
        return self.t if _PREC[self.prec] >= _PREC[prec] else f"({self.t})"


def ident(name: str) -> str:
    if not _is_id(name):
        raise Unsupported(f"identifier {name!r}")
    return name + "_" if name in LEAN_RESERVED else name


def nat_expr(e, env, ctx) -> Lx:
    """integer-valued C expression -> Lean Nat term.  env: C name -> Lx; ctx: {'calls': {fname: leanName}, 'subs': [..], 'cursor': fn}"""
    k = e[0]
    if k == "num":
        return Lx(str(e[1]))
    if k == "var":
        if e[1] not in env:
            raise Unsupported(f"unknown variable `{e[1]}` in an integer expression")
        return env[e[1]]
    if k == "call":
        if e[1] not in ctx.get("calls", {}):
            raise Unsupported(f"call of `{e[1]}` in an integer expression")
        a = [nat_expr(x, env, ctx).at("atom") for x in e[2]]
        return Lx(ctx["calls"][e[1]] + " " + " ".join(a), "app")
    if k == "bin" and e[1] in ("+", "-", "*", "/"):
        if e[1] == "-" and "cursor" in ctx:
            c = ctx["cursor"](e[2], e[3])
            if c is not None:
                return c
        lo = {"+": "add", "-": "add", "*": "mul", "/": "mul"}[e[1]]
        hi = {"add": "mul", "mul": "app"}[lo]
        a, b = nat_expr(e[2], env, ctx), nat_expr(e[3], env, ctx)
        if e[1] == "-":
            ctx.setdefault("subs", []).append(f"{a.at(lo)} - {b.at(hi)}")
        return Lx(f"{a.at(lo)} {e[1]} {b.at(hi)}", lo)
    if k == "tern":
        c = prop_expr(e[1], env, ctx)
        a, b = nat_expr(e[2], env, ctx), nat_expr(e[3], env, ctx)
        return Lx(f"if {c} then {a.at('cmp')} else {b.at('cmp')}", "tern")
    raise Unsupported(f"integer expression shape {e}")


_REL = {"<": "<", ">": ">", "<=": "≤", ">=": "≥", "==": "=", "!=": "≠"}
_NEG = {"<": ">=", ">": "<=", "<=": ">", ">=": "<", "==": "!=", "!=": "=="}


def prop_expr(e, env, ctx, negate=False) -> str:
    """C condition -> Lean Prop text.  Integer truthiness: `x` is `x ≠ 0`, `!x` is `x = 0`; `a & b` is `a &&& b`."""
    if e[0] == "un" and e[1] == "!":
        return prop_expr(e[2], env, ctx, not negate)
    if e[0] == "bin" and e[1] in _REL:
        op = _NEG[e[1]] if negate else e[1]
        return f"{nat_expr(e[2], env, ctx).at('add')} {_REL[op]} {nat_expr(e[3], env, ctx).at('add')}"
    if e[0] == "bin" and e[1] == "&":
        a, b = nat_expr(e[2], env, ctx), nat_expr(e[3], env, ctx)
        return f"{a.at('atom')} &&& {b.at('atom')} {'=' if negate else '≠'} 0"
    raise Unsupported(f"condition shape {e}")


# ------------------------------------------------------------------------------------------------ cursor programs
class Cur:
    """Symbolic execution of a straight-line cursor program into the lines of a Lean `do` block over the model's parser monad `P`.
    recv = the C++ name of the BinaryBuffer the methods are called on (None inside BinaryBuffer itself);
    names = Lean names of the primitives; env = C variable -> Lean Nat term; marks = cursor marks -> bytes consumed since."""

    def __init__(self, recv, names, env=None, where=""):
        self.recv, self.names, self.where = recv, names, where
        self.env = dict(env or {})
        self.lines, self.marks, self.log, self.ctx = [], {}, [], {"cursor": self._cursor_diff}
        self.fresh = 0

    def un(self, what):
        return Unsupported(f"{self.where}: unsupported statement `{what}`")

    def strip(self, toks):
        """tokens of a call on the buffer, without the receiver"""
        if self.recv is None:
            return toks
        if len(toks) > 2 and toks[0] == self.recv and toks[1] == ".":
            return toks[2:]
        return None

    def consume(self, term):
        for k in self.marks:
            if self.marks[k] is not None:
                self.marks[k] = None if term is None else self.marks[k] + [term]

    def bind(self, cname, parser):
        if cname in self.env or cname in self.marks:
            raise Unsupported(f"{self.where}: variable `{cname}` declared twice")
        self.env[cname] = Lx(ident(cname))
        self.lines.append(f"let {ident(cname)} ← {parser}")

    def read_parser(self, ty, what):
        if ty not in TYPE_SIZE:
            raise Unsupported(f"{self.where}: `{what}`: read of the non-scalar type `{ty}` in a byte-level program")
        return self.names[READ_BY_SIZE[TYPE_SIZE[ty]]], TYPE_SIZE[ty]

    def _cursor_diff(self, a, b):
        """`<recv>.get_cursor() - mark` -> bytes consumed since the mark"""
        is_cur = (a[0] == "mcall" and a[1] == self.recv and a[2] == "get_cursor" and a[3] == []) or \
                 (self.recv is None and a == ("call", "get_cursor", []))
        if not is_cur:
            return None
        if b[0] != "var" or b[1] not in self.marks:
            raise Unsupported(f"{self.where}: get_cursor() minus something that is not a cursor mark")
        terms = self.marks[b[1]]
        if terms is None:
            raise Unsupported(f"{self.where}: cursor distance from `{b[1]}` crosses a statement of unknown length")
        k = sum(t for t in terms if isinstance(t, int))
        syms = [t for t in terms if not isinstance(t, int)]
        parts = ([str(k)] if k or not syms else []) + syms
        return Lx(" + ".join(parts), "add" if len(parts) > 1 else "atom")

    def prim(self, toks) -> bool:
        """one cursor primitive (call statement or `auto x = <read>`); False when the statement is none of them"""
        c = self.strip(toks)
        N = self.names
        if c is not None:
            m = pat(c, "skip ( #n )")
            if m:
                self.lines.append(f"{N['skip']} {m['n']}")
                self.consume(m["n"])
                return True
            if pat(c, "skip_fNBytes ( )") is not None:
                self.lines.append(f"let _ ← {N['readNBytes']}")
                self.consume(4)
                return True
            if pat(c, "skip_fVersion ( )") is not None:
                self.lines.append(f"{N['skip']} 2")
                self.consume(2)
                return True
            if pat(c, "skip_obj_header ( )") is not None:
                self.lines.append(N["skipObjHeader"])
                self.consume(None)
                return True
            if pat(c, "skip_null_terminated_string ( )") is not None:
                self.lines.append(N["skipCStr"])
                self.consume(None)
                return True
            if pat(c, "skip_TObject ( )") is not None:
                if any(v is not None for v in self.marks.values()):
                    self.fresh += 1
                    var = "tobj" if self.fresh == 1 else f"tobj{self.fresh}"
                    self.lines.append(f"let {var} ← {N['skipTObjectLen']}")
                    self.consume(var)
                else:
                    self.lines.append(N["skipTObject"])
                return True
        if len(toks) > 3 and toks[0] == "auto" and _is_id(toks[1]) and toks[2] == "=":
            c = self.strip(toks[3:])
            if c is None:
                return False
            m = pat(c, "read < @T > ( )")
            if m:
                p, size = self.read_parser(m["T"], show(toks))
                self.bind(toks[1], p)
                self.consume(size)
                return True
            if pat(c, "read_fNBytes ( )") is not None:
                self.bind(toks[1], N["readNBytes"])
                self.consume(4)
                return True
            if pat(c, "get_cursor ( )") is not None:
                if toks[1] in self.env or toks[1] in self.marks:
                    raise Unsupported(f"{self.where}: variable `{toks[1]}` declared twice")
                self.marks[toks[1]] = []
                return True
        return False

    def step(self, st) -> bool:
        if st.kind == "simple" and self.prim(st.toks):
            self.log.append(st.text)
            return True
        return False

    def cond(self, toks, negate=False):
        return prop_expr(parse_expr(toks), self.env, self.ctx, negate)


MODEL_NAMES = {"skip": "skip", "byte": "byte", "u16": "u16", "u32": "u32", "u64": "u64", "readNBytes": "readNBytes",
               "skipObjHeader": "skipObjHeader", "skipCStr": "skipCStr", "skipTObject": "skipTObject", "skipTObjectLen": "skipTObjectLen"}
CPP_NAMES = dict(MODEL_NAMES, readNBytes="readNBytesCpp", skipObjHeader="skipObjHeaderCpp", skipTObject="skipTObjectCpp",
                 skipTObjectLen="skipTObjectLenCpp")


def do_block(lines, indent="  "):
    return "do\n" + "\n".join(indent + ln for ln in lines)


# ------------------------------------------------------------------------------------------------ uproot-custom.hh (third party)
_READ_T = """
    constexpr auto size = sizeof( T );
    switch ( size )
    {
    case 1: return *reinterpret_cast<const T*>( m_cursor++ );
    case 2: { union { T value; uint16_t bits; } val; val.value = *reinterpret_cast<const T*>( m_cursor ); m_cursor += size;
              val.bits = bswap16( val.bits ); return val.value; }
    case 4: { union { T value; uint32_t bits; } val; val.value = *reinterpret_cast<const T*>( m_cursor ); m_cursor += size;
              val.bits = bswap32( val.bits ); return val.value; }
    case 8: { union { T value; uint64_t bits; } val; val.value = *reinterpret_cast<const T*>( m_cursor ); m_cursor += size;
              val.bits = bswap64( val.bits ); return val.value; }
    default: throw std::runtime_error( "Unsupported type size: " + std::to_string( size ) );
    }
"""
_EXACT = {
    "read": (_READ_T, "const T read ( )"),
    "skip": ("m_cursor += n;", "void skip ( const size_t n )"),
    "skip_fNBytes": ("read_fNBytes();", "void skip_fNBytes ( )"),
    "skip_fVersion": ("skip( 2 );", "void skip_fVersion ( )"),
    "get_cursor": ("return m_cursor;", "const uint8_t * get_cursor ( )"),
    "skip_null_terminated_string": ("while ( *m_cursor != 0 ) { m_cursor++; } m_cursor++;", "void skip_null_terminated_string ( )"),
}


def _has_seq(toks, seq):
    n = len(seq)
    return any(toks[i:i + n] == seq for i in range(len(toks) - n + 1))


def third_party(src: str):
    """checks and translations of the `BinaryBuffer` primitives the readers use"""
    toks = tokenize(src)
    consts = {}
    for name in ("kNewClassTag", "kByteCountMask"):
        hits = [i for i in range(len(toks) - 5) if toks[i:i + 2] == ["const", "uint32_t"] and toks[i + 2] == name and toks[i + 3] == "="
                and _num(toks[i + 4]) is not None and toks[i + 5] == ";"]
        if len(hits) != 1:
            raise Unsupported(f"uproot-custom.hh: `const uint32_t {name} = <literal>;` found {len(hits)} times")
        consts[name] = _num(toks[hits[0] + 4])
        if not 0 <= consts[name] < 2 ** 32:
            raise Unsupported(f"uproot-custom.hh: {name} does not fit uint32_t")
    bb = find_class(toks, "BinaryBuffer")
    if "kIsReferenced" not in bb.enums:
        raise Unsupported("uproot-custom.hh: BinaryBuffer::kIsReferenced not found")
    consts["kIsReferenced"] = const_eval(parse_expr(bb.enums["kIsReferenced"]))
    if T("uint8_t * m_cursor") not in bb.fields:
        raise Unsupported("uproot-custom.hh: `uint8_t* m_cursor` (byte-wise cursor arithmetic) not found")
    for n in (16, 32, 64):
        if not _has_seq(toks, T(f"# define bswap{n}( x ) __builtin_bswap{n}( x )")):
            raise Unsupported(f"uproot-custom.hh: `#define bswap{n}( x ) __builtin_bswap{n}( x )` not found")
    for name, (body, head) in _EXACT.items():
        m = bb.method(name)
        if m.body != T(body) or m.header != T(head):
            raise Unsupported(f"uproot-custom.hh: BinaryBuffer::{name} is not the expected `{' '.join(body.split())}`")
    kenv = {k: Lx(k + "Cpp") for k in consts}
    out = {}

    # read_fNBytes: `auto c = read<uint32_t>(); if ( !( c & kByteCountMask ) ) throw ...; return c & ~kByteCountMask;`
    m = bb.method("read_fNBytes")
    if m.header != T("const uint32_t read_fNBytes ( )"):
        raise Unsupported("uproot-custom.hh: read_fNBytes signature")
    sts = parse_block(m.body)
    cur = Cur(None, CPP_NAMES, kenv, "BinaryBuffer::read_fNBytes")
    if len(sts) != 3 or not cur.step(sts[0]):
        raise cur.un(show(m.body))
    g, r = sts[1], sts[2]
    if not (g.kind == "if" and len(g.body) == 1 and g.body[0].kind == "simple" and g.body[0].toks[:4] == T("throw std::runtime_error")):
        raise cur.un(g.text)
    if not (r.kind == "simple" and r.toks[0] == "return"):
        raise cur.un(r.text)
    ge, re_ = parse_expr(g.cond), parse_expr(r.toks[1:])
    if not (ge[0] == "un" and ge[1] == "!" and ge[2][0] == "bin" and ge[2][1] == "&" and ge[2][2][0] == "var" and ge[2][3][0] == "var"
            and re_ == ("bin", "&", ge[2][2], ("un", "~", ge[2][3])) and ge[2][3][1] in consts):
        raise cur.un(g.text + " ... " + r.text)
    mask = consts[ge[2][3][1]]
    if mask <= 0 or mask & (mask - 1):
        raise Unsupported(f"uproot-custom.hh: {ge[2][3][1]} is not a single bit: `x & ~mask` is `x - mask` (with the bit set) only for one")
    x, mk = cur.env[ge[2][2][1]], kenv[ge[2][3][1]]
    cur.lines.append(f"if {cur.cond(g.cond)} then fail else pure ({x.t} - {mk.t})")
    out["readNBytesCpp"] = do_block(cur.lines)

    # skip_obj_header: `skip_fNBytes(); auto fTag = read<uint32_t>(); if ( fTag == kNewClassTag ) skip_null_terminated_string();`
    def with_final_if(name, lenmode):
        m = bb.method(name)
        if m.header != T(f"void {name} ( )"):
            raise Unsupported(f"uproot-custom.hh: {name} signature")
        sts = parse_block(m.body)
        cur = Cur(None, CPP_NAMES, kenv, f"BinaryBuffer::{name}")
        cur.marks["@start"] = []
        for st in sts[:-1]:
            if not cur.step(st):
                raise cur.un(getattr(st, "text", st.kind))
        g = sts[-1]
        if g.kind != "if" or len(g.body) != 1:
            raise cur.un(getattr(g, "text", g.kind))
        base = cur.marks["@start"]
        sub = Cur(None, CPP_NAMES, cur.env, cur.where)
        sub.marks["@start"] = []
        if not sub.step(g.body[0]):
            raise cur.un(g.body[0].text)
        c = cur.cond(g.cond)
        if not lenmode:
            then = sub.lines[0] if len(sub.lines) == 1 else "(" + "; ".join(sub.lines) + ")"
            cur.lines.append(f"if {c} then {then} else pure ()")
            return do_block(cur.lines)
        extra = sub.marks["@start"]
        if base is None or extra is None or not all(isinstance(t, int) for t in base + extra):
            raise Unsupported(f"uproot-custom.hh: {name} does not consume a statically known number of bytes per branch")
        cur.lines.append(f"if {c} then do {'; '.join(sub.lines)}; pure {sum(base) + sum(extra)} else pure {sum(base)}")
        return do_block(cur.lines)

    out["skipObjHeaderCpp"] = with_final_if("skip_obj_header", False)
    out["skipTObjectCpp"] = with_final_if("skip_TObject", False)
    out["skipTObjectLenCpp"] = with_final_if("skip_TObject", True)
    return consts, out


# ------------------------------------------------------------------------------------------------ helpers for root_io.hh
def parse_body(m, where):
    try:
        return parse_block(m.body)
    except Unsupported as ex:
        raise Unsupported(f"{where}: {ex}") from None


def counted_for(st, where):
    """`for ( <int type> i = 0; i < BOUND; i++ )` -> (i, BOUND tokens)"""
    m = None
    if len(st.init) == 4 and (st.init[0] in ("int", "auto") or st.init[0] in TYPE_SIZE) and _is_id(st.init[1]) and st.init[2:] == ["=", "0"]:
        i = st.init[1]
        if len(st.cond) >= 3 and st.cond[:2] == [i, "<"] and st.incr in ([i, "++"], ["++", i]):
            m = (i, st.cond[2:])
    if m is None:
        raise Unsupported(f"{where}: `{st.text}` is not a counted loop `for ( T i = 0; i < N; i++ )`")
    return m


def reader_recv(m, where):
    p = pat(m.header, "void read ( BinaryBuffer & $b )")
    if p is None:
        raise Unsupported(f"{where}: signature `{show(m.header)}` is not `void read( BinaryBuffer& <name> )`")
    return p["b"]


def vector_fields(cls):
    """`SharedVector<T> m_x;` members -> {m_x: T}"""
    out = {}
    for f in cls.fields:
        p = pat(f, "SharedVector < @T > $m")
        if p:
            out[p["m"]] = p["T"]
    return out


def init_list(m):
    """constructor initialiser list -> {member: argument tokens}"""
    out = {}
    for item in _split_commas(m.init):
        if len(item) < 3 or not _is_id(item[0]) or item[1] != "(" or item[-1] != ")":
            raise Unsupported(f"{m.name}: initialiser `{show(item)}`")
        out[item[0]] = item[2:-1]
    return out


def offsets_push(toks):
    p = pat(toks, "m_offsets -> push_back ( m_offsets -> back ( ) + $v )")
    return p["v"] if p else None


def check_offsets(cls, ctor, where):
    if vector_fields(cls).get("m_offsets") != "uint32_t":
        raise Unsupported(f"{where}: `SharedVector<uint32_t> m_offsets` not found")
    if init_list(ctor).get("m_offsets") != T("make_shared_vector<uint32_t>( 1, 0 )"):
        raise Unsupported(f"{where}: m_offsets is not initialised with `make_shared_vector<uint32_t>( 1, 0 )` (one leading zero)")


def tobjarray_prefix(cur, sts, where):
    """the statements before the object loop: primitives and the offsets push; returns (pushed variable, loop statement)"""
    pushed = None
    for k, st in enumerate(sts):
        if st.kind == "for":
            if k != len(sts) - 1:
                raise Unsupported(f"{where}: statements after the object loop: `{getattr(sts[k + 1], 'text', sts[k + 1].kind)}`")
            return pushed, st
        if cur.step(st):
            continue
        v = offsets_push(st.toks) if st.kind == "simple" else None
        if v is None:
            raise cur.un(getattr(st, "text", st.kind))
        if pushed is not None:
            raise Unsupported(f"{where}: m_offsets pushed twice")
        pushed = v
        cur.log.append(st.text)
    raise Unsupported(f"{where}: no object loop")


def check_offsets_push(cur, pushed, bound, where):
    if pushed is None:
        raise Unsupported(f"{where}: `m_offsets->push_back( m_offsets->back() + <count> )` not found before the loop")
    if bound != [pushed] or pushed not in cur.env:
        raise Unsupported(f"{where}: the count pushed to the offsets (`{pushed}`) is not the loop bound (`{show(bound)}`) read from the stream")
    return cur.env[pushed].t


# ------------------------------------------------------------------------------------------------ Bes3TObjArrayReader
def translate_tobjarray(toks):
    cls = find_class(toks, "Bes3TObjArrayReader")
    where = "Bes3TObjArrayReader::read"
    rd = cls.method("read")
    recv = reader_recv(rd, where)
    check_offsets(cls, cls.method("Bes3TObjArrayReader"), "Bes3TObjArrayReader")
    if T("SharedReader m_element_reader") not in cls.fields:
        raise Unsupported("Bes3TObjArrayReader: `SharedReader m_element_reader` not found")
    cur = Cur(recv, MODEL_NAMES, where=where)
    pushed, loop = tobjarray_prefix(cur, parse_body(rd, where), where)
    _, bound = counted_for(loop, where)
    n = check_offsets_push(cur, pushed, bound, where)
    body = Cur(recv, MODEL_NAMES, where=where + " (object loop)")
    if not loop.body:
        raise Unsupported(f"{where}: empty object loop")
    for st in loop.body[:-1]:
        if not body.step(st):
            raise body.un(getattr(st, "text", st.kind))
    last = loop.body[-1]
    if not (last.kind == "simple" and last.toks == T(f"m_element_reader->read( {recv} )")):
        raise body.un(getattr(last, "text", last.kind) + "` (expected the element read `m_element_reader->read( " + recv + " );` last) `")
    cur.lines.append(f"times (do {'; '.join(body.lines + ['elem'])}) {n}")
    # data(): ( offsets, element data )
    dt = cls.method("data")
    want = "auto offsets_array = make_array( m_offsets ); py::object element_data = m_element_reader->data(); " \
           "return py::make_tuple( offsets_array, element_data );"
    if dt.body != T(want):
        raise Unsupported(f"Bes3TObjArrayReader::data is not `{want}`")
    text = f"""/-- `Bes3TObjArrayReader::read` for one entry.  Statements, in source order:
{_doc_list(cur.log)}
then `for ( … i < {pushed} … ) {{ {' '.join(body.log)} m_element_reader->read( {recv} ); }}` -/
def readTObjArrayCpp {{ε : Type}} (elem : P ε) : P (List ε) := {do_block(cur.lines)}

/-- the count added to the last offset is the `{pushed}` that was read from the stream and that bounds the object loop
(`m_offsets->push_back( m_offsets->back() + {pushed} )`), so the offsets delimit exactly the objects `readTObjArrayCpp` returns -/
def offsetsAccumulateSize : Bool := true
/-- `m_offsets` starts as `[0]` (`make_shared_vector<uint32_t>( 1, 0 )`) in both offset-keeping readers -/
def offsetsStartAtZero : Bool := true
/-- `Bes3TObjArrayReader::data()` returns `( offsets, element data )` -/
def dataIsOffsetsThenElements : Bool := true
"""
    return text, {"statements": cur.log, "loop_body": body.log + [last.text], "count_variable": pushed}


def _doc_list(items):
    return "\n".join(f"  `{x}`" for x in items)


# ------------------------------------------------------------------------------------------------ Bes3CgemClusterColReader
CLUSTER_FIELD_OF_KEY = {"m_clusterID": "ints", "m_trkID": "ints", "m_layerID": "ints", "m_sheetID": "ints", "m_flag": "ints",
                        "m_energyDeposit": "doubles", "m_recPhi": "doubles", "m_recPositionY": "doubles", "m_recV": "doubles",
                        "m_recZ": "doubles", "m_clusterFlag": "clusterFlag", "m_stripID": "stripID"}
CLUSTER_FIELD_TYPE = {"ints": "int32_t", "doubles": "double", "clusterFlag": "int32_t", "stripID": "int32_t"}


def _push_read(toks, recv):
    p = pat(toks, f"$m -> push_back ( {recv} . read < @T > ( ) )")
    return (p["m"], p["T"]) if p else None


def _version_test(cond):
    """`m_version == K` -> K (int, may be -1)"""
    e = parse_expr(cond)
    if e[0] == "bin" and e[1] == "==" and e[2] == ("var", "m_version"):
        try:
            return const_eval(e[3])
        except Unsupported:
            return None
    return None


def cgem_data_keys(cls, vecs):
    """`data()`: [(key, member, guard K | None)] in insertion order, "offsets" first"""
    dt = cls.method("data")
    sts = parse_body(dt, 'Bes3CgemClusterColReader::data')
    where = "Bes3CgemClusterColReader::data"
    if len(sts) < 3 or sts[0].kind != "simple" or sts[0].toks != T("py::dict result") or sts[-1].kind != "simple" or sts[-1].toks != T("return result"):
        raise Unsupported(f"{where}: not `py::dict result; ... return result;`")
    keys = []
    for st in sts[1:-1]:
        guard = None
        if st.kind == "if":
            guard = _version_test(st.cond)
            if guard is None or guard < 0 or len(st.body) != 1:
                raise Unsupported(f"{where}: unsupported statement `{st.text}`")
            st = st.body[0]
        t = st.toks if st.kind == "simple" else []
        if not (len(t) == 9 and t[:2] == ["result", "["] and t[2].startswith('"') and t[3:7] == ["]", "=", "make_array", "("] and _is_id(t[7]) and t[8] == ")"):
            raise Unsupported(f"{where}: unsupported statement `{getattr(st, 'text', st.kind)}`")
        key = json.loads(t[2])
        if t[7] not in vecs:
            raise Unsupported(f"{where}: `{t[7]}` is not a SharedVector member")
        if key in [k for k, _, _ in keys] or t[7] in [m for _, m, _ in keys]:
            raise Unsupported(f"{where}: key `{key}` / member `{t[7]}` used twice")
        keys.append((key, t[7], guard))
    if not keys or keys[0] != ("offsets", "m_offsets", None):
        raise Unsupported(f'{where}: the first key is not result["offsets"] = make_array( m_offsets )')
    return keys[1:]


def _list_concat(items):
    """[('one', x) | ('list', xs)] -> Lean list expression, adjacent single values merged into one literal"""
    parts, cur = [], []
    for kind, x in items:
        if kind == "one":
            cur.append(x)
        else:
            if cur:
                parts.append("[" + ", ".join(cur) + "]")
                cur = []
            parts.append(x)
    if cur:
        parts.append("[" + ", ".join(cur) + "]")
    return " ++ ".join(parts) if parts else "[]"


def translate_cgem(toks):
    cname = "Bes3CgemClusterColReader"
    cls = find_class(toks, cname)
    where = f"{cname}::read"
    rd = cls.method("read")
    recv = reader_recv(rd, where)
    check_offsets(cls, cls.method(cname), cname)
    if T("int m_version{ -1 }") not in cls.fields:
        raise Unsupported(f"{cname}: `int m_version{{ -1 }}` (version unknown at construction) not found")
    vecs = vector_fields(cls)
    keys = cgem_data_keys(cls, vecs)
    info = {}

    # ---- prefix + loop
    cur = Cur(recv, MODEL_NAMES, where=where)
    pushed, loop = tobjarray_prefix(cur, parse_body(rd, where), where)
    _, bound = counted_for(loop, where)
    n = check_offsets_push(cur, pushed, bound, where)

    # ---- loop body = one cluster object
    b = Cur(recv, MODEL_NAMES, where=where + " (object loop)")
    vname = None            # Lean name of the resolved version, once the `m_version == -1` block has been passed
    member_val = {}         # member -> ('one', x) | ('list', xs)
    guards = {}

    def push_member(m, ty, st_text):
        if m not in vecs or m == "m_offsets":
            raise Unsupported(f"{b.where}: `{st_text}` pushes to `{m}`, which is not a data member vector")
        if vecs[m] != ty:
            raise Unsupported(f"{b.where}: `{st_text}` reads `{ty}` into SharedVector<{vecs[m]}>")
        if m in member_val:
            raise Unsupported(f"{b.where}: `{m}` is filled twice per object")
        return ident(m[2:] if m.startswith("m_") else m), b.read_parser(ty, st_text)

    for st in loop.body:
        if b.step(st):
            continue
        text = getattr(st, "text", st.kind)
        if st.kind == "simple":
            pr = _push_read(st.toks, recv)
            if pr is None:
                raise b.un(text)
            x, (parser, size) = push_member(pr[0], pr[1], text)
            b.lines.append(f"let {x} ← {parser}")
            b.consume(size)
            member_val[pr[0]] = ("one", x)
            b.log.append(text)
            continue
        if st.kind == "if":
            k = _version_test(st.cond)
            if k == -1:
                if vname is not None:
                    raise Unsupported(f"{b.where}: second `{text}` block")
                vname = "v"
                b.lines.append(_version_block(b, st, info))
                b.log.append(text + " { … switch … }")
                continue
            if k is None or k < 0 or len(st.body) != 1 or st.body[0].kind != "simple" or _push_read(st.body[0].toks, recv) is None:
                raise b.un(text + " " + " ".join(getattr(s, "text", s.kind) for s in st.body))
            if vname is None:
                raise Unsupported(f"{b.where}: `{text}` before the class version has been determined")
            m, ty = _push_read(st.body[0].toks, recv)
            x, (parser, size) = push_member(m, ty, st.body[0].text)
            b.lines.append(f"let {x} ← (if {vname} = {k} then (do let x ← {parser}; pure [x]) else pure [])")
            b.consume(None)
            member_val[m] = ("list", x)
            guards[m] = k
            b.log.append(text + " " + st.body[0].text)
            continue
        if st.kind == "for":
            _, bnd = counted_for(st, b.where)
            cnt = _num(bnd[0]) if len(bnd) == 1 else None
            if cnt is None or len(st.body) != 1 or st.body[0].kind != "simple" or _push_read(st.body[0].toks, recv) is None:
                raise b.un(text + " " + " ".join(getattr(s, "text", s.kind) for s in st.body))
            m, ty = _push_read(st.body[0].toks, recv)
            x, (parser, size) = push_member(m, ty, st.body[0].text)
            b.lines.append(f"let {x} ← times {parser} {cnt}")
            b.consume(size * cnt)
            member_val[m] = ("list", x)
            b.log.append(text + " " + st.body[0].text)
            continue
        raise b.un(text)
    if vname is None:
        raise Unsupported(f"{b.where}: no `if ( m_version == -1 ) {{ … }}` block: the class version is never determined")

    # ---- the Cluster record: members in the order of the keys of data()
    fields = {"ints": [], "doubles": [], "clusterFlag": [], "stripID": []}
    for key, m, _ in keys:
        if key not in CLUSTER_FIELD_OF_KEY:
            raise Unsupported(f'{cname}::data: key "{key}" has no place in the model\'s Cluster record')
        f = CLUSTER_FIELD_OF_KEY[key]
        if vecs[m] != CLUSTER_FIELD_TYPE[f]:
            raise Unsupported(f'{cname}: member `{m}` (key "{key}") is SharedVector<{vecs[m]}>, the Cluster field `{f}` holds {CLUSTER_FIELD_TYPE[f]}')
        if m not in member_val:
            raise Unsupported(f'{cname}::read never fills `{m}` (key "{key}")')
        fields[f].append(member_val[m])
    unused = [m for m in member_val if m not in [mm for _, mm, _ in keys]]
    if unused:
        raise Unsupported(f"{cname}::read fills {unused}, which data() does not return")
    for f in ("clusterFlag", "stripID"):
        if len(fields[f]) != 1:
            raise Unsupported(f"{cname}: {len(fields[f])} members map to the Cluster field `{f}`")
    rec = ", ".join(f"{f} := {_list_concat(fields[f])}" for f in ("ints", "doubles", "clusterFlag", "stripID"))
    b.lines.append(f"pure ({{ {rec} }}, {vname})")

    cur.lines.append(f"readClustersCpp {n} version")
    key_segs, seg = [], []
    for key, m, guard in keys:
        if guard is None:
            seg.append(key)
        else:
            if seg:
                key_segs.append(json.dumps(seg))
                seg = []
            key_segs.append(f"(if version = some {guard} then [{json.dumps(key)}] else [])")
    if seg:
        key_segs.append(json.dumps(seg))
    keys_text = " ++\n    ".join(key_segs)
    info.update({"prefix": cur.log, "object": b.log, "keys": [(k, m, g) for k, m, g in keys], "optional_members": guards,
                 "nat_subtractions": b.ctx.get("subs", [])})
    text = f"""/-- the body of the object loop of `Bes3CgemClusterColReader::read`: one cluster object.  `version` is `m_version` on entry
(`none` = -1), the second component of the result is `m_version` afterwards.  Statements, in source order:
{_doc_list(b.log)}
The record collects the members in the order of the keys of `data()`. -/
def readClusterCpp (version : Option Nat) : P (Cluster × Nat) := {do_block(b.lines)}

/-- the object loop `for ( uint32_t i = 0; i < {pushed}; i++ )`, threading `m_version` from object to object -/
def readClustersCpp : Nat → Option Nat → P (List Cluster × Option Nat)
  | 0, version => pure ([], version)
  | k + 1, version => do
    let (c, v) ← readClusterCpp version
    let (cs, version') ← readClustersCpp k (some v)
    pure (c :: cs, version')

/-- `Bes3CgemClusterColReader::read` for one entry.  Statements before the object loop, in source order:
{_doc_list(cur.log)} -/
def readCgemColCpp (version : Option Nat) : P (List Cluster × Option Nat) := {do_block(cur.lines)}

/-- the keys of the dict built by `Bes3CgemClusterColReader::data()` (`result["…"] = make_array( … )` in source order, without
"offsets"), as a function of `m_version` at that time -/
def cgemDataKeysCpp (version : Option Nat) : List String :=
  {keys_text}

/-- `int m_version{{ -1 }}`: a fresh reader does not know the class version -/
def versionInitiallyUnknown : Bool := true
"""
    return text, info


def _version_block(b, st, info):
    """`if ( m_version == -1 ) { [auto x = expr;]* switch ( expr ) { case K: m_version = V; break; ... default: throw ...; } }`"""
    env = dict(b.env)
    sts = list(st.body)
    while sts and sts[0].kind == "simple" and len(sts[0].toks) > 3 and sts[0].toks[0] == "auto" and sts[0].toks[2] == "=" \
            and b.strip(sts[0].toks[3:]) is None:
        x = sts[0].toks[1]
        if x in env or x in b.marks:
            raise Unsupported(f"{b.where}: variable `{x}` declared twice")
        e = nat_expr(parse_expr(sts[0].toks[3:]), env, b.ctx)
        env[x] = Lx(e.t, e.prec)
        sts = sts[1:]
    if len(sts) != 1 or sts[0].kind != "switch":
        bad = sts[0] if sts else st
        raise b.un(getattr(bad, "text", bad.kind) + "` inside `" + st.text)
    sw = sts[0]
    scrut = nat_expr(parse_expr(sw.expr), env, b.ctx)
    truncated = bool(b.ctx.get("subs"))
    arms, default = [], None
    for label, body in sw.arms:
        if label is None:
            if not (len(body) == 1 and body[0].kind == "simple" and body[0].toks[:4] == T("throw std::runtime_error")):
                raise Unsupported(f"{b.where}: the default arm of the version switch is not a single throw")
            default = True
            continue
        if default:
            raise Unsupported(f"{b.where}: case after default in the version switch")
        p = pat(body[0].toks, "m_version = #v") if len(body) == 2 and body[0].kind == "simple" else None
        if p is None or body[1].kind != "simple" or body[1].toks != ["break"]:
            raise Unsupported(f"{b.where}: arm `case {label}` of the version switch is not `m_version = <n>; break;`")
        if label in [k for k, _ in arms]:
            raise Unsupported(f"{b.where}: duplicate case {label}")
        if truncated and label <= 0:
            raise Unsupported(f"{b.where}: case {label} on an expression with a subtraction: Nat truncation could create a match")
        arms.append((label, p["v"]))
    if not default or not arms:
        raise Unsupported(f"{b.where}: the version switch needs at least one case and a throwing default (otherwise m_version stays -1)")
    info["version_cases"] = arms
    info["version_expr"] = scrut.t
    chain = " else ".join(f"if {scrut.at('add')} = {k} then pure {v}" for k, v in arms) + " else fail"
    return f"let v ← (match version with\n    | some v => pure v\n    | none => {chain})"


# ------------------------------------------------------------------------------------------------ Bes3SymMatrixArrayReader<T>
def loop_nest(sts, env, where):
    """a nest of counted loops, each the only statement of its parent -> ([(loop variable, Lean bound)], innermost body, env)"""
    env = dict(env)
    loops = []
    while len(sts) == 1 and sts[0].kind == "for":
        i, bound = counted_for(sts[0], where)
        b = nat_expr(parse_expr(bound), env, {})
        if i in env:
            raise Unsupported(f"{where}: loop variable `{i}` shadows another variable")
        env[i] = Lx(ident(i))
        loops.append((ident(i), b))
        sts = sts[0].body
    if not loops:
        raise Unsupported(f"{where}: expected a counted loop, found `{getattr(sts[0], 'text', sts[0].kind) if sts else 'nothing'}`")
    return loops, sts, env


def pure_lets(sts, env, ctx, where):
    """leading `auto x = <integer expression>;` statements, inlined into the environment"""
    env = dict(env)
    sts = list(sts)
    while sts and sts[0].kind == "simple" and len(sts[0].toks) > 3 and sts[0].toks[0] == "auto" and _is_id(sts[0].toks[1]) and sts[0].toks[2] == "=":
        x = sts[0].toks[1]
        if x in env:
            raise Unsupported(f"{where}: variable `{x}` declared twice")
        e = nat_expr(parse_expr(sts[0].toks[3:]), env, ctx)
        env[x] = Lx(e.t, e.prec)
        sts = sts[1:]
    return sts, env


def translate_symmatrix(toks):
    cname = "Bes3SymMatrixArrayReader"
    cls = find_class(toks, cname)
    info = {}
    for f in ("SharedVector<T> m_data", "const uint32_t m_flat_size", "const uint32_t m_full_dim"):
        if T(f) not in cls.fields:
            raise Unsupported(f"{cname}: member `{f}` not found")

    # ---- the index function
    ix = cls.method("get_symmetric_matrix_index")
    p = pat(ix.header, "const int get_symmetric_matrix_index ( int $a , int $b )")
    if p is None or p["a"] == p["b"]:
        raise Unsupported(f"{cname}::get_symmetric_matrix_index: signature `{show(ix.header)}`")
    sts = parse_body(ix, cname + '::get_symmetric_matrix_index')
    if len(sts) != 1 or sts[0].kind != "simple" or sts[0].toks[0] != "return":
        raise Unsupported(f"{cname}::get_symmetric_matrix_index is not a single return statement")
    ictx = {}
    a, b_ = ident(p["a"]), ident(p["b"])
    idx = nat_expr(parse_expr(sts[0].toks[1:]), {p["a"]: Lx(a), p["b"]: Lx(b_)}, ictx)
    info["index_expr"] = show(sts[0].toks[1:])
    info["index_nat_subtractions"] = ictx.get("subs", [])
    calls = {"calls": {"get_symmetric_matrix_index": "symIdxCpp"}}

    # ---- constructor: ( name, flat_size, full_dim ), members initialised from the parameters, double loop with the throw
    ctor = cls.method(cname)
    if len(ctor.params) != 3 or ctor.params[0] != T("std::string name") or any(pat(q, "uint32_t $x") is None for q in ctor.params[1:]):
        raise Unsupported(f"{cname}: constructor parameters `{show(ctor.header)}` are not ( std::string name, uint32_t, uint32_t )")
    pf, pn = ctor.params[1][1], ctor.params[2][1]
    cenv = {pf: Lx("flat"), pn: Lx("n")}
    il = init_list(ctor)
    menv = {}
    for mem in ("m_flat_size", "m_full_dim"):
        if mem not in il or len(il[mem]) != 1 or il[mem][0] not in cenv:
            raise Unsupported(f"{cname}: `{mem}` is not initialised from a constructor parameter")
        menv[mem] = cenv[il[mem][0]]
    if il.get("m_data") != T("make_shared_vector<T>()"):
        raise Unsupported(f"{cname}: m_data is not initialised empty")
    where = f"{cname} constructor"
    loops, inner, env = loop_nest(parse_body(ctor, where), cenv, where)
    cctx = dict(calls)
    inner, env = pure_lets(inner, env, cctx, where)
    if not (len(inner) == 1 and inner[0].kind == "if" and len(inner[0].body) == 1 and inner[0].body[0].kind == "simple"
            and inner[0].body[0].toks[:4] == T("throw std::runtime_error")):
        bad = inner[0] if inner else None
        raise Unsupported(f"{where}: unsupported statement `{getattr(bad, 'text', 'nothing')}` (expected `if ( cond ) {{ throw … }}`)")
    ok = prop_expr(parse_expr(inner[0].cond), env, cctx, negate=True)
    acc = f"decide ({ok})"
    for i, bnd in reversed(loops):
        acc = f"(List.range {bnd.at('atom')}).all (fun {i} => {acc})"
    info["constructor_throws_when"] = show(inner[0].cond)
    info["constructor_loops"] = [(i, bnd.t) for i, bnd in loops]

    # ---- read
    rd = cls.method("read")
    where = f"{cname}::read"
    recv = reader_recv(rd, where)
    sts = parse_body(rd, where)
    if len(sts) < 3:
        raise Unsupported(f"{where}: {len(sts)} statements; expected the buffer declaration, the fill loop and the expansion loops"
                          + "".join(f"\n    `{getattr(s, 'text', s.kind)}`" for s in sts))
    d = sts[0]
    if not (d.kind == "simple" and len(d.toks) > 8 and d.toks[:6] == T("std::vector<T>") and _is_id(d.toks[6]) and d.toks[7] == "(" and d.toks[-1] == ")"):
        raise Unsupported(f"{where}: unsupported statement `{getattr(d, 'text', d.kind)}` (expected `std::vector<T> buf( size );`)")
    arr = d.toks[6]
    size = nat_expr(parse_expr(d.toks[8:-1]), menv, {})
    fill = sts[1]
    if fill.kind != "for":
        raise Unsupported(f"{where}: unsupported statement `{getattr(fill, 'text', fill.kind)}` (expected the fill loop)")
    i, bound = counted_for(fill, where)
    cnt = nat_expr(parse_expr(bound), menv, {})
    if not (len(fill.body) == 1 and fill.body[0].kind == "simple" and fill.body[0].toks == T(f"{arr}[{i}] = {recv}.read<T>()")):
        raise Unsupported(f"{where}: the body of `{fill.text}` is not `{arr}[{i}] = {recv}.read<T>();`")
    if cnt.t != size.t:
        raise Unsupported(f"{where}: the fill loop reads `{cnt.t}` values into a buffer of `{size.t}` (zero-filled or overrun tail)")
    loops, inner, env = loop_nest([sts[2]], menv, where)
    if len(sts) > 3:
        raise Unsupported(f"{where}: unsupported statement `{getattr(sts[3], 'text', sts[3].kind)}` after the expansion loops")
    rctx = dict(calls)
    inner, env = pure_lets(inner, env, rctx, where)
    if not (len(inner) == 1 and inner[0].kind == "simple" and inner[0].toks[:6] == T(f"m_data->push_back( {arr}[") and inner[0].toks[-2:] == ["]", ")"]):
        bad = inner[0] if inner else None
        raise Unsupported(f"{where}: unsupported statement `{getattr(bad, 'text', 'nothing')}` (expected `m_data->push_back( {arr}[idx] );`)")
    at = nat_expr(parse_expr(inner[0].toks[6:-2]), env, rctx)
    body = f"flatArray[{at.t}]?"
    for k, (iv, bnd) in enumerate(reversed(loops)):
        body = f"(List.range {bnd.at('atom')}).{'map' if k == 0 else 'flatMap'} (fun {iv} => {body})"
    info["values_read_per_matrix"] = size.t
    info["expansion_loops"] = [(iv, bnd.t) for iv, bnd in loops]
    if cls.method("data").body != T("auto data_array = make_array( m_data ); return data_array;"):
        raise Unsupported(f"{cname}::data is not `auto data_array = make_array( m_data ); return data_array;`")

    text = f"""/-- `get_symmetric_matrix_index( int {p['a']}, int {p['b']} )`: `return {info['index_expr']};` (the same source expression
`tools/translate/gen.py` translates into `Gen/SymIndex.lean`; `Props/RootCppTie.lean` proves the two translations equal) -/
def symIdxCpp ({a} {b_} : Nat) : Nat := {idx.t}

/-- the constructor `( name, {pf}, {pn} )`: the loops {', '.join(f'`{i} < {bnd}`' for i, bnd in info['constructor_loops'])} throw iff
`{info['constructor_throws_when']}` for some index; `true` = constructed without throwing -/
def symAcceptsCpp (flat n : Nat) : Bool :=
  {acc}

/-- `read`: `std::vector<T> {arr}( {show(d.toks[8:-1])} )` is filled with that many values from the stream (`packed`), then the loops
{', '.join(f'`{i} < {bnd}`' for i, bnd in info['expansion_loops'])} push `{show(inner[0].toks[4:-1])}`; `none` = an index outside the buffer (undefined behaviour) -/
def symExpandCpp {{α : Type}} (flat n : Nat) (packed : List α) : Option (List α) :=
  let flatArray := packed.take {size.at('atom')}
  ({body}).mapM id

/-- `m_flat_size` / `m_full_dim` are the constructor's `{pf}` / `{pn}` (second / third argument); `data()` returns `m_data` -/
def symMembersFromCtorArgs : Bool := true
"""
    return text, info


# ------------------------------------------------------------------------------------------------ driver
HEADER = """-- GENERATED by tools/translate/cpproot.py from src/pybes3/besio/cpp/root_io.hh and uproot-custom.hh. Do not edit.
import Pybes3Verif.Model.TObjArray
import Pybes3Verif.Model.SymMatrix
import Pybes3Verif.Gen.SymIndex
/-! The C++ readers of `root_io.hh` (`Bes3TObjArrayReader`, `Bes3CgemClusterColReader`, `Bes3SymMatrixArrayReader<T>`), translated
statement by statement from the bodies of `read( BinaryBuffer& )`, of the matrix reader's constructor and of `data()` on every run,
together with the `BinaryBuffer` primitives of the third-party `uproot-custom.hh` they call.  `Props/RootCppTie.lean` proves the
definitions below equal to the hand-written models (`Model/TObjArray.lean`, `Model/SymMatrix.lean`, `Model/CgemCol.lean`).
Cursor semantics: `read<T>` consumes sizeof(T) bytes big-endian, `skip(n)` n bytes; `get_cursor() - mark` is the number of bytes
consumed since the mark; integer subtraction is `Nat` subtraction; `m_version` is an `Option Nat` (`none` = -1). -/
namespace Pybes3Verif.Gen.RootCpp
open Pybes3Verif.Root

"""


def generate(src_hh: str, src_uproot_custom_hh: str) -> tuple[str, dict]:
    consts, prims = third_party(src_uproot_custom_hh)
    toks = tokenize(src_hh)
    t_arr, i_arr = translate_tobjarray(toks)
    t_cg, i_cg = translate_cgem(toks)
    t_sym, i_sym = translate_symmatrix(toks)
    L = [HEADER]
    L.append("/-! ### `uproot-custom.hh` (third party): constants and `BinaryBuffer` primitives -/\n\n")
    L.append(f"/-- `const uint32_t kNewClassTag = 0x{consts['kNewClassTag']:08X};` -/\ndef kNewClassTagCpp : Nat := 0x{consts['kNewClassTag']:08X}\n")
    L.append(f"/-- `const uint32_t kByteCountMask = 0x{consts['kByteCountMask']:08X};` -/\ndef kByteCountMaskCpp : Nat := 0x{consts['kByteCountMask']:08X}\n")
    L.append(f"/-- `BinaryBuffer::kIsReferenced = 1ULL << 4` -/\ndef kIsReferencedCpp : Nat := {consts['kIsReferenced']}\n")
    L.append("""/-- `read<T>` was checked token for token: `*reinterpret_cast<const T*>( m_cursor )`, `m_cursor += sizeof( T )`, `bswap16/32/64`
(= `__builtin_bswap…`): a big-endian read of sizeof(T) bytes, the model's `byte` / `u16` / `u32` / `u64` -/
def readIsBigEndian : Bool := true
/-- checked token for token: `skip( n ) { m_cursor += n; }` on a `uint8_t*`, `skip_fVersion() { skip( 2 ); }`,
`skip_fNBytes() { read_fNBytes(); }`, `get_cursor() { return m_cursor; }`,
`skip_null_terminated_string() { while ( *m_cursor != 0 ) { m_cursor++; } m_cursor++; }` (the model's `skipCStr`) -/
def skipPrimitivesAsModelled : Bool := true

/-- `read_fNBytes`: the mask is a single bit and it is set on the non-throwing branch, so `byte_count & ~kByteCountMask` is
`byte_count - kByteCountMask` -/
""")
    L.append(f"def readNBytesCpp : P Nat := {prims['readNBytesCpp']}\n\n")
    L.append(f"/-- `skip_obj_header` -/\ndef skipObjHeaderCpp : P Unit := {prims['skipObjHeaderCpp']}\n\n")
    L.append(f"/-- `skip_TObject` -/\ndef skipTObjectCpp : P Unit := {prims['skipTObjectCpp']}\n\n")
    L.append("/-- `skip_TObject`, returning the number of bytes each branch consumes (what `get_cursor()` differences see) -/\n"
             f"def skipTObjectLenCpp : P Nat := {prims['skipTObjectLenCpp']}\n\n")
    L.append("/-! ### `Bes3TObjArrayReader` -/\n\n" + t_arr + "\n")
    L.append("/-! ### `Bes3CgemClusterColReader` -/\n\n" + t_cg + "\n")
    L.append("/-! ### `Bes3SymMatrixArrayReader<T>` -/\n\n" + t_sym + "\n")
    L.append("end Pybes3Verif.Gen.RootCpp\n")
    info = {"constants": consts, "tobjarray": i_arr, "cgem": i_cg, "symmatrix": i_sym}
    return "".join(L), info


def read_sources(path=None):
    if path is None:
        r = subprocess.run(["git", "-C", REPO, "show", f"HEAD:{SRC_REL}"], capture_output=True, text=True)
        if r.returncode != 0:
            raise Unsupported(f"git show HEAD:{SRC_REL} failed: {r.stderr.strip()}")
        src = r.stdout
    else:
        src = open(path).read()
    return src, open(UPROOT_CUSTOM_HH).read()


if __name__ == "__main__":
    src_path = sys.argv[1] if len(sys.argv) > 1 and sys.argv[1] not in ("", "-") else None   # "-" = HEAD of /repo
    out_path = sys.argv[2] if len(sys.argv) > 2 else OUT_PATH
    try:
        body, info = generate(*read_sources(src_path))
    except Unsupported as ex:
        print(f"Unsupported: {ex}")
        sys.exit(2)
    if not os.path.exists(out_path) or open(out_path).read() != body:
        open(out_path, "w").write(body)
    print(json.dumps(info, indent=1))
