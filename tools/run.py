#!/usr/bin/env python3
"""Single entry point.

  python3 tools/run.py setup
  python3 tools/run.py check C05 [--tier quick|thorough]
  python3 tools/run.py replay replays/C05-xxxx.json

Exit codes for `check`: 0 held / 1 VIOLATION printed / 2 infrastructure failure.
The harness processes need pybes3's dependencies, so this script re-executes itself under
/venv/bin/python when started with another interpreter.
"""
import importlib
import json
import os
import sys
import traceback
from pathlib import Path

HERE = Path(__file__).resolve().parent
VENV_PY = os.environ.get("VERIF_PY", "/venv/bin/python")
if os.path.realpath(sys.executable) != os.path.realpath(VENV_PY) and os.path.exists(VENV_PY) \
        and os.environ.get("VERIF_REEXEC") != "1":
    os.environ["VERIF_REEXEC"] = "1"
    os.execv(VENV_PY, [VENV_PY, str(Path(__file__).resolve()), *sys.argv[1:]])

sys.path.insert(0, str(HERE))
os.environ.setdefault("MRZIMU_PYBES3_VERIF", "1")
os.environ.setdefault("PYTHONDONTWRITEBYTECODE", "1")

from lib import core  # noqa: E402


def main(argv):
    if len(argv) < 1:
        print(__doc__)
        return 2
    cmd = argv[0]
    if cmd == "setup":
        from lib import setup
        return setup.main()
    if cmd == "check":
        prop = argv[1]
        tier = os.environ.get("VERIF_TIER", "quick")
        if "--tier" in argv:
            tier = argv[argv.index("--tier") + 1]
        mod = importlib.import_module(f"checks.{prop.lower()}")
        chk = core.Check(prop, tier)
        try:
            rc = mod.main(chk)
        except core.Infra as ex:
            if chk.failing or chk.broken:
                print(f"[{prop}] infrastructure failure ({ex}) after recording {len(chk.failing)} failing input(s) / {len(chk.broken)} broken obligation(s): reporting them", flush=True)
                return chk.finish(None)
            print(f"INFRA-FAILURE property={prop}: {ex}", flush=True)
            return 2
        except Exception:
            traceback.print_exc()
            if chk.failing or chk.broken:
                # the harness died AFTER it had found something: report that (a crash downstream of a misbehaving implementation must not
                # swallow the failing input already recorded)
                print(f"[{prop}] harness crashed after recording {len(chk.failing)} failing input(s) / {len(chk.broken)} broken obligation(s): reporting them", flush=True)
                return chk.finish(None)
            print(f"INFRA-FAILURE property={prop}: harness crashed", flush=True)
            return 2
        print(f"[{prop}] done tier={tier} seed={chk.seed} rc={rc} wall={chk.coverage and round(__import__('time').time()-chk.t0,1)}s", flush=True)
        return rc
    if cmd == "replay":
        payload = json.loads(Path(argv[1]).read_text())
        prop = payload["property"]
        mod = importlib.import_module(f"checks.{prop.lower()}")
        if hasattr(mod, "replay"):
            return mod.replay(payload)
        print(json.dumps(payload, indent=1))
        return 0
    print(__doc__)
    return 2


if __name__ == "__main__":
    sys.exit(main(sys.argv[1:]))
