"""Differential validation of translated kernels: generated Lean definitions vs the real numba kernels.

For every kernel and every integer dtype the same argument tuples are evaluated by numba (arrays of
that dtype) and by the Lean driver (values sign/zero-extended to 64 bit; `_s` variant for signed
dtypes, `_u` for unsigned). Results are compared modulo 2^64.
"""
from __future__ import annotations

import numpy as np

from . import core

INT_DTYPES = ["uint8", "int8", "uint16", "int16", "uint32", "int32", "uint64", "int64"]


def to_u64(arr: np.ndarray) -> np.ndarray:
    if arr.dtype == np.bool_:
        return arr.astype(np.uint64)
    if arr.dtype.kind == "i":
        return arr.astype(np.int64).astype(np.uint64)   # sign extension
    if arr.dtype.kind == "u":
        return arr.astype(np.uint64)
    raise TypeError(arr.dtype)


def structured_values(rng: np.random.Generator, dtype: str, n: int, interesting=()) -> np.ndarray:
    """n values of dtype: boundary values, `interesting` constants (clipped to range) and random fill."""
    info = np.iinfo(dtype)
    base = [0, 1, 2, 3, 4, 5, 7, 8, info.max, info.max - 1, info.min, info.min + 1 if info.min < 0 else 6]
    for v in interesting:
        for d in (-1, 0, 1):
            if info.min <= v + d <= info.max:
                base.append(v + d)
    base = np.array(base, dtype=object)
    rnd_n = max(0, n - len(base))
    if np.dtype(dtype).itemsize == 8:
        raw = rng.integers(0, 1 << 64, size=rnd_n, dtype=np.uint64).view(np.dtype(dtype) if dtype == "uint64" else np.int64)
        rnd = raw.astype(dtype)
        # half of them small
        small = rng.integers(0, 1 << 20, size=rnd_n).astype(dtype)
        pick = rng.random(rnd_n) < 0.5
        rnd = np.where(pick, rnd, small).astype(dtype)
    else:
        rnd = rng.integers(int(info.min), int(info.max) + 1, size=rnd_n).astype(dtype)
    out = np.concatenate([np.array([int(b) for b in base], dtype=object).astype(dtype), rnd])
    rng.shuffle(out)
    return out[:n] if n < len(out) else out


class KernelDiff:
    def __init__(self, chk: core.Check, driver="Driver/Kernels.lean"):
        self.chk = chk
        self.driver = driver
        self.lines: list[str] = []
        self.expect: list[tuple] = []   # (kernel, dtype, args tuple, numba result u64)
        self.skipped: dict[str, int] = {}

    def add_call(self, name: str, fn, ordered: bool, dtype: str, args: list[np.ndarray], label=None):
        """Evaluate fn(*args) with numba, queue the same calls for the Lean driver."""
        try:
            out = np.asarray(fn(*args))
        except Exception as ex:  # numba TypingError etc.
            key = f"{name}:{dtype}:{type(ex).__name__}"
            self.skipped[key] = self.skipped.get(key, 0) + len(args[0])
            return None
        if out.dtype == np.bool_:
            out64 = out.astype(np.uint64)
        elif out.dtype.kind in "iu":
            out64 = to_u64(out)
        elif out.dtype.kind == "f":
            out64 = np.ascontiguousarray(out.astype(np.float64)).view(np.uint64)
        else:
            raise TypeError(f"{name}: non-integer output dtype {out.dtype}")
        signed = np.dtype(dtype).kind == "i" if dtype != "pyint" else True
        variant = ("_s" if signed else "_u") if ordered else ""
        cols = [to_u64(np.asarray(a)) for a in args]
        n = len(cols[0])
        for i in range(n):
            self.lines.append(name + variant + " " + " ".join(str(int(c[i])) for c in cols))
        self.expect.append((name, dtype, cols, out64, str(out.dtype)))
        self.chk.hist("kernel_dtype_calls", f"{dtype}", n)
        return out

    def run(self) -> list[dict]:
        """Run the Lean driver on everything queued; returns list of disagreements."""
        if not self.lines:
            return []
        out = core.lean_run(self.driver, "\n".join(self.lines) + "\n")
        if len(out) != len(self.lines):
            raise core.DriverError(f"driver returned {len(out)} lines for {len(self.lines)} calls")
        diffs = []
        pos = 0
        for name, dtype, cols, res, odt in self.expect:
            n = len(res)
            got = out[pos:pos + n]
            for i in range(n):
                g = got[i]
                if g == "ERR" or int(g) != int(res[i]):
                    diffs.append({"kernel": name, "dtype": dtype, "args": [int(c[i]) for c in cols],
                                  "numba": int(res[i]), "lean": g, "out_dtype": odt})
                    if len(diffs) > 50:
                        return diffs
            pos += n
        self.chk.count(len(self.lines))
        return diffs
