"""Native builds of the working tree's C++ extension sources behind the pybind11 stand-in (DESIGN.md section 4).

raw_driver      : ASan+UBSan executable, many buffers per process, restart after a sanitizer abort
libraw_native.so: plain build with a C ABI, used through ctypes to back `read_bes_raw` for the Python pipeline
"""
from __future__ import annotations

import ctypes
import json
import os
import struct
import subprocess
from pathlib import Path

import numpy as np

from . import core

NATIVE = core.VERIF / "native"
BUILD = NATIVE / "build"
CPP = core.SRC / "besio" / "cpp"
UPROOT_CUSTOM_INC = Path("/venv/lib/python3.12/site-packages/uproot_custom/include")
SAN = ["-fsanitize=address,undefined", "-fno-sanitize=alignment", "-fno-sanitize-recover=undefined", "-fno-omit-frame-pointer"]
SEL_BITS = {"mdc": 1, "tof": 2, "emc": 4, "muc": 8, "trg": 16, "ef": 32}


def sel_mask(sel) -> int:
    if not sel:
        return 0
    m = 0
    for s in sel:
        m |= SEL_BITS[s]
    return m


def _src_hash(files) -> str:
    import hashlib
    h = hashlib.sha256()
    for f in files:
        h.update(Path(f).read_bytes())
    return h.hexdigest()[:16]


def build(target: str) -> Path:
    """Build (if sources changed) and return the artefact path. Raises BuildError with compiler output."""
    BUILD.mkdir(exist_ok=True)
    specs = {
        "raw_driver": dict(src=NATIVE / "raw_native.cc", deps=[CPP / "raw_io.cc", CPP / "raw_io.hh"],
                           flags=["-O1", "-g", *SAN, "-DRAW_DRIVER_MAIN"], out="raw_driver"),
        "libraw_native": dict(src=NATIVE / "raw_native.cc", deps=[CPP / "raw_io.cc", CPP / "raw_io.hh"],
                              flags=["-O2", "-fPIC", "-shared"], out="libraw_native.so"),
        "raw_tsan": dict(src=NATIVE / "raw_native.cc", deps=[CPP / "raw_io.cc", CPP / "raw_io.hh"],
                         flags=["-O1", "-g", "-fsanitize=thread", "-pthread", "-DRAW_TSAN_MAIN"], out="raw_tsan"),
        "raw_cov": dict(src=NATIVE / "raw_native.cc", deps=[CPP / "raw_io.cc", CPP / "raw_io.hh"],
                        flags=["-O0", "-g", "-fprofile-instr-generate", "-fcoverage-mapping", "-DRAW_DRIVER_MAIN"], out="raw_cov"),
        "root_driver": dict(src=NATIVE / "root_native.cc", deps=[CPP / "root_io.hh", UPROOT_CUSTOM_INC / "uproot-custom" / "uproot-custom.hh"],
                            flags=["-O1", "-g", *SAN], out="root_driver"),
    }
    sp = specs[target]
    files = [sp["src"], *sp["deps"], *(NATIVE / "standin" / "pybind11").rglob("*.h")]
    h = _src_hash(files) + _src_hash([__file__])[:4]
    out = BUILD / sp["out"]
    stamp = BUILD / (sp["out"] + ".hash")
    if out.exists() and stamp.exists() and stamp.read_text() == h:
        return out
    lock = open(BUILD / "build.lock", "w")
    import fcntl
    fcntl.flock(lock, fcntl.LOCK_EX)
    try:
        if out.exists() and stamp.exists() and stamp.read_text() == h:
            return out
        tmp = BUILD / (sp["out"] + ".tmp%d" % os.getpid())
        cmd = ["clang++", "-std=c++17", *sp["flags"], "-I", str(NATIVE / "standin"), "-I", str(CPP), "-I", str(UPROOT_CUSTOM_INC),
               str(sp["src"]), "-o", str(tmp)]
        p = subprocess.run(cmd, capture_output=True, text=True, timeout=600)
        if p.returncode != 0:
            raise BuildError(p.stderr[-4000:])
        os.replace(tmp, out)
        stamp.write_text(h)
    finally:
        fcntl.flock(lock, fcntl.LOCK_UN)
    return out


class BuildError(Exception):
    pass


# ---------------------------------------------------------------------------------------------------
def run_raw_buffers(buffers: list[tuple[list[int] | np.ndarray, int]], quiet=False, timeout=600) -> list[dict]:
    """Run every (words, sel_mask) through the sanitizer build.
    Returns per buffer {"class": "ok"|"error"|"oob"|"timeout", "detail": str, "result": dict|None}."""
    exe = build("raw_driver")
    blob = bytearray()
    for words, m in buffers:
        w = np.asarray(words, dtype=np.uint32)
        blob += struct.pack("<II", len(w), m) + w.tobytes()
    results: list[dict | None] = [None] * len(buffers)
    start = 0
    env = dict(os.environ, ASAN_OPTIONS="detect_leaks=0:abort_on_error=0:allocator_may_return_null=1:max_allocation_size_mb=4096", UBSAN_OPTIONS="print_stacktrace=0")
    while start < len(buffers):
        args = [str(exe), str(start)] + (["q"] if quiet else [])
        try:
            p = subprocess.run(args, input=bytes(blob), capture_output=True, timeout=timeout, env=env)
            out = p.stdout.decode(errors="replace").splitlines()
            timed_out = False
        except subprocess.TimeoutExpired as ex:
            out = (ex.stdout or b"").decode(errors="replace").splitlines()
            timed_out = True
            p = None
        cur = None
        for line in out:
            if line.startswith("BEGIN "):
                cur = int(line[6:])
            elif line == "END":
                cur = None
            elif cur is not None:
                if line.startswith("OK"):
                    results[cur] = {"class": "ok", "detail": "", "result": (json.loads(line[3:]) if not quiet else line[3:])}
                elif line.startswith("ERROR"):
                    results[cur] = {"class": "error", "detail": line[6:], "result": None}
                cur_done = cur
                cur = None
        # a BEGIN without a result line: the process died (sanitizer report) or hung inside that buffer
        last_begin = max([int(l[6:]) for l in out if l.startswith("BEGIN ")], default=None)
        if last_begin is not None and results[last_begin] is None:
            if timed_out:
                results[last_begin] = {"class": "timeout", "detail": f"no result within {timeout}s", "result": None}
            else:
                err = p.stderr.decode(errors="replace")
                kind = "sanitizer"
                for key in ("heap-buffer-overflow", "stack-buffer-overflow", "SEGV", "runtime error", "allocation-size-too-big", "out of memory", "bad_alloc", "length_error", "negative-size-param"):
                    if key in err:
                        kind = key
                        break
                results[last_begin] = {"class": "oob", "detail": kind + ": " + " | ".join(err.strip().splitlines()[:3])[:400], "result": None}
            start = last_begin + 1
        else:
            if any(r is None for r in results[start:]):
                if timed_out:
                    raise core.Infra("raw_driver timed out without progress")
                # died outside a buffer?
                raise core.Infra("raw_driver stopped early: " + (p.stderr.decode(errors='replace')[-500:] if p else ""))
            break
    return results  # type: ignore


# ---------------------------------------------------------------------------------------------------
_lib = None


def native_read_bes_raw(data, sub_detectors=None):
    """Drop-in replacement of besio_cpp.read_bes_raw running the working tree's C++ (plain build)."""
    global _lib
    if _lib is None:
        _lib = ctypes.CDLL(str(build("libraw_native")))
        _lib.raw_parse.restype = ctypes.c_void_p
        _lib.raw_parse.argtypes = [ctypes.c_void_p, ctypes.c_size_t, ctypes.c_int]
        _lib.raw_free.argtypes = [ctypes.c_void_p]
    arr = np.ascontiguousarray(np.asarray(data, dtype=np.uint32))
    for s in (sub_detectors or []):
        if s not in SEL_BITS:
            raise RuntimeError("Invalid sub-detector name: " + s)
    ptr = _lib.raw_parse(arr.ctypes.data, arr.size, sel_mask(sub_detectors))
    try:
        s = ctypes.string_at(ptr).decode()
    finally:
        _lib.raw_free(ptr)
    if s.startswith("ERROR"):
        raise RuntimeError(s[6:])
    return result_to_py(json.loads(s[3:]))


DT = {"id": np.uint16, "adc": np.uint16, "tdc": np.uint16, "overflow": np.uint8, "measure": np.uint8, "fec": np.uint16}


def result_to_py(res: dict) -> dict:
    out = {}
    for k, v in res.items():
        if k == "evt_header":
            out[k] = {n: np.array(a, dtype=np.uint64).astype(np.uint32) for n, a in v.items()}
        elif isinstance(v["data"], dict):
            out[k] = (np.array(v["offsets"], dtype=np.uint64).astype(np.uint32),
                      {n: np.array(a, dtype=np.uint64).astype(DT[n]) for n, a in v["data"].items()})
        else:
            out[k] = (np.array(v["offsets"], dtype=np.uint64).astype(np.uint32), np.array(v["data"], dtype=np.uint64).astype(np.uint32))
    return out


def raw_cpp_coverage(buffers, timeout=900) -> dict:
    """line / branch coverage of the working tree's raw_io.cc reached by `buffers` (list of (words, sel_mask)): how much of the parser the
    generated inputs of a check actually exercise.  Uses a source-based-coverage build of the same driver (clang -fprofile-instr-generate)."""
    import shutil
    import tempfile
    exe = build("raw_cov")
    tmp = Path(tempfile.mkdtemp(prefix="rawcov-"))
    try:
        blob = bytearray()
        for words, m in buffers:
            w = np.asarray(words, dtype=np.uint32)
            blob += struct.pack("<II", len(w), m) + w.tobytes()
        env = dict(os.environ, LLVM_PROFILE_FILE=str(tmp / "raw-%p.profraw"))
        start, runs = 0, 0
        while start < len(buffers) and runs < 50:
            p = subprocess.run([str(exe), str(start), "q"], input=bytes(blob), capture_output=True, timeout=timeout, env=env)
            runs += 1
            begins = [int(l[6:]) for l in p.stdout.decode(errors="replace").splitlines() if l.startswith("BEGIN ")]
            if p.returncode == 0 or not begins:
                break
            start = begins[-1] + 1                      # the process died inside a buffer (no sanitizer here): continue after it
        raws = [str(x) for x in tmp.glob("*.profraw")]
        if not raws:
            return {"error": "no profile written"}
        subprocess.run(["llvm-profdata", "merge", "-sparse", *raws, "-o", str(tmp / "m.profdata")], check=True, capture_output=True, timeout=300)
        ex = subprocess.run(["llvm-cov", "export", "-format=lcov", f"-instr-profile={tmp / 'm.profdata'}", str(exe)], capture_output=True, text=True, timeout=300)
        cur, lines, branches = None, {}, {}
        for l in ex.stdout.splitlines():
            if l.startswith("SF:"):
                cur = l[3:]
            elif cur and cur.endswith("raw_io.cc"):
                if l.startswith("DA:"):
                    ln, cnt = l[3:].split(",")[:2]
                    lines[int(ln)] = lines.get(int(ln), 0) + int(cnt)
                elif l.startswith("BRDA:"):
                    ln, blk, br, cnt = l[5:].split(",")
                    key = (int(ln), blk, br)
                    branches[key] = branches.get(key, 0) + (0 if cnt == "-" else int(cnt))
        unc = sorted(k for k, v in lines.items() if v == 0)
        return {"file": "raw_io.cc", "lines_total": len(lines), "lines_hit": len(lines) - len(unc), "lines_pct": round(100.0 * (len(lines) - len(unc)) / max(1, len(lines)), 1),
                "branches_total": len(branches), "branches_hit": sum(1 for v in branches.values() if v > 0),
                "branches_pct": round(100.0 * sum(1 for v in branches.values() if v > 0) / max(1, len(branches)), 1), "uncovered_lines": unc[:60], "inputs": len(buffers)}
    finally:
        shutil.rmtree(tmp, ignore_errors=True)
