"""Specification-level encoder of BES3 raw DAQ files (Python twin of lean/Pybes3Verif/Spec/RawFormat.lean).

Datatypes Rob/Ros/SubDet/Event/RawFile, `encode_*` (words), `expected(events, sel)` - the intended decode,
stated without reference to the parser - and a seeded generator of well-formed files.
Every word is an int in [0, 2^32).
"""
from __future__ import annotations

import random
import struct
from dataclasses import dataclass, field

FILE_START, FILE_NAME, RUN_PARAMS, DATA_SEP, TAIL_START, FILE_END = 0x1234AAAA, 0x1234AABB, 0x1234BBBB, 0x1234CCCC, 0x1234DDDD, 0x1234EEEE
FULL_EVENT, SUB_DETECTOR, ROS, ROB, ROD = 0xAA1234AA, 0xBB1234BB, 0xCC1234CC, 0xDD1234DD, 0xEE1234EE
SUBDET = {"mdc": 0xA1, "tof": 0xA2, "emc": 0xA3, "muc": 0xA4, "trg": 0xA5, "ef": 0x7C}
DEFAULT_SEL = ["mdc", "tof", "emc", "muc"]
M32 = 0xFFFFFFFF


@dataclass
class Rob:
    data: list[int]                      # payload words (digis)
    status: list[int] = field(default_factory=list)
    status_first: bool = True            # status words before (pos = 0) or after (pos != 0) the data
    status_pos_word: int = 1             # the non-zero value stored when status comes last
    rob_status: list[int] = field(default_factory=list)
    rob_spec: list[int] = field(default_factory=list)
    rod_header_extra: list[int] = field(default_factory=lambda: [0] * 7)
    src: int = 0


@dataclass
class Ros:
    robs: list[Rob]
    status: list[int] = field(default_factory=list)
    spec: list[int] = field(default_factory=lambda: [0, 0, 0])
    src: int = 0


@dataclass
class SubDet:
    det_id: int                          # 16-bit id stored in the upper half of the source identifier
    roses: list[Ros]
    status: list[int] = field(default_factory=list)
    spec: list[int] = field(default_factory=list)
    src_low: int = 0


@dataclass
class Event:
    header: list[int]                    # 10 special words: time, no, run, l1, x, x, tag1..4
    subdets: list[SubDet]
    status: list[int] = field(default_factory=list)
    src: int = 0


def enc_rob(r: Rob) -> list[int]:
    body = (r.status + r.data) if r.status_first else (r.data + r.status)
    rob_header = 7 + len(r.rob_status) + len(r.rob_spec)
    rod_header = 9
    total = rob_header + rod_header + len(body) + 3
    w = [ROB, total, rob_header, 0x3000000, r.src, len(r.rob_status), *r.rob_status, len(r.rob_spec), *r.rob_spec]
    w += [ROD, rod_header, *r.rod_header_extra]
    w += body
    w += [len(r.status), len(r.data), 0 if r.status_first else r.status_pos_word]
    assert len(w) == total
    return w


def enc_ros(s: Ros) -> list[int]:
    inner = [x for r in s.robs for x in enc_rob(r)]
    header = 7 + len(s.status) + 3
    return [ROS, header + len(inner), header, 0x3000000, s.src, len(s.status), *s.status, 3, *s.spec] + inner


def enc_subdet(d: SubDet) -> list[int]:
    inner = [x for r in d.roses for x in enc_ros(r)]
    header = 7 + len(d.status) + len(d.spec)
    return [SUB_DETECTOR, header + len(inner), header, 0x3000000, ((d.det_id & 0xFFFF) << 16) | (d.src_low & 0xFFFF),
            len(d.status), *d.status, len(d.spec), *d.spec] + inner


def enc_event(e: Event) -> list[int]:
    inner = [x for d in e.subdets for x in enc_subdet(d)]
    header = 7 + len(e.status) + 10
    assert len(e.header) == 10
    return [FULL_EVENT, header + len(inner), header, 0x3000000, e.src, len(e.status), *e.status, 10, *e.header] + inner


def enc_block(events: list[Event], block_no=0) -> list[int]:
    inner = [x for e in events for x in enc_event(e)]
    return [DATA_SEP, 4, block_no, 4 * len(inner)] + inner


def pad4(b: bytes) -> bytes:
    return b + b" " * (-len(b) % 4)


def enc_file(blocks: list[list[Event]], name=b"file.raw", tag=b"tag", run=1234) -> bytes:
    n_events = sum(len(b) for b in blocks)
    words = [FILE_START, 8, 0x2050000, 1, 20260929, 120000, 0, 0]
    out = struct.pack("<%dI" % len(words), *words)
    out += struct.pack("<2I", FILE_NAME, len(name)) + pad4(name) + struct.pack("<I", len(tag)) + pad4(tag)
    out += struct.pack("<9I", RUN_PARAMS, 9, run, 0, 0, 0, 0xF, 0, 0)
    for i, b in enumerate(blocks):
        w = enc_block(b, i)
        out += struct.pack("<%dI" % len(w), *w)
    out += struct.pack("<10I", TAIL_START, 10, len(blocks), 0, n_events, 0, 0, 0, 0, FILE_END)
    return out


# ---------------------------------------------------------------------------------------------------
# expected decode (independent of the parser)
# ---------------------------------------------------------------------------------------------------
def unpack(det: str, w: int):
    if det == "mdc":
        return {"id": (w >> 18) & 0x3FFF, "tq": (w >> 17) & 1, "ov": (w >> 16) & 1, "val": w & 0xFFFF}
    if det == "tof":
        return {"id": (w >> 21) & 0x3FF, "tq": (w >> 20) & 1, "ov": (w >> 19) & 1, "val": w & 0x7FFF}
    if det == "emc":
        return {"id": (w >> 19) & 0x1FFF, "tdc": (w >> 13) & 0x3F, "measure": (w >> 11) & 3, "adc": w & 0x7FF}
    if det == "muc":
        return {"id": (w >> 16) & 0x7FF, "fec": w & 0xFFFF}
    raise KeyError(det)


def rob_rows(det: str, words: list[int]):
    """rows contributed by one ROB payload"""
    if det in ("mdc", "tof"):
        acc: dict[int, list[int]] = {}
        for w in words:
            u = unpack(det, w)
            a = acc.setdefault(u["id"], [0, 0, 0])
            a[u["tq"]] = u["val"]
            a[2] |= u["ov"]
        return [{"id": i, "tdc": a[0], "adc": a[1], "overflow": a[2]} for i, a in sorted(acc.items())]
    if det == "emc":
        return [{"id": u["id"], "adc": u["adc"], "tdc": u["tdc"], "measure": u["measure"]} for u in map(lambda w: unpack(det, w), words)]
    if det == "muc":
        return [{"id": u["id"], "fec": u["fec"]} for u in map(lambda w: unpack(det, w), words)]
    return list(words)       # trg / ef: raw words


HDR_NAMES = ["evt_time", "evt_no", "run_no", "l1_id", "evt_tag1", "evt_tag2", "evt_tag3", "evt_tag4"]


def expected(events: list[Event], sel: list[str] | None = None):
    """one record per event: header dict + per selected detector list of rows"""
    sel = sel or DEFAULT_SEL
    id2name = {v: k for k, v in SUBDET.items()}
    out = []
    for e in events:
        h = e.header
        rec = {"evt_header": dict(zip(HDR_NAMES, [h[0], h[1], h[2], h[3], h[6], h[7], h[8], h[9]]))}
        for s in sel:
            rec[s] = []
        for d in e.subdets:
            nm = id2name.get(d.det_id)
            if nm is None or nm not in sel:
                continue
            for ros in d.roses:
                for rob in ros.robs:
                    rec[nm] += rob_rows(nm, rob.data)
        out.append(rec)
    return out


# ---------------------------------------------------------------------------------------------------
# generator
# ---------------------------------------------------------------------------------------------------
def gen_word(rng: random.Random, det: str, ids: list[int]) -> int:
    r = rng.random()
    if r < 0.08:
        return M32
    if r < 0.12:
        return 0
    i = rng.choice(ids)
    if det == "mdc":
        return ((i & 0x3FFF) << 18) | (rng.getrandbits(1) << 17) | ((rng.random() < 0.2) << 16) | rng.choice([0, 1, 0xFFFF, rng.getrandbits(16)])
    if det == "tof":
        return (rng.getrandbits(1) << 31) | ((i & 0x3FF) << 21) | (rng.getrandbits(1) << 20) | ((rng.random() < 0.2) << 19) | (rng.getrandbits(4) << 15) | rng.choice([0, 0x7FFF, rng.getrandbits(15)])
    if det == "emc":
        return ((i & 0x1FFF) << 19) | (rng.getrandbits(6) << 13) | (rng.getrandbits(2) << 11) | rng.getrandbits(11)
    if det == "muc":
        return (rng.getrandbits(5) << 27) | ((i & 0x7FF) << 16) | rng.getrandbits(16)
    return rng.getrandbits(32)


def gen_rob(rng, det) -> Rob:
    n = rng.choice([0, 0, 1, 2, 3, 5, 8, 20])
    width = {"mdc": 14, "tof": 10, "emc": 13, "muc": 11}.get(det, 8)
    ids = [rng.getrandbits(width) for _ in range(max(1, n // 2))] + [0, (1 << width) - 1]
    data = [gen_word(rng, det, ids) for _ in range(n)]
    st = [rng.getrandbits(32) for _ in range(rng.choice([0, 0, 1, 2, 5]))]
    return Rob(data=data, status=st, status_first=rng.random() < 0.5, status_pos_word=rng.choice([1, 1, 2, M32]),
               rob_status=[rng.getrandbits(32) for _ in range(rng.choice([0, 1, 2]))],
               rob_spec=[rng.getrandbits(32) for _ in range(rng.choice([0, 0, 3]))],
               rod_header_extra=[rng.getrandbits(32) for _ in range(7)], src=rng.getrandbits(32))


def gen_event(rng: random.Random, evt_no: int) -> Event:
    dets = []
    for _ in range(rng.choice([0, 1, 2, 3, 4, 5, 6])):
        did = rng.choice([0xA1, 0xA2, 0xA3, 0xA4, 0xA5, 0x7C, 0xA1, 0xA3, 0x55, 0xFFFF, 0xA6, 0x01A1, 0x5AA3, 0xFFA2, 0x017C, 0xA100])   # incl. unknown 16-bit ids whose low / high byte is a known id
        name = {v: k for k, v in SUBDET.items()}.get(did, "trg")
        roses = [Ros(robs=[gen_rob(rng, name) for _ in range(rng.choice([0, 1, 1, 2, 4]))],
                     status=[rng.getrandbits(32) for _ in range(rng.choice([0, 0, 1]))],
                     spec=[rng.getrandbits(32) for _ in range(3)], src=rng.getrandbits(32))
                 for _ in range(rng.choice([0, 1, 1, 2, 3]))]
        dets.append(SubDet(det_id=did, roses=roses, status=[rng.getrandbits(32) for _ in range(rng.choice([0, 0, 2]))],
                           spec=[rng.getrandbits(32) for _ in range(rng.choice([0, 1, 4]))], src_low=rng.getrandbits(16)))
    hdr = [rng.getrandbits(32), evt_no, 1234, rng.getrandbits(32), 0xDEAD, 0xBEEF, rng.getrandbits(32), 0, M32, rng.getrandbits(32)]
    return Event(header=hdr, subdets=dets, status=[rng.getrandbits(32) for _ in range(rng.choice([0, 0, 1, 3]))], src=rng.getrandbits(32))


def gen_blocks(rng: random.Random, n_events=None) -> list[list[Event]]:
    if n_events is None:
        n_events = rng.choice([0, 1, 2, 3, 5, 8, 13, 30])
    blocks, i = [], 0
    while i < n_events:
        k = min(n_events - i, rng.choice([1, 1, 1, 2, 3, 4]))
        blocks.append([gen_event(rng, i + j) for j in range(k)])
        i += k
    return blocks
