"""Shared machinery for every property check (DESIGN.md section 2).

Verdict protocol implemented here (section 2.4):
  regenerate -> prove (lake build + axiom audit) -> correspond -> (if anything broke) search
  exit 0  : property held on everything explored (KNOWN-FINDING lines allowed)
  exit 1  : a line "VIOLATION property=<id> replay=<path>[ no-failing-input-found]" was printed
  exit 2  : infrastructure failure (tool missing, timeout) - never a verdict
"""
from __future__ import annotations

import fcntl
import hashlib
import json
import os
import random
import re
import subprocess
import sys
import time
from pathlib import Path

VERIF = Path(__file__).resolve().parents[2]
REPO = Path(os.environ.get("VERIF_REPO", "/repo"))
SRC = REPO / "src" / "pybes3"
LEAN = VERIF / "lean"
PY = os.environ.get("VERIF_PY", "/venv/bin/python")
GUARD = "MRZIMU_PYBES3_VERIF"
ALLOWED_AXIOMS = {"propext", "Classical.choice", "Quot.sound"}
FORBIDDEN = re.compile(r"\bsorry\b|\badmit\b|^axiom |native_decide|implemented_by|\bunsafe |maxHeartbeats 0", re.M)


class Infra(Exception):
    """Infrastructure failure: exit 2."""


def sha(path_or_bytes) -> str:
    if isinstance(path_or_bytes, (str, Path)):
        data = Path(path_or_bytes).read_bytes()
    else:
        data = path_or_bytes
    return hashlib.sha256(data).hexdigest()[:16]


def write_if_changed(path: Path, text: str) -> bool:
    path.parent.mkdir(parents=True, exist_ok=True)
    if path.exists() and path.read_text() == text:
        return False
    tmp = path.with_suffix(path.suffix + ".tmp%d" % os.getpid())
    tmp.write_text(text)
    os.replace(tmp, path)
    return True


class LakeLock:
    def __enter__(self):
        (LEAN / ".lake").mkdir(exist_ok=True)
        self.f = open(LEAN / ".lake" / "verif.lock", "w")
        fcntl.flock(self.f, fcntl.LOCK_EX)
        return self

    def __exit__(self, *a):
        fcntl.flock(self.f, fcntl.LOCK_UN)
        self.f.close()


def strip_lean_comments(text: str) -> str:
    text = re.sub(r"/-.*?-/", "", text, flags=re.S)
    return re.sub(r"--.*", "", text)


def run_cmd(cmd, *, cwd=None, input=None, timeout=3600, env=None):
    e = dict(os.environ)
    e.setdefault(GUARD, "1")
    if env:
        e.update(env)
    try:
        p = subprocess.run(cmd, cwd=cwd, input=input, capture_output=True, text=True, timeout=timeout, env=e)
    except subprocess.TimeoutExpired as ex:
        raise Infra(f"timeout after {timeout}s: {cmd}") from ex
    return p.returncode, p.stdout, p.stderr


def lake_build(targets: list[str], timeout=3000):
    """Build the given Lean modules. Returns (ok, log)."""
    with LakeLock():
        rc, out, err = run_cmd(["lake", "build", *targets], cwd=LEAN, timeout=timeout)
    return rc == 0, out + err


def lean_run(driver: str, input_text: str, timeout=1800) -> list[str]:
    """Run a line-protocol driver (`lake env lean --run Driver/X.lean`) on input_text."""
    rc, out, err = run_cmd(["lake", "env", "lean", "--run", driver], cwd=LEAN, input=input_text, timeout=timeout)
    if rc != 0:
        raise DriverError(f"driver {driver} failed rc={rc}: {err[-2000:]}{out[-500:]}")
    return out.splitlines()


def module_closure(mods: list[str]) -> list[str]:
    """the project modules (Pybes3Verif.*) reachable from `mods` through imports, dependencies first"""
    seen, order = set(), []
    def visit(m):
        if m in seen:
            return
        seen.add(m)
        f = LEAN / (m.replace(".", "/") + ".lean")
        if not f.exists():
            return
        for line in strip_lean_comments(f.read_text()).splitlines():
            mm = re.match(r"\s*(?:public\s+)?import\s+(Pybes3Verif\.\S+)", line)
            if mm:
                visit(mm.group(1))
        order.append(m)
    for m in mods:
        visit(m)
    return order


class DriverError(Exception):
    pass


def theorem_names(props_file: Path) -> list[str]:
    """Names of all theorems in a Props file, qualified by the namespaces in force."""
    txt = strip_lean_comments(props_file.read_text())
    names, ns = [], []
    for line in txt.splitlines():
        m = re.match(r"\s*namespace\s+(\S+)", line)
        if m:
            ns.append(m.group(1)); continue
        m = re.match(r"\s*end\s+(\S+)", line)
        if m and ns and ns[-1] == m.group(1):
            ns.pop(); continue
        if re.match(r"\s*(?:@\[[^\]]*\]\s*)?private\s+theorem", line):
            continue    # private helper lemmas cannot be named from the audit file; they are covered through their users
        m = re.match(r"\s*(?:@\[[^\]]*\]\s*)?(?:protected\s+)?theorem\s+(\S+)", line)
        if m:
            names.append(".".join(ns + [m.group(1)]))
    return names


def audit(prop: str, extra_allowed=lambda thm, ax: False, modules=None):
    """#print axioms for every theorem of Props/<module>.lean (default: Props/<prop>.lean); grep for
    forbidden constructs.  Returns dict(ok, theorems={name:[axioms]}, problems=[...])."""
    modules = modules or [prop]
    names = []
    for m in modules:
        names += theorem_names(LEAN / "Pybes3Verif" / "Props" / f"{m}.lean")
    problems = []
    # forbidden-construct grep over the whole project (comments stripped)
    # every module of the library (import closure of the root file; files that nothing imports are not part of it) and the drivers
    lib_files = [LEAN / (m.replace(".", "/") + ".lean") for m in module_closure(["Pybes3Verif"] + [f"Pybes3Verif.Props.{m}" for m in modules])]
    for f in [x for x in lib_files if x.exists()] + list((LEAN / "Driver").glob("*.lean")):
        m = FORBIDDEN.search(strip_lean_comments(f.read_text()))
        if m:
            problems.append(f"forbidden construct {m.group(0)!r} in {f.relative_to(LEAN)}")
    if not names:
        problems.append(f"no theorems found in Props/{modules}.lean")
    audit_file = LEAN / "Audit" / f"{prop}.lean"
    body = "".join(f"import Pybes3Verif.Props.{m}\n" for m in modules) + "".join(f"#print axioms {n}\n" for n in names)
    write_if_changed(audit_file, body)
    with LakeLock():
        rc, out, err = run_cmd(["lake", "env", "lean", str(audit_file.relative_to(LEAN))], cwd=LEAN, timeout=1800)
    text = out + err
    thms = {}
    for m in re.finditer(r"'(\S+)' depends on axioms: \[([^\]]*)\]", text, flags=re.S):
        thms[m.group(1)] = [a.strip() for a in m.group(2).replace("\n", " ").split(",") if a.strip()]
    for m in re.finditer(r"'(\S+)' does not depend on any axioms", text):
        thms[m.group(1)] = []
    if rc != 0:
        problems.append("audit file failed to elaborate: " + text[-1500:])
    for n in names:
        if n not in thms:
            problems.append(f"no axiom report for theorem {n}")
            continue
        for ax in thms[n]:
            if ax in ALLOWED_AXIOMS or extra_allowed(n, ax):
                continue
            problems.append(f"theorem {n} depends on non-allowed axiom {ax}")
    return {"ok": not problems, "theorems": thms, "problems": problems, "names": names}


def load_known_findings(prop: str):
    f = VERIF / "known_findings.json"
    if not f.exists():
        return []
    return [k for k in json.loads(f.read_text())["findings"] if k["property"] == prop]


class Check:
    """Per-run state and reporting for one property."""

    def __init__(self, prop: str, tier: str):
        self.prop = prop
        self.tier = tier
        self.seed = int(os.environ.get("VERIF_SEED", "0"))
        self.rng = random.Random(f"{prop}-{self.seed}")
        self.t0 = time.time()
        self.level = "proof"
        self.coverage: dict = {"samples": []}
        self.assumptions: list[str] = []
        self.broken: list[dict] = []      # broken obligations (theorem / translator / correspondence)
        self.failing: list[dict] = []     # concrete failing inputs found on the implementation
        self.known_hits: list[str] = []
        self.violations = 0
        self.evals = 0
        self.distinct: set = set()
        (VERIF / "replays").mkdir(exist_ok=True)
        (VERIF / "evidence").mkdir(exist_ok=True)

    # ---- bookkeeping -------------------------------------------------------------------
    def count(self, n=1, key=None):
        self.evals += n
        if key is not None:
            self.distinct.add(key)

    def sample(self, s, cap=6):
        if len(self.coverage["samples"]) < cap:
            self.coverage["samples"].append(s)

    def hist(self, name, key, n=1):
        h = self.coverage.setdefault(name, {})
        h[str(key)] = h.get(str(key), 0) + n

    def log(self, *a):
        print(f"[{self.prop} {time.time()-self.t0:6.1f}s]", *a, flush=True)

    # ---- obligations ---------------------------------------------------------------------
    def obligation_broken(self, kind: str, name: str, detail: str):
        """kind: theorem | translator | correspondence"""
        self.log(f"BROKEN {kind} {name}: {detail[:400]}")
        self.broken.append({"kind": kind, "obligation": name, "detail": detail[-4000:]})

    def failing_input(self, what: str, input, observed, expected, oracle: str, finding_key=None):
        self.failing.append({"what": what, "input": input, "observed": observed, "expected": expected,
                             "oracle": oracle, "finding_key": finding_key})

    def prove(self, extra_targets=(), extra_allowed=lambda thm, ax: False, modules=None):
        """lake build Props.<module>... and audit the axioms of all their theorems. Records broken obligations."""
        modules = modules or [self.prop]
        tgt = [f"Pybes3Verif.Props.{m}" for m in modules] + list(extra_targets)
        ok, log = lake_build(tgt)
        self.coverage["checker_cmd"] = f"cd lean && lake build {' '.join(tgt)} && lake env lean Audit/{self.prop}.lean"
        if not ok:
            errs = "\n".join(l for l in log.splitlines() if "error" in l.lower())[:3000]
            self.obligation_broken("theorem", f"lake build {' '.join(tgt)}", errs + "\n----\n" + log[-3000:])
            nthm = sum(len(theorem_names(LEAN / 'Pybes3Verif' / 'Props' / f'{m}.lean')) for m in modules)
            self.coverage.update(obligations=max(1, nthm), discharged=0)
            return False
        a = audit(self.prop, extra_allowed, modules)
        axs_all = sorted({ax for v in a["theorems"].values() for ax in v})
        native = [x for x in axs_all if "._native." in x]
        axs = [x for x in axs_all if "._native." not in x]
        if native:
            axs.append(f"{len(native)} per-theorem bv_decide certificate axioms (<theorem>._native.bv_decide.ax_*)")
            self.coverage["native_axioms"] = native
        self.coverage["obligations"] = len(a["names"])
        self.coverage["discharged"] = len([n for n in a["names"] if n in a["theorems"]]) if a["ok"] else 0
        self.coverage["theorems"] = a["names"]
        self.coverage.setdefault("trusted_base", [])
        self.coverage["trusted_base"] += ["Lean 4.33.0 kernel", "axioms: " + ", ".join(axs)]
        if not a["ok"]:
            self.obligation_broken("theorem", "axiom audit", "\n".join(a["problems"]))
            return False
        self.log(f"proved: {len(a['names'])} theorems, axioms {axs}")
        if self.tier == "thorough" and os.environ.get("VERIF_NO_LEANCHECKER") != "1":
            mods = module_closure([t for t in tgt if t.startswith("Pybes3Verif.")])
            # one invocation per module (each replays that module's declarations on top of its imports): a single invocation
            # over all modules keeps everything resident (34 GB for the C08 closure)
            from concurrent.futures import ThreadPoolExecutor
            def one(m):
                rc, out, err = run_cmd(["lake", "env", "leanchecker", m], cwd=LEAN, timeout=7200)
                return m, rc, (out + err)[-1500:]
            with ThreadPoolExecutor(max_workers=3) as ex:
                results = list(ex.map(one, mods))
            bad = [(m, rc, o) for m, rc, o in results if rc != 0]
            self.coverage["leanchecker"] = {"modules_rechecked": len(mods), "failed": [m for m, _, _ in bad]}
            if bad:
                self.obligation_broken("theorem", f"leanchecker (independent kernel re-check of {len(mods)} compiled modules)", "\n".join(f"{m}: rc={rc} {o}" for m, rc, o in bad)[-3000:])
                return False
            self.coverage["trusted_base"] += [f"leanchecker re-checked the {len(mods)} compiled modules the theorems depend on"]
            self.log(f"leanchecker: {len(mods)} modules re-checked")
        return True

    # ---- verdict --------------------------------------------------------------------------
    def _replay_path(self, payload) -> Path:
        h = hashlib.sha256(json.dumps(payload, sort_keys=True, default=str).encode()).hexdigest()[:12]
        return VERIF / "replays" / f"{self.prop}-{h}.json"

    def _emit_violation(self, payload, no_input=False):
        payload = dict(payload)
        payload.update(property=self.prop, seed=self.seed, tier=self.tier)
        p = self._replay_path(payload)
        payload["rerun"] = f"python3 tools/run.py replay {p.relative_to(VERIF)}"
        p.write_text(json.dumps(payload, indent=1, default=str))
        line = f"VIOLATION property={self.prop} replay={p.relative_to(VERIF)}"
        if no_input:
            line += " no-failing-input-found"
        print(line, flush=True)
        self.violations += 1

    def match_known(self, fail) -> dict | None:
        key = fail.get("finding_key")
        for k in load_known_findings(self.prop):
            if k.get("status") != "recorded":
                continue
            m = k.get("match", {})
            if key is not None and m.get("key") == key.get("key"):
                allowed = m.get("members")
                if allowed is None or key.get("member") in allowed:
                    return k
        return None

    def finish(self, search=None) -> int:
        """Apply the verdict protocol. `search` is called (and must populate self.failing via
        failing_input) when an obligation is broken and no failing input has been found yet."""
        if self.broken and search is not None and not [f for f in self.failing if self.match_known(f) is None]:
            self.log("obligation broken -> searching the implementation for a failing input")
            try:
                search()
            except Infra:
                raise
            except Exception as ex:  # a crashing search must not hide the broken obligation
                self.log(f"search raised {type(ex).__name__}: {ex}")
        reported_known = set()
        new_fail = []
        for f in self.failing:
            k = self.match_known(f)
            if k is not None:
                if k["id"] not in reported_known:
                    print(f"KNOWN-FINDING: property={self.prop} {k['what']}", flush=True)
                    reported_known.add(k["id"])
                    self.known_hits.append(k["id"])
            else:
                new_fail.append(f)
        if new_fail:
            for f in new_fail[:3]:
                self._emit_violation({"kind": "input", **{k: v for k, v in f.items() if k != "finding_key"},
                                      "broken_obligations": self.broken})
        elif self.broken:
            b = self.broken[0]
            self._emit_violation({"kind": b["kind"], "obligation": b["obligation"], "detail": b["detail"],
                                  "all_broken": [x["obligation"] for x in self.broken],
                                  "note": "implementation passed the property's oracle on everything searched; "
                                          "the property is no longer shown to hold by the proof/correspondence"},
                                 no_input=True)
        self.write_evidence()
        return 1 if self.violations else 0

    def write_evidence(self):
        cov = dict(self.coverage)
        cov["evaluations"] = self.evals
        cov["distinct_nontrivial"] = len(self.distinct)
        cov.setdefault("rule", "see DESIGN.md section for this property")
        if not cov["samples"]:
            cov["samples"] = ["(no sample recorded)"]
        if self.known_hits:
            cov["known_findings_reproduced"] = self.known_hits
        if self.broken:
            cov["broken_obligations"] = [b["obligation"] for b in self.broken]
            if self.level == "proof":
                cov["discharged"] = 0 if any(b["kind"] == "theorem" for b in self.broken) else cov.get("discharged", 0)
        ev = {
            "property_id": self.prop, "tier": self.tier, "seed": self.seed, "level": self.level,
            "coverage": cov, "assumptions": self.assumptions, "wall_s": round(time.time() - self.t0, 2),
            "violations": self.violations,
        }
        (VERIF / "evidence" / f"{self.prop}.json").write_text(json.dumps(ev, indent=1, default=str))


def repo_py(code: str, *, timeout=1800, env=None, input=None):
    """Run Python code in a fresh /venv interpreter (real pybes3 from the working tree)."""
    rc, out, err = run_cmd([PY, "-c", code], timeout=timeout, env=env, input=input, cwd=str(VERIF))
    return rc, out, err


def regen_rootcpp(chk):
    """regenerate Gen/RootCpp.lean from the working tree's root_io.hh (Props/RootCppTie.lean proves it equal to the reader models)"""
    from translate import gen
    g = gen.gen_rootcpp()
    if not g["ok"]:
        chk.obligation_broken("translator", "translate the readers of root_io.hh into Gen/RootCpp.lean", g["error"])
        return False
    chk.coverage["rootcpp_translation"] = {k: (v if len(str(v)) < 200 else str(v)[:200]) for k, v in g["info"].items()} if isinstance(g["info"], dict) else str(g["info"])[:300]
    return True


def regen_entry(chk):
    """regenerate Gen/EntryPy.lean from the package's __init__.py files (Props/EntryTie.lean: public names are the home definitions,
    the besio wrappers forward their arguments unchanged)"""
    from translate import gen
    g = gen.gen_entrypy()
    if not g["ok"]:
        chk.obligation_broken("translator", "translate the package glue (__init__.py files: public names -> definitions, besio wrappers) into Gen/EntryPy.lean", g["error"])
        return False
    chk.coverage["entry_translation"] = g["info"]
    return True


def regen_rootpy(chk):
    """regenerate Gen/RootPy.lean from the working tree's root_io.py (Props/RootTie.lean proves it equal to the models)"""
    from translate import gen
    g = gen.gen_rootpy()
    if not g["ok"]:
        chk.obligation_broken("translator", "translate root_io.py (digi lifting loops, dispatch, tables, factory forms) into Gen/RootPy.lean", g["error"])
        return False
    chk.coverage["rootpy_translation"] = g["info"]
    return True
