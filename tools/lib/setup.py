"""`python3 tools/run.py setup`: regenerate the generated models from /repo, build the whole Lean library and the native drivers."""
import sys
import time

from . import core, native


def main() -> int:
    t0 = time.time()
    from translate import gen
    for name in ("gen_digi", "gen_geom", "gen_reid", "gen_raw_consts", "gen_sym_index", "gen_helix", "gen_helixprops", "gen_rootpy", "gen_reidpy", "gen_cachepy", "gen_rawpy", "gen_detparse", "gen_awkpy", "gen_rootcpp", "gen_rawcpp", "gen_finalpy", "gen_geompy", "gen_entrypy"):
        r = getattr(gen, name)()
        print(f"[setup] {name}: {'ok' if r['ok'] else 'FAILED ' + str(r['error'])}", flush=True)
    ok, log = core.lake_build(["Pybes3Verif"], timeout=3400)
    print(f"[setup] lake build Pybes3Verif: {'ok' if ok else 'FAILED'} ({time.time()-t0:.0f}s)", flush=True)
    if not ok:
        print(log[-4000:])
    for tgt in ("raw_driver", "libraw_native", "root_driver"):
        try:
            native.build(tgt)
            print(f"[setup] native {tgt}: ok", flush=True)
        except Exception as ex:
            print(f"[setup] native {tgt}: FAILED {ex}", flush=True)
            ok = False
    # warm the driver scripts (elaboration of the Driver/*.lean files is not cached by lake)
    print(f"[setup] done in {time.time()-t0:.0f}s", flush=True)
    return 0 if ok else 1
