"""Python twin of lean/Pybes3Verif/Spec/RootStream.lean: encoders of serialised TObjArray collection streams with the
per-object choices the ROOT format allows, a generator of element classes (kind-specs) and of well-formed streams."""
from __future__ import annotations

import random
import struct

K_NEW_CLASS_TAG = 0xFFFFFFFF
K_BYTE_COUNT_MASK = 0x40000000
K_IS_REFERENCED = 1 << 4


def be(n, v):
    return int(v).to_bytes(n, "big")


def enc_obj_hdr(count, class_name=None, ref_tag=0x80000005):
    out = be(4, count | K_BYTE_COUNT_MASK)
    if class_name is not None:
        out += be(4, K_NEW_CLASS_TAG) + class_name + b"\x00"
    else:
        out += be(4, ref_tag)
    return out


def enc_tobject(version, uid, bits, pidf=0):
    return be(2, version) + be(4, uid) + be(4, bits) + (be(2, pidf) if bits & K_IS_REFERENCED else b"")


SIZES = {"b": 1, "h": 2, "i": 4, "f": 4, "l": 8, "d": 8}


def gen_kind(rng: random.Random, depth=0):
    """returns a kind-spec tree: ('b'|'h'|'i'|'l'|'f'|'d'|'T',) | ('A', n, kind) | ('C', [kinds])"""
    r = rng.random()
    if depth >= 2 or r < 0.55:
        return (rng.choice("bhilfdii"),)
    if r < 0.75:
        return ("A", rng.choice([1, 2, 3, 5]), gen_kind(rng, depth + 1))
    return ("C", [("T",)] * (rng.random() < 0.5) + [gen_kind(rng, depth + 1) for _ in range(rng.choice([1, 2, 3]))])


def gen_elem_class(rng):
    """element class of a collection: a class wrapper with a TObject base first (like every BES3 element class)"""
    members = [("T",)] + [gen_kind(rng, 0) for _ in range(rng.choice([1, 2, 3, 5]))]
    return ("C", members)


def spec_str(k):
    if k[0] == "A":
        return f"A{k[1]}({spec_str(k[2])})"
    if k[0] == "C":
        return "C(" + "".join(spec_str(m) for m in k[1]) + ")"
    return k[0]


def enc_value(k, rng: random.Random, leaves: list, referenced_prob=0.3):
    """random value of kind k: returns bytes, appends the leaf values (as unsigned bit patterns) to `leaves`"""
    if k[0] in SIZES:
        n = SIZES[k[0]]
        v = rng.choice([0, 1, (1 << (8 * n)) - 1, 1 << (8 * n - 1), rng.getrandbits(8 * n)])
        if k[0] == "d" and rng.random() < 0.5:
            v = struct.unpack(">Q", struct.pack(">d", rng.uniform(-1e3, 1e3)))[0]
        leaves.append(v)
        return be(n, v)
    if k[0] == "T":
        bits = rng.choice([0x03000000, 0x03000000 | K_IS_REFERENCED if rng.random() < referenced_prob else 0x03000000, rng.getrandbits(32)])
        return enc_tobject(rng.choice([1, 2]), rng.getrandbits(32), bits, rng.getrandbits(16))
    if k[0] == "A":
        return b"".join(enc_value(k[2], rng, leaves) for _ in range(k[1]))
    body = be(2, rng.choice([1, 2, 7])) + b"".join(enc_value(m, rng, leaves) for m in k[1])
    return be(4, len(body) | K_BYTE_COUNT_MASK) + body


def enc_tobjarray(objs: list[bytes], rng: random.Random, class_name=b"TFoo"):
    """one entry: array header + (object header, object)*; header variants chosen at random"""
    out = be(4, rng.getrandbits(20) | K_BYTE_COUNT_MASK) + be(2, 3) + be(2, 1) + be(4, 0) + be(4, 0x03000000) + b"\x00"
    out += be(4, len(objs)) + be(4, 0)
    for i, o in enumerate(objs):
        if i == 0 or rng.random() < 0.15:
            hdr = enc_obj_hdr(rng.getrandbits(16), class_name=class_name)
        else:
            hdr = enc_obj_hdr(rng.getrandbits(16), ref_tag=rng.choice([0x80000005, 0x8000FFFF, 0x80000001]))
        out += hdr + o
    return out


def gen_stream(rng: random.Random):
    """returns (kind, entries(list of bytes), counts, leaves)"""
    kind = gen_elem_class(rng)
    n_ev = rng.choice([0, 1, 2, 3, 5, 10, 40])
    counts = [rng.choice([0, 0, 1, 2, 3, 7]) if rng.random() < 0.97 else 300 for _ in range(n_ev)]
    leaves: list[int] = []
    entries = []
    for c in counts:
        objs = [enc_value(kind, rng, leaves) for _ in range(c)]
        entries.append(enc_tobjarray(objs, rng))
    return kind, entries, counts, leaves


def malform(entries: list[bytes], rng: random.Random):
    """a stream that must be rejected: mask bit cleared on the array header, or an entry truncated / extended"""
    e = [bytearray(x) for x in entries]
    i = rng.randrange(len(e))
    mode = rng.choice(["mask", "trunc", "extra"])
    if mode == "mask":
        e[i][0] &= 0xBF
    elif mode == "trunc":
        e[i] = e[i][:-1]
    else:
        e[i] += b"\x00"
    return [bytes(x) for x in e], mode
