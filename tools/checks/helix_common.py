"""Shared harness for the helix properties C06, C07, C11, C12, C13.

* generator of helices / pivots (both charges, dr of both signs and 0, phi0 across the wrap, pivots from mm
  to metres, near and far from the circle centre), all from one numpy Generator
* the Lean Float model through Driver/Helix.lean (numbers travel as IEEE bit patterns)
* the real implementation in object, record and array form
* model-independent oracles: BOSS trajectory residuals, centre, closest point, tangency
"""
from __future__ import annotations

import math

import numpy as np

from lib import core

ALPHA = 1000 / 2.99792458
TWO_PI = 2 * math.pi


def regen(chk: core.Check) -> bool:
    """regenerate Gen/HelixPy.lean from the working tree (symbolic tie: Props/HelixTie.lean proves it equal to the hand-written model)"""
    from translate import gen
    g = gen.gen_helix()
    if not g["ok"]:
        chk.obligation_broken("translator", "translate _change_pivot / caller wiring of helix.py into Gen/HelixPy.lean", g["error"])
        return False
    chk.coverage["helix_translation"] = g["info"]
    g2 = gen.gen_helixprops()
    if not g2["ok"]:
        chk.obligation_broken("translator", "translate the helix kernels / properties / constructors of helix.py into Gen/HelixProps.lean", g2["error"])
        return False
    g3 = gen.gen_awkpy()
    if not g3["ok"]:
        chk.obligation_broken("translator", "translate the awkward-side wiring (_extract_index, _flat_to_numpy, _awk_change_pivot, re-nesting loops, pivot broadcast) into Gen/AwkPy.lean", g3["error"])
        return False
    chk.coverage["helix_props_translation"] = {k: (v if not isinstance(v, (dict, list)) or len(str(v)) < 300 else str(v)[:300]) for k, v in g2["info"].items()} if isinstance(g2["info"], dict) else str(g2["info"])[:300]
    return True


def f2b(x) -> int:
    return int(np.float64(x).view(np.uint64))


def b2f(s: str) -> float:
    return float(np.uint64(int(s)).view(np.float64))


def gen(rng: np.random.Generator, n: int, far=False):
    """returns dict of arrays: dr phi0 kappa dz tanl, piv (n,3), new (n,3)"""
    q = rng.choice([-1.0, 1.0], n)
    kappa = q * np.exp(rng.uniform(math.log(0.05), math.log(20), n))
    dr = rng.choice([0.0, 1.0, 1.0, 1.0, -1.0, -1.0], n) * np.exp(rng.uniform(math.log(1e-3), math.log(5.0), n))
    # far-side reference points: |dr| > R with dr on the side opposite to the circle centre (dr + rho and rho of opposite sign)
    far_side = rng.random(n) < 0.08
    dr = np.where(far_side, np.sign(kappa) * (ALPHA / np.abs(kappa)) * rng.uniform(1.05, 3.0, n), dr)
    phi0 = rng.uniform(0, TWO_PI, n)
    k = rng.integers(0, 12, n)
    phi0 = np.where(k == 0, 0.0, phi0)
    phi0 = np.where(k == 1, np.nextafter(TWO_PI, 0), phi0)
    phi0 = np.where(k == 2, rng.uniform(0, 1e-9, n), phi0)
    phi0 = np.where(k == 3, TWO_PI - rng.uniform(1e-12, 1e-9, n), phi0)
    phi0 = np.where(k == 4, math.pi, phi0)
    dz = rng.uniform(-10, 10, n)
    tanl = rng.uniform(-2, 2, n) * rng.choice([0.0, 1.0, 1.0, 1.0], n)
    scale = rng.choice([0.0, 0.1, 1.0, 10.0, 100.0], n)
    piv = rng.uniform(-1, 1, (n, 3)) * scale[:, None]
    scale2 = rng.choice([0.1, 1.0, 10.0, 100.0] + ([300.0] if far else []), n)
    new = piv * rng.choice([0.0, 1.0], n)[:, None] + rng.uniform(-1, 1, (n, 3)) * scale2[:, None]
    # structured new pivots (measure zero for the uniform draw): on the helix's own closest-approach point, and elsewhere on the
    # line through the circle centre and the reference point (the turning angle is then exactly 0 while dr changes)
    sp = rng.integers(0, 25, n)
    ux, uy = np.cos(phi0), np.sin(phi0)
    on_pos = sp == 0
    new[:, 0] = np.where(on_pos, piv[:, 0] + dr * ux, new[:, 0])
    new[:, 1] = np.where(on_pos, piv[:, 1] + dr * uy, new[:, 1])
    new[:, 2] = np.where(on_pos & (rng.random(n) < 0.5), piv[:, 2] + dz, new[:, 2])
    on_line = sp == 1
    t = rng.uniform(-1, 1, n) * np.minimum(np.abs(ALPHA / kappa) * 0.9, rng.choice([0.1, 1.0, 10.0], n))
    new[:, 0] = np.where(on_line, piv[:, 0] + t * ux, new[:, 0])
    new[:, 1] = np.where(on_line, piv[:, 1] + t * uy, new[:, 1])
    # moves along z only (x and y of the new pivot bit-identical to the old one) and moves to the very same pivot
    z_only = sp == 2
    new[:, 0] = np.where(z_only, piv[:, 0], new[:, 0])
    new[:, 1] = np.where(z_only, piv[:, 1], new[:, 1])
    same = sp == 3
    new = np.where(same[:, None], piv, new)
    return dict(dr=dr, phi0=phi0, kappa=kappa, dz=dz, tanl=tanl, piv=piv, new=new)


def rho(kappa):
    return -ALPHA / kappa


def spec_centre(h):
    r = rho(h["kappa"])
    return (h["piv"][:, 0] + (h["dr"] + r) * np.cos(h["phi0"]), h["piv"][:, 1] + (h["dr"] + r) * np.sin(h["phi0"]))


def wrap_pi(d):
    d = np.mod(d, TWO_PI)
    return np.where(d > math.pi, d - TWO_PI, d)


def regular_mask(h, eps=1e-6):
    """exclude new pivots numerically on the circle centre and turning angles within eps of +-pi"""
    cx, cy = spec_centre(h)
    vx, vy = cx - h["new"][:, 0], cy - h["new"][:, 1]
    v = np.hypot(vx, vy)
    r = np.abs(rho(h["kappa"]))
    ok = v > 1e-6 * r
    phi_new = np.arctan2(vy * np.sign(rho(h["kappa"])), vx * np.sign(rho(h["kappa"])))
    d = wrap_pi(phi_new - h["phi0"])
    ok &= np.abs(np.abs(d) - math.pi) > eps
    # and not within rounding of the dphi = 0 / 2pi seam of the mod
    return ok


def traj(dr, phi0, kappa, dz, tanl, piv, t):
    r = rho(kappa)
    return np.stack([piv[:, 0] + dr * np.cos(phi0) + r * (np.cos(phi0) - np.cos(phi0 + t)),
                     piv[:, 1] + dr * np.sin(phi0) + r * (np.sin(phi0) - np.sin(phi0 + t)),
                     piv[:, 2] + dz - r * tanl * t], axis=1)


# ------------------------------------------------------------------------------------------------
# Lean model
# ------------------------------------------------------------------------------------------------
def model_cp(h, idx=None):
    n = len(h["dr"])
    idx = range(n) if idx is None else idx
    lines = []
    for i in idx:
        vals = [h["dr"][i], h["phi0"][i], h["kappa"][i], h["dz"][i], h["tanl"][i], *h["piv"][i], *h["new"][i]]
        lines.append("cp " + " ".join(str(f2b(v)) for v in vals))
    out = core.lean_run("Driver/Helix.lean", "\n".join(lines) + "\n")
    res = np.array([[b2f(x) for x in l.split()] for l in out])
    return res   # columns: dr phi0 dz dphi J00 J01 J02 J10 J11 J12 J30 J31 J32 J34


def model_lines(cmd, rows):
    lines = [cmd + " " + " ".join(str(f2b(v)) for v in r) for r in rows]
    out = core.lean_run("Driver/Helix.lean", "\n".join(lines) + "\n")
    return np.array([[b2f(x) for x in l.split()] for l in out])


def jac_from_model(row):
    J = np.eye(5)
    J[0, 0], J[0, 1], J[0, 2], J[1, 0], J[1, 1], J[1, 2], J[3, 0], J[3, 1], J[3, 2], J[3, 4] = row[4:14]
    return J


# ------------------------------------------------------------------------------------------------
# implementation
# ------------------------------------------------------------------------------------------------
def impl_obj_cp(h, i, error=None):
    import pybes3
    o = pybes3.helix_obj(h["dr"][i], h["phi0"][i], h["kappa"][i], h["dz"][i], h["tanl"][i], pivot=tuple(h["piv"][i]), error=error)
    return o, o.change_pivot(tuple(h["new"][i]))


def impl_arr(h, error=None, nest=None):
    """helix_awk over all tracks (flat or nested by `nest` = list of counts lists, innermost last)"""
    import awkward as ak
    import pybes3

    def mk(a):
        a = ak.Array(np.array(a, copy=True))       # never hand the harness's own buffers to the library
        for c in reversed(nest or []):
            a = ak.unflatten(a, c)
        return a
    pivot = ak.zip({"x": mk(h["piv"][:, 0]), "y": mk(h["piv"][:, 1]), "z": mk(h["piv"][:, 2])}, with_name="Vector3D")
    kw = {}
    if error is not None:
        e = ak.Array(error)
        for c in reversed(nest or []):
            e = ak.unflatten(e, c)
        kw["error"] = e
    return pybes3.helix_awk(dr=mk(h["dr"]), phi0=mk(h["phi0"]), kappa=mk(h["kappa"]), dz=mk(h["dz"]), tanl=mk(h["tanl"]), pivot=pivot, **kw)


def circ_close(a, b, tol):
    d = np.abs(np.mod(np.asarray(a) - np.asarray(b) + math.pi, TWO_PI) - math.pi)
    return d <= tol


def close(a, b, rtol=1e-9, atol=1e-9):
    a, b = np.asarray(a, dtype=float), np.asarray(b, dtype=float)
    return np.abs(a - b) <= atol + rtol * np.maximum(np.abs(a), np.abs(b))
