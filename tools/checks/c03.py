"""C03 — raw DAQ files are decoded event-by-event exactly as encoded (DESIGN.md section 6/C03).

model  : Model/RawParser.lean (C++ parser) ; Spec/RawFormat.lean (format, encoders, intended decode) ;
         Model/RawFile.lean (Python framing `_preprocess_file` / `_read_batch` on the bytes of the file, composed with the batch
         loop of Model/RawReader.lean and the parser) ; Spec/RawFileFormat.lean (byte-level file encoder)
proof  : Props/C03.lean (+C03a, C03b: word unpacking, T/Q merge, nested fragments, whole streams, selection) + Props/RawTie.lean
         + Props/C03File.lean (file level: any name/tag length, any batch size, any completion order)
tie    : file bytes -> records of Model/RawFile.lean <-> pybes3.open_raw(path).arrays(n_blocks, n_block_per_batch) on well-formed files
         and on files with one corrupted framing field (outcome class and every column);
         generated well-formed files: Lean parse <-> native build of the working-tree parser <-> `expected`;
         the real Python reader `pybes3.open_raw(path).arrays(decode_reid=False)` on the same files (read_bes_raw
         backed by the native working-tree build; additionally the installed extension when the C++ is unchanged)
oracle : `expected` (Python twin of Spec/RawFormat.lean, checked against the Lean model on every run)
"""
from __future__ import annotations

import json
import os
import random

from checks import raw_common as rc
from lib import core, native, rawfile as rf


def shrink_blocks(blocks, fails):
    """delete events / fragments while the failure persists"""
    cur = blocks
    changed = True
    while changed:
        changed = False
        for bi in range(len(cur)):
            for ei in range(len(cur[bi])):
                cand = [list(b) for b in cur]
                del cand[bi][ei]
                cand = [b for b in cand if b]
                if cand and fails(cand):
                    cur, changed = cand, True
                    break
            if changed:
                break
    return cur


FRAMING_MUTATIONS = ["none", "start-flag", "name-flag", "name-len+1", "name-len+4", "tag-len+4", "params-flag", "tail-flag", "end-flag", "sep-flag", "block-size+4", "block-size-4",
                     "block-size+1", "truncate-4", "append-4", "drop-tail"]


def mutate_framing(data: bytes, kind: str, name_len: int, tag_len: int, rng) -> bytes:
    """corrupt one framing field of a well-formed file (byte offsets follow tools/lib/rawfile.py::enc_file)"""
    b = bytearray(data)
    def put(off, v):
        b[off:off + 4] = int(v % 2**32).to_bytes(4, "little")
    def get(off):
        return int.from_bytes(b[off:off + 4], "little")
    p_name = 32
    p_tag = p_name + 8 + (name_len + 3) // 4 * 4
    p_par = p_tag + 4 + (tag_len + 3) // 4 * 4
    d0 = p_par + 36
    if kind == "start-flag": put(0, get(0) ^ 1)
    elif kind == "name-flag": put(p_name, get(p_name) ^ 0x100)
    elif kind == "name-len+1": put(p_name + 4, name_len + 1)
    elif kind == "name-len+4": put(p_name + 4, name_len + 4)
    elif kind == "tag-len+4": put(p_tag, tag_len + 4)
    elif kind == "params-flag": put(p_par, get(p_par) ^ 0x10)
    elif kind == "tail-flag": put(len(b) - 40, get(len(b) - 40) ^ 1)
    elif kind == "end-flag": put(len(b) - 4, get(len(b) - 4) ^ 1)
    elif kind in ("sep-flag", "block-size+4", "block-size-4", "block-size+1"):
        if d0 >= len(b) - 40:
            return bytes(b)
        if kind == "sep-flag": put(d0, get(d0) ^ 1)
        elif kind == "block-size+4": put(d0 + 12, get(d0 + 12) + 4)
        elif kind == "block-size-4": put(d0 + 12, max(get(d0 + 12) - 4, 0))
        else: put(d0 + 12, get(d0 + 12) + rng.choice([1, 2, 3]))
    elif kind == "truncate-4": b = b[:-4]
    elif kind == "append-4": b += b"\0\0\0\0"
    elif kind == "drop-tail": b = b[:-40]
    return bytes(b)


def file_level_tie(chk: core.Check, rng, cases, thorough) -> int:
    """Model/RawFile.lean (framing + batch loop + parser model, on the bytes of the file) <-> pybes3.open_raw(path).arrays(...):
    outcome class (arrays / assertion) and, when both decode, every column; well-formed files and one-field framing corruptions."""
    import pybes3
    limit = 5000                     # bytes: the list-based model is quadratic in the file size
    todo = []
    for idx, (bl, sel, name, tag) in enumerate(cases):
        data = rf.enc_file(bl, name=name, tag=tag)
        if len(data) > limit:
            continue
        kinds = ["none"] + ([rng.choice(FRAMING_MUTATIONS[1:])] if rng.random() < 0.7 else [])
        for kd in kinds:
            d2 = mutate_framing(data, kd, len(name), len(tag), rng)
            pb = rng.choice([1, 1, 2, 3, 1000])
            nb = rng.choice([-1, -1, 0, 1, 2, len(bl), len(bl) + 3])
            sched = [rng.randrange(0, 4) for _ in range(rng.randrange(0, 6))]
            todo.append((idx, kd, d2, pb, nb, sched, sel, bl))
        if len(todo) >= (1200 if thorough else 160):
            break
    text = "".join(f"{native.sel_mask(sel)} {pb} {nb} {','.join(map(str, sched)) or '-'} {d.hex()}\n" for _, _, d, pb, nb, sched, sel, _ in todo)
    try:
        out = core.lean_run("Driver/RawFile.lean", text, timeout=1200)
    except core.DriverError as ex:
        chk.obligation_broken("correspondence", "RawFile driver", str(ex))
        return 0
    diffs = []
    for (idx, kd, d, pb, nb, sched, sel, bl), line in zip(todo, out):
        path = rc.write_tmp(d)
        try:
            try:
                with rc.NativeBackedReader():
                    with pybes3.open_raw(path) as r:
                        arr = r.arrays(n_blocks=nb, n_block_per_batch=pb, sub_detectors=sel, decode_reid=False)
                py = ("ok", rc.expected_to_columns(rc.ak_to_records(arr, sel), sel))
            except UnicodeDecodeError:
                chk.hist("file_tie_outcome", "skipped (name bytes not utf-8 after corruption: outside the model)")
                continue
            except (AssertionError, RuntimeError, OSError, ValueError) as ex:
                py = ("raise", type(ex).__name__)
        finally:
            os.unlink(path)
        ml = ("ok", json.loads(line.split(" ", 2)[2])) if line.startswith("OK ") else ("raise", line)
        chk.hist("file_tie_mutation", kd)
        chk.hist("file_tie_outcome", py[0] if py[0] == "ok" else "raise/" + py[1])
        chk.count(1, key=f"ft-{idx}-{kd}")
        bad = None
        eager = kd in ("none", "start-flag", "name-flag", "params-flag", "tail-flag", "end-flag", "truncate-4", "append-4", "drop-tail")
        if py[0] == "ok" and ml[0] != "ok" and not eager:
            # the reader walks the blocks lazily (only those it is asked for, and the last block of a batch may overshoot unchecked);
            # the model checks the whole framing first: on a corrupted block chain it is stricter than the reader, never more lenient
            chk.hist("file_tie_outcome", "corrupted block chain: reader lenient, model strict (allowed)")
        elif py[0] != ml[0]:
            bad = f"python: {py[0]} {py[1] if py[0] != 'ok' else ''} ; model: {ml[0]} {ml[1] if ml[0] != 'ok' else ''}"
        elif py[0] == "ok" and not rc.same_columns(rc.canon_model(ml[1]), py[1]):
            bad = "both decode, columns differ"
        elif py[0] == "ok" and kd == "none":
            want = bl if nb == -1 else bl[:nb]
            exp = rc.expected_to_columns(rf.expected([e for b in want for e in b], sel), sel)
            if not rc.same_columns(py[1], exp):
                chk.failing_input("pybes3.open_raw(path).arrays(n_blocks, n_block_per_batch, decode_reid=False) [native C++]",
                                  {"file_bytes_hex": d.hex(), "n_blocks": nb, "n_block_per_batch": pb, "sub_detectors": sel}, str(py[1])[:1500], str(exp)[:1500],
                                  "one record per event of the requested blocks, in file order, exactly as encoded")
                break
        if bad:
            diffs.append({"mutation": kd, "n_blocks": nb, "per_batch": pb, "file_len": len(d), "what": bad[:300], "file_bytes_hex": d.hex()[:2000]})
            if len(diffs) >= 3:
                break
    if diffs:
        chk.obligation_broken("correspondence", "Model/RawFile.lean (file bytes -> records) vs pybes3.open_raw(...).arrays(...)", str(diffs[:2]))
    # concatenate(files): several small files (one of them not a raw file) through Model/RawConcat.lean and pybes3.concatenate_raw
    small = [(bl, sel, rf.enc_file(bl, name=name, tag=tag)) for bl, sel, name, tag in cases if len(rf.enc_file(bl, name=name, tag=tag)) <= 1800]
    groups = []
    for _ in range(40 if thorough else 8):
        if len(small) < 3:
            break
        pick = [small[int(i)] for i in rng.sample(range(len(small)), rng.choice([1, 2, 3]))]
        sel = pick[0][1]
        datas = [d for _, _, d in pick]
        if rng.random() < 0.5:
            datas.insert(rng.randrange(len(datas) + 1), b"\x01\x02\x03\x04 not a raw file")
        groups.append((pick, sel, datas, rng.choice([1, 2, 1000])))
    if groups:
        text = "".join(f"C {native.sel_mask(sel)} {pb} - " + " ".join(d.hex() for d in datas) + "\n" for _, sel, datas, pb in groups)
        try:
            out = core.lean_run("Driver/RawFile.lean", text, timeout=1200)
        except core.DriverError as ex:
            chk.obligation_broken("correspondence", "RawFile driver (concatenate)", str(ex))
            return len(todo)
        cdiffs = []
        for (pick, sel, datas, pb), line in zip(groups, out):
            paths = [rc.write_tmp(d) for d in datas]
            try:
                with rc.NativeBackedReader():
                    arr = pybes3.concatenate_raw(paths, n_block_per_batch=pb, sub_detectors=sel, decode_reid=False)
                got = rc.expected_to_columns(rc.ak_to_records(arr, sel), sel)
            except Exception as ex:
                exp = rc.expected_to_columns(rf.expected([e for bl, _, _ in pick for b in bl for e in b], sel), sel)
                chk.failing_input("pybes3.concatenate_raw(files, decode_reid=False) [native C++] raised", {"files_hex": [d.hex()[:3000] for d in datas], "n_block_per_batch": pb, "sub_detectors": sel},
                                  f"{type(ex).__name__}: {str(ex)[:300]}", str(exp)[:1200], "well-formed files are decoded; concatenating files returns the same events in the same order")
                break
            finally:
                for q in paths:
                    os.unlink(q)
            exp = rc.expected_to_columns(rf.expected([e for bl, _, _ in pick for b in bl for e in b], sel), sel)
            chk.count(1, key=f"concat-{len(datas)}-{pb}-{line[:40]}")
            chk.hist("file_tie_mutation", "concatenate")
            if not rc.same_columns(got, exp):
                chk.failing_input("pybes3.concatenate_raw(files, decode_reid=False) [native C++]", {"files_hex": [d.hex() for d in datas], "n_block_per_batch": pb, "sub_detectors": sel},
                                  str(got)[:1200], str(exp)[:1200], "concatenating files returns the same events in the same order")
                break
            if not line.startswith("OK ") or not rc.same_columns(rc.canon_model(json.loads(line.split(" ", 2)[2])), got):
                cdiffs.append({"files": len(datas), "model": line[:200]})
        if cdiffs:
            chk.obligation_broken("correspondence", "Model/RawConcat.lean vs pybes3.concatenate_raw", str(cdiffs[:2]))
    return len(todo) + len(groups)


def ordered_under_delays(chk: core.Check, rng):
    """many single-block batches, the FIRST decoding tasks are the slowest: records must still come back in file order"""
    import time
    import threading
    import pybes3
    blocks = [[rf.gen_event(rng, i)] for i in range(36)]
    data = rf.enc_file(blocks)
    path = rc.write_tmp(data)
    want = [e.header[1] for b in blocks for e in b]
    try:
        for workers, delays in ((2, {0: 0.3}), (4, {0: 0.25, 1: 0.1}), (None, {0: 0.2, 2: 0.1})):
            lock = threading.Lock()
            n_calls = [0]

            def wrapper(fn, delays=delays, lock=lock, n_calls=n_calls):
                def wrapped(d, sub_detectors=None):
                    with lock:
                        k = n_calls[0]; n_calls[0] += 1
                    if k in delays:
                        time.sleep(delays[k])
                    return fn(d, sub_detectors)
                return wrapped
            with rc.NativeBackedReader(wrapper=wrapper):
                with pybes3.open_raw(path) as r:
                    arr = r.arrays(n_block_per_batch=1, max_workers=workers, decode_reid=False)
            got = [int(x) for x in arr["evt_header"]["evt_no"]]
            chk.count(1, key=f"delayed-{workers}")
            chk.hist("file_tie_mutation", "delayed-first-task")
            if got != want:
                chk.failing_input("pybes3.open_raw(path).arrays(n_block_per_batch=1) with the first decoding tasks finishing last", {"blocks": len(blocks), "max_workers": workers, "task_delays_s": {str(k): v for k, v in delays.items()}},
                                  {"event_numbers": got}, {"event_numbers": want}, "one record per event in file order")
                return
    finally:
        os.unlink(path)


def huge_block(chk: core.Check, rng):
    """a data block of more than 64 MiB (one very large event: the bulk is a fragment of an unknown sub-detector) between ordinary blocks:
    one record per event, in file order, through the real reader with several batch sizes"""
    import numpy as np
    import pybes3
    n_big = (1 << 24) + 300_000                       # > 2^24 words = 64 MiB
    big = rf.Event(header=[7, 1, 1234, 0, 0, 0, 1, 2, 3, 4],
                   subdets=[rf.SubDet(0x55, [rf.Ros([rf.Rob([0] * n_big)])]), rf.SubDet(0xA4, [rf.Ros([rf.Rob([(5 << 16) | 9])])])])
    blocks = [[rf.gen_event(rng, 0)], [big], [rf.gen_event(rng, 2)], [rf.gen_event(rng, 3)]]
    data = rf.enc_file(blocks)
    path = rc.write_tmp(data)
    want = [0, 1, 2, 3]
    try:
        del data
        for pb in (1, 1000, 2):
            with rc.NativeBackedReader():
                with pybes3.open_raw(path) as r:
                    arr = r.arrays(n_block_per_batch=pb, decode_reid=False, sub_detectors=["muc"])
            got = [int(x) for x in arr["evt_header"]["evt_no"]]
            chk.count(1, key=f"huge-block-{pb}")
            chk.hist("file_tie_mutation", "huge-block")
            nm = [len(x) for x in arr["muc"].tolist()]
            if got != want or nm[1] != 1:
                chk.failing_input("pybes3.open_raw(path).arrays() on a file with one data block larger than 64 MiB", {"blocks": 4, "words_in_block_1": n_big + 60, "n_block_per_batch": pb, "sub_detectors": ["muc"]},
                                  {"event_numbers": got, "muc_digis_per_event": nm}, {"event_numbers": want, "muc_digis_of_event_1": 1}, "one record per event in file order; the number of records equals the number of events in the file")
                return
    finally:
        os.unlink(path)


def long_streams(chk: core.Check, rng, thorough: bool):
    """streams long enough for any per-parser counter narrower than 32 bits to wrap: > 2^16 readout fragments in one buffer with the
    same channel hit again exactly 2^16 fragments later, a fragment with > 2^16 words, (thorough) > 2^16 events.
    Oracle: the intended decode (rawfile.expected); parser: native build of the working tree."""
    def ev(i, dets):
        return rf.Event(header=[i & rf.M32, i, 1234, 0, 0, 0, 1, 2, 3, 4], subdets=dets)

    def mdc_word(ch, tq, val):
        return ((ch & 0x3FFF) << 18) | (tq << 17) | (val & 0xFFFF)

    def tof_word(ch, tq, val):
        return ((ch & 0x3FF) << 21) | (tq << 20) | (val & 0x7FFF)
    streams = []
    # (a) 4 MDC ROBs per event, channel (i mod 16384) through ROB (i mod 4), status-only ROBs otherwise: consecutive hits of a
    #     channel are exactly 65536 fragments apart; a few TOF fragments in between shift nothing (own events)
    n = 16384 + 40
    evs = []
    for i in range(n):
        ch = i % 16384
        robs = [rf.Rob(data=([mdc_word(ch, 0, i + 1), mdc_word(ch, 1, 2 * i + 1)] if k == i % 4 else []), status=[0xABCD0000 + k], status_first=bool(k % 2)) for k in range(4)]
        evs.append(ev(i, [rf.SubDet(0xA1, [rf.Ros(robs)])]))
    streams.append(("65536+ MDC fragments, same channel again after exactly 65536 fragments", evs, ["mdc"]))
    # (b) one fragment with more than 2^16 words (EMC one row per word; MDC merge over all 2^14 channels several times)
    big_emc = [((rng.getrandbits(13)) << 19) | rng.getrandbits(19) for _ in range(66000)]
    big_mdc = [mdc_word(j % 16384, (j // 16384) % 2, j) for j in range(70000)]
    big_tof = [tof_word(j % 1024, (j // 1024) % 2, j) for j in range(3000)]
    streams.append(("fragments with more than 65536 words", [ev(0, [rf.SubDet(0xA3, [rf.Ros([rf.Rob(big_emc)])]), rf.SubDet(0xA1, [rf.Ros([rf.Rob(big_mdc)])]), rf.SubDet(0xA2, [rf.Ros([rf.Rob(big_tof)])])]),
                                                             ev(1, [rf.SubDet(0xA3, [rf.Ros([rf.Rob(big_emc[:5])])])])], ["mdc", "tof", "emc"]))
    if thorough:
        evs = [ev(i, [rf.SubDet(0xA4, [rf.Ros([rf.Rob([(i % 2048) << 16 | (i & 0xFFFF)])])])] if i % 3 == 0 else []) for i in range(70000)]
        streams.append(("more than 65536 events", evs, ["muc", "mdc"]))
    for what, evs, sel in streams:
        words = []
        for i, e in enumerate(evs):
            words += rf.enc_block([e], i)
        r = native.run_raw_buffers([(words, native.sel_mask(sel))], timeout=900)[0]
        exp = rc.expected_to_columns(rf.expected(evs, sel), sel)
        chk.count(1, key=f"long-{what}")
        chk.hist("long_streams", what)
        ok = r["class"] == "ok" and rc.same_columns(rc.canon_native(r["result"]), exp)
        if not ok:
            detail = r["class"] + " " + r["detail"]
            if r["class"] == "ok":
                got = rc.canon_native(r["result"])
                bad = [k for k in exp if k != "evt_header" and ({x: list(map(int, y)) for x, y in got.get(k, {}).items()} != {x: list(map(int, y)) for x, y in exp[k].items()})]
                k0 = bad[0] if bad else "evt_header"
                go, eo = got.get(k0, {}).get("offsets", []), exp[k0].get("offsets", [])
                first_ev = next((j for j in range(min(len(go), len(eo)) - 1) if go[j + 1] - go[j] != eo[j + 1] - eo[j]), None)
                detail = f"columns {bad} differ; rows decoded {go[-1] if go else None} vs encoded {eo[-1] if eo else None}; first event with a different number of digis: {first_ev}"
            chk.failing_input("C++ raw parser (native build of the working tree) on a long well-formed stream", {"stream": what, "events": len(evs), "words": len(words), "sub_detectors": sel},
                              detail, "the intended decode of the encoded events", "per-sub-detector digi lists are exactly those encoded, for every number of events and fragments")
            return


def main(chk: core.Check) -> int:
    thorough = chk.tier == "thorough"
    rng = random.Random(f"C03-{chk.seed}")
    n_files = 2500 if thorough else 220
    chk.coverage["rule"] = ("evaluations = well-formed generated files decoded by model, native working-tree parser and the real Python reader, all compared with the "
                            "intended decode; distinct_nontrivial = distinct files with at least one event")
    chk.assumptions += ["file I/O, np.frombuffer and the awkward assembly in _raw_dict_to_ak are compared, not proved",
                        "the Python reader runs with read_bes_raw backed by the native build of the working-tree C++ (the installed binary cannot be rebuilt)"]
    ok_gen = rc.regen(chk)
    if ok_gen:
        _entry = ["EntryTie"] if core.regen_entry(chk) else []
        chk.prove(modules=["C03", "C03a", "C03b", "C03File", "RawTie", "RawPyTie", "RawCppTie"] + _entry)
    import pybes3
    cpp_unchanged = core.run_cmd(["git", "-C", str(core.REPO), "diff", "--quiet", "631bbaa", "--", "src/pybes3/besio/cpp/raw_io.cc", "src/pybes3/besio/cpp/raw_io.hh"])[0] == 0
    cases = []
    for k in range(n_files):
        blocks = rf.gen_blocks(rng)
        sel = rng.choice(rc.SEL_CHOICES)
        name = bytes(rng.choice(b"abcdefghij_.") for _ in range(rng.randrange(0, 41)))
        tag = bytes(rng.choice(b"xyz-0123") for _ in range(rng.randrange(0, 41)))
        cases.append((blocks, sel, name, tag))
    # corpus: shapes named by the property
    e0 = rf.Event(header=list(range(10)), subdets=[])
    cases[:0] = [([], None, b"", b""), ([[e0]], None, b"n", b"t"), ([[e0, e0, e0]], ["mdc", "trg"], b"abc", b"abcd"),
                 ([[rf.Event(header=[1] * 10, subdets=[rf.SubDet(0xA1, [rf.Ros([rf.Rob([], status=[5, 6], status_first=False), rf.Rob([0xFFFFFFFF] * 3)])])])]], None, b"", b"")]
    bufs = [([x for i, b in enumerate(bl) for x in rf.enc_block(b, i)], native.sel_mask(sel)) for bl, sel, _, _ in cases]
    exps = [rc.expected_to_columns(rf.expected([e for b in bl for e in b], sel), sel) for bl, sel, _, _ in cases]
    nat = native.run_raw_buffers(bufs)
    diffs = []
    mod = None
    if ok_gen:
        try:
            mod = rc.lean_parse(bufs)
        except core.DriverError as ex:
            chk.obligation_broken("correspondence", "Raw driver", str(ex))
    n_ev_hist = {}
    for idx, ((bl, sel, name, tag), (w, m), exp, r) in enumerate(zip(cases, bufs, exps, nat)):
        nev = sum(len(b) for b in bl)
        chk.count(1, key=(idx if nev else None))
        chk.hist("events_per_file", nev)
        chk.hist("blocks_per_file", len(bl))
        chk.hist("selection", ",".join(sel) if sel else "default")
        # oracle: native working-tree parser vs intended decode
        if r["class"] != "ok" or not rc.same_columns(rc.canon_native(r["result"]), exp):
            def fails(cand, sel=sel):
                ww = [x for i, b in enumerate(cand) for x in rf.enc_block(b, i)]
                rr = native.run_raw_buffers([(ww, native.sel_mask(sel))])[0]
                ee = rc.expected_to_columns(rf.expected([e for b in cand for e in b], sel), sel)
                return rr["class"] != "ok" or not rc.same_columns(rc.canon_native(rr["result"]), ee)
            small = shrink_blocks(bl, fails) if bl else bl
            ww = [x for i, b in enumerate(small) for x in rf.enc_block(b, i)]
            rr = native.run_raw_buffers([(ww, native.sel_mask(sel))])[0]
            chk.failing_input("C++ raw parser (native build of the working tree) on a well-formed stream", {"words": [hex(x) for x in ww], "sub_detectors": sel},
                              rr["class"] + (" " + rr["detail"] if rr["class"] != "ok" else " " + str(rc.canon_native(rr["result"]))[:1500]),
                              str(rc.expected_to_columns(rf.expected([e for b in small for e in b], sel), sel))[:1500], "intended decode of the encoded events (Spec/RawFormat.lean / tools/lib/rawfile.py)")
            break
        if mod is not None:
            ml = mod[idx]
            if ml[0] != "ok" or not rc.same_columns(rc.canon_model(ml[1]), exp):
                diffs.append({"file": idx, "model": ml[0], "sel": sel, "n_words": len(w)})
    if diffs:
        chk.obligation_broken("correspondence", "Lean parse vs intended decode of the Python twin encoder / native parser", str(diffs[:3]))
    # the real Python reader on files
    py_cases = cases if thorough else cases[:80]
    for idx, (bl, sel, name, tag) in enumerate(py_cases):
        data = rf.enc_file(bl, name=name, tag=tag)
        path = rc.write_tmp(data)
        try:
            exp_recs = rf.expected([e for b in bl for e in b], sel)
            for backend in (["native"] + (["installed"] if cpp_unchanged else [])):
                try:
                    if backend == "native":
                        with rc.NativeBackedReader():
                            with pybes3.open_raw(path) as r:
                                if idx % 3 == 0 and bl:
                                    r.arrays(n_blocks=1, sub_detectors=sel, decode_reid=False)       # an earlier partial read must not matter
                                arr = r.arrays(sub_detectors=sel, decode_reid=False, n_block_per_batch=rng.choice([1, 2, 3, 1000]))
                                if idx % 2 == 0:
                                    again = r.arrays(sub_detectors=sel, decode_reid=False)
                                    if rc.ak_to_records(again, sel) != rc.ak_to_records(arr, sel):
                                        raise AssertionError(f"second arrays() call on the same reader returned {len(again)} records, first returned {len(arr)}")
                                entries = r.entries
                    else:
                        with pybes3.open_raw(path) as r:
                            arr = r.arrays(sub_detectors=sel, decode_reid=False)
                            entries = r.entries
                    got = rc.ak_to_records(arr, sel)
                    observed = got if got != exp_recs else None
                except Exception as ex:
                    observed = f"{type(ex).__name__}: {ex}"
                chk.count(1, key=f"py-{backend}-{idx}")
                if observed is not None:
                    chk.failing_input(f"pybes3.open_raw(path).arrays(decode_reid=False) [{backend} C++]", {"file_bytes_hex": data.hex() if len(data) < 4000 else data[:4000].hex() + "...", "n_events": sum(len(b) for b in bl), "sub_detectors": sel, "name_len": len(name), "tag_len": len(tag)},
                                      str(observed)[:1500], str(exp_recs)[:1500], "one record per event in file order with exactly the encoded header words and digi lists")
                    break
            else:
                continue
            break
        finally:
            os.unlink(path)
    if not chk.failing:
        try:
            chk.coverage["cpp_coverage_of_well_formed_streams"] = native.raw_cpp_coverage(bufs)
        except Exception as ex:
            chk.coverage["cpp_coverage_of_well_formed_streams"] = {"error": f"{type(ex).__name__}: {str(ex)[:200]}"}
    n_file_tie = file_level_tie(chk, rng, cases, thorough) if ok_gen else 0
    if not chk.failing:
        ordered_under_delays(chk, rng)
    if not chk.failing:
        long_streams(chk, rng, thorough)
    if not chk.failing:
        huge_block(chk, rng)
    chk.coverage["traces_validated_against_impl"] = len(cases) + len(py_cases) + n_file_tie
    chk.coverage["installed_extension_also_run"] = cpp_unchanged
    chk.sample({"n_events": sum(len(b) for b in cases[6][0]), "sub_detectors": cases[6][1], "first_words": [hex(x) for x in bufs[6][0][:24]]})
    return chk.finish(None)
