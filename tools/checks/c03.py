"""C03 — raw DAQ files are decoded event-by-event exactly as encoded (DESIGN.md section 6/C03).

model  : Model/RawParser.lean (C++ parser) ; Spec/RawFormat.lean (format, encoders, intended decode)
proof  : Props/C03.lean (+C03a, C03b: word unpacking, T/Q merge, nested fragments, whole streams, selection) + Props/RawTie.lean
tie    : generated well-formed files: Lean parse <-> native build of the working-tree parser <-> `expected`;
         the real Python reader `pybes3.open_raw(path).arrays(decode_reid=False)` on the same files (read_bes_raw
         backed by the native working-tree build; additionally the installed extension when the C++ is unchanged)
oracle : `expected` (Python twin of Spec/RawFormat.lean, checked against the Lean model on every run)
"""
from __future__ import annotations

import os
import random

from checks import raw_common as rc
from lib import core, native, rawfile as rf


def shrink_blocks(blocks, fails):
    """delete events / fragments while the failure persists"""
    cur = blocks
    changed = True
    while changed:
        changed = False
        for bi in range(len(cur)):
            for ei in range(len(cur[bi])):
                cand = [list(b) for b in cur]
                del cand[bi][ei]
                cand = [b for b in cand if b]
                if cand and fails(cand):
                    cur, changed = cand, True
                    break
            if changed:
                break
    return cur


def main(chk: core.Check) -> int:
    thorough = chk.tier == "thorough"
    rng = random.Random(f"C03-{chk.seed}")
    n_files = 2500 if thorough else 220
    chk.coverage["rule"] = ("evaluations = well-formed generated files decoded by model, native working-tree parser and the real Python reader, all compared with the "
                            "intended decode; distinct_nontrivial = distinct files with at least one event")
    chk.assumptions += ["file I/O, np.frombuffer and the awkward assembly in _raw_dict_to_ak are compared, not proved",
                        "the Python reader runs with read_bes_raw backed by the native build of the working-tree C++ (the installed binary cannot be rebuilt)"]
    ok_gen = rc.regen(chk)
    if ok_gen:
        chk.prove(modules=["C03", "C03a", "C03b", "RawTie"])
    import pybes3
    cpp_unchanged = core.run_cmd(["git", "-C", str(core.REPO), "diff", "--quiet", "631bbaa", "--", "src/pybes3/besio/cpp/raw_io.cc", "src/pybes3/besio/cpp/raw_io.hh"])[0] == 0
    cases = []
    for k in range(n_files):
        blocks = rf.gen_blocks(rng)
        sel = rng.choice(rc.SEL_CHOICES)
        name = bytes(rng.choice(b"abcdefghij_.") for _ in range(rng.randrange(0, 41)))
        tag = bytes(rng.choice(b"xyz-0123") for _ in range(rng.randrange(0, 41)))
        cases.append((blocks, sel, name, tag))
    # corpus: shapes named by the property
    e0 = rf.Event(header=list(range(10)), subdets=[])
    cases[:0] = [([], None, b"", b""), ([[e0]], None, b"n", b"t"), ([[e0, e0, e0]], ["mdc", "trg"], b"abc", b"abcd"),
                 ([[rf.Event(header=[1] * 10, subdets=[rf.SubDet(0xA1, [rf.Ros([rf.Rob([], status=[5, 6], status_first=False), rf.Rob([0xFFFFFFFF] * 3)])])])]], None, b"", b"")]
    bufs = [([x for i, b in enumerate(bl) for x in rf.enc_block(b, i)], native.sel_mask(sel)) for bl, sel, _, _ in cases]
    exps = [rc.expected_to_columns(rf.expected([e for b in bl for e in b], sel), sel) for bl, sel, _, _ in cases]
    nat = native.run_raw_buffers(bufs)
    diffs = []
    mod = None
    if ok_gen:
        try:
            mod = rc.lean_parse(bufs)
        except core.DriverError as ex:
            chk.obligation_broken("correspondence", "Raw driver", str(ex))
    n_ev_hist = {}
    for idx, ((bl, sel, name, tag), (w, m), exp, r) in enumerate(zip(cases, bufs, exps, nat)):
        nev = sum(len(b) for b in bl)
        chk.count(1, key=(idx if nev else None))
        chk.hist("events_per_file", nev)
        chk.hist("blocks_per_file", len(bl))
        chk.hist("selection", ",".join(sel) if sel else "default")
        # oracle: native working-tree parser vs intended decode
        if r["class"] != "ok" or not rc.same_columns(rc.canon_native(r["result"]), exp):
            def fails(cand, sel=sel):
                ww = [x for i, b in enumerate(cand) for x in rf.enc_block(b, i)]
                rr = native.run_raw_buffers([(ww, native.sel_mask(sel))])[0]
                ee = rc.expected_to_columns(rf.expected([e for b in cand for e in b], sel), sel)
                return rr["class"] != "ok" or not rc.same_columns(rc.canon_native(rr["result"]), ee)
            small = shrink_blocks(bl, fails) if bl else bl
            ww = [x for i, b in enumerate(small) for x in rf.enc_block(b, i)]
            rr = native.run_raw_buffers([(ww, native.sel_mask(sel))])[0]
            chk.failing_input("C++ raw parser (native build of the working tree) on a well-formed stream", {"words": [hex(x) for x in ww], "sub_detectors": sel},
                              rr["class"] + (" " + rr["detail"] if rr["class"] != "ok" else " " + str(rc.canon_native(rr["result"]))[:1500]),
                              str(rc.expected_to_columns(rf.expected([e for b in small for e in b], sel), sel))[:1500], "intended decode of the encoded events (Spec/RawFormat.lean / tools/lib/rawfile.py)")
            break
        if mod is not None:
            ml = mod[idx]
            if ml[0] != "ok" or not rc.same_columns(rc.canon_model(ml[1]), exp):
                diffs.append({"file": idx, "model": ml[0], "sel": sel, "n_words": len(w)})
    if diffs:
        chk.obligation_broken("correspondence", "Lean parse vs intended decode of the Python twin encoder / native parser", str(diffs[:3]))
    # the real Python reader on files
    py_cases = cases if thorough else cases[:80]
    for idx, (bl, sel, name, tag) in enumerate(py_cases):
        data = rf.enc_file(bl, name=name, tag=tag)
        path = rc.write_tmp(data)
        try:
            exp_recs = rf.expected([e for b in bl for e in b], sel)
            for backend in (["native"] + (["installed"] if cpp_unchanged else [])):
                try:
                    if backend == "native":
                        with rc.NativeBackedReader():
                            with pybes3.open_raw(path) as r:
                                if idx % 3 == 0 and bl:
                                    r.arrays(n_blocks=1, sub_detectors=sel, decode_reid=False)       # an earlier partial read must not matter
                                arr = r.arrays(sub_detectors=sel, decode_reid=False, n_block_per_batch=rng.choice([1, 2, 3, 1000]))
                                if idx % 2 == 0:
                                    again = r.arrays(sub_detectors=sel, decode_reid=False)
                                    if rc.ak_to_records(again, sel) != rc.ak_to_records(arr, sel):
                                        raise AssertionError(f"second arrays() call on the same reader returned {len(again)} records, first returned {len(arr)}")
                                entries = r.entries
                    else:
                        with pybes3.open_raw(path) as r:
                            arr = r.arrays(sub_detectors=sel, decode_reid=False)
                            entries = r.entries
                    got = rc.ak_to_records(arr, sel)
                    observed = got if got != exp_recs else None
                except Exception as ex:
                    observed = f"{type(ex).__name__}: {ex}"
                chk.count(1, key=f"py-{backend}-{idx}")
                if observed is not None:
                    chk.failing_input(f"pybes3.open_raw(path).arrays(decode_reid=False) [{backend} C++]", {"file_bytes_hex": data.hex() if len(data) < 4000 else data[:4000].hex() + "...", "n_events": sum(len(b) for b in bl), "sub_detectors": sel, "name_len": len(name), "tag_len": len(tag)},
                                      str(observed)[:1500], str(exp_recs)[:1500], "one record per event in file order with exactly the encoded header words and digi lists")
                    break
            else:
                continue
            break
        finally:
            os.unlink(path)
    chk.coverage["traces_validated_against_impl"] = len(cases) + len(py_cases)
    chk.coverage["installed_extension_also_run"] = cpp_unchanged
    chk.sample({"n_events": sum(len(b) for b in cases[6][0]), "sub_detectors": cases[6][1], "first_words": [hex(x) for x in bufs[6][0][:24]]})
    return chk.finish(None)
