"""C17 — geometry results always reflect the current geometry tables (DESIGN.md section 6/C17).

model  : Model/Cache.lean (cache_auto_clear / check_numba_cache / clear_numba_cache + the ghost "built from" version)
proof  : Props/C17.lean  (mtime-level invariants over all histories and crash points; content-level statement for
         atomic histories; machine-checked witness that the full-strength statement fails otherwise)
tie    : generated histories executed by the real functions on a scratch copy of the package layout (fake cache
         files with os.utime-set mtimes, os.remove interrupted after k calls) <-> Lean driver, file set by file set
e2e    : fresh interpreters importing a scratch copy of the whole package, a changed table *content*, the lookup
         value must change (thorough tier; the known finding is replayed this way in every tier)
"""
from __future__ import annotations

import ast
import importlib.util
import json
import os
import shutil
import subprocess
import sys
import tempfile
from pathlib import Path

import numpy as np

from lib import core

T0 = 1_600_000_000     # base of the logical clock (seconds)
TICK = 0.05            # one logical tick = 50 ms: sub-second ordering of mtimes matters and must be honoured


class Interrupted(BaseException):
    """stands for the process being killed in the middle of the clean-up"""


def load_cache_module(root: Path):
    """copy _cache_numba.py into a scratch package layout and import it from there"""
    pkg = root / "pybes3"
    geo = pkg / "detectors" / "geometry"
    (geo / "__pycache__").mkdir(parents=True)
    shutil.copy(core.SRC / "_cache_numba.py", pkg / "_cache_numba.py")
    for t in ("mdc", "emc"):
        (geo / f"{t}_geom.npz").write_bytes(b"table-v0")
        os.utime(geo / f"{t}_geom.npz", (T0, T0))
    spec = importlib.util.spec_from_file_location("scratch_cache_numba", pkg / "_cache_numba.py")
    mod = importlib.util.module_from_spec(spec)
    spec.loader.exec_module(mod)
    return mod, geo


def real_files(geo: Path):
    """(table, kernel, 'i' | signature, mtime tick) of every cache file, in name order (= creation order = the order the harness
    fixes for glob)"""
    out = []
    for f in sorted((geo / "__pycache__").iterdir(), key=lambda f: f.name):
        parts = f.name.split(".")
        t = {"mdc": 0, "emc": 1}.get(parts[0])
        if t is None or f.suffix not in (".nbi", ".nbc"):
            continue
        kernel = int(parts[2][1:])
        sig = "i" if f.suffix == ".nbi" else str(int(parts[3][1:]))
        out.append((parts[1], t, kernel, sig, int(round((os.path.getmtime(f) - T0) / TICK))))
    # creation sequence numbers are per table in the file names; the model keeps one list: order by global sequence
    return [(t, k, sg, m) for _, t, k, sg, m in sorted(out)]


def gen_history(rng, length):
    ops, nproc, names = [], 0, 0
    for _ in range(length):
        r = rng.random()
        if nproc == 0 or r < 0.12:
            ops.append(("spawn",)); nproc += 1
        elif r < 0.30:
            ops.append(("touch", int(rng.integers(0, 2))))
        elif r < 0.65:
            # few kernels, few signatures: repeated first uses of one kernel with another signature rewrite its index file
            ops.append(("use", int(rng.integers(0, nproc)), int(rng.integers(0, 2)), int(rng.integers(1, 4)), int(rng.integers(0, 3))))
        elif r < 0.75:
            ops.append(("load", int(rng.integers(0, nproc)), int(rng.integers(0, 2))))
        elif r < 0.90:
            ops.append(("check",) if rng.random() < 0.5 else ("check", int(rng.integers(0, 4))))
        else:
            ops.append(("force",))
    ops.append(("check",))
    return ops


def run_real(ops):
    """execute a history with the real functions; returns the file set after every op"""
    root = Path(tempfile.mkdtemp(prefix="c17-"))
    try:
        mod, geo = load_cache_module(root)
        import glob as _glob
        mod.glob = lambda pat: sorted(_glob.glob(pat))      # glob order is unspecified: fix it (name = creation order)
        clock = 0
        seq = 0
        states = []
        for op in ops:
            clock += 1
            if op[0] == "touch":
                f = geo / f"{['mdc', 'emc'][op[1]]}_geom.npz"
                f.write_bytes(b"table-v%d" % clock)
                os.utime(f, (T0 + clock * TICK, T0 + clock * TICK))
            elif op[0] == "use":
                _, p, t, kernel, sig = op
                tn = ["mdc", "emc"][t]
                pyc = geo / "__pycache__"
                data = list(pyc.glob(f"{tn}.*.k{kernel}.s{sig}.nbc"))
                if not data:                          # miss: numba (re)writes the kernel's index file and writes a new data file
                    idx = list(pyc.glob(f"{tn}.*.k{kernel}.nbi"))
                    when = (T0 + clock * TICK, T0 + clock * TICK)
                    if idx:
                        idx[0].write_bytes(b"index-rewritten"); os.utime(idx[0], when)
                    else:
                        seq += 1
                        f = pyc / f"{tn}.{seq:06d}.k{kernel}.nbi"
                        f.write_bytes(b"index"); os.utime(f, when)
                    seq += 1
                    f = pyc / f"{tn}.{seq:06d}.k{kernel}.s{sig}.nbc"
                    f.write_bytes(b"data"); os.utime(f, when)
            elif op[0] == "check":
                k = op[1] if len(op) > 1 else None
                cnt = [0]
                real_remove = os.remove

                def rm(path, _k=k, _cnt=cnt):
                    if _k is not None and _cnt[0] >= _k:
                        raise Interrupted()
                    _cnt[0] += 1
                    real_remove(path)
                mod.os.remove = rm
                try:
                    mod.check_numba_cache()
                except Interrupted:
                    pass
                finally:
                    mod.os.remove = real_remove
            elif op[0] == "force":
                mod.clear_numba_cache()
            states.append(real_files(geo))
        return states
    finally:
        shutil.rmtree(root, ignore_errors=True)


def _table_modules():
    """modules of the package that load a geometry table file: {module path -> table file name}"""
    out = {}
    for py in sorted(core.SRC.rglob("*.py")):
        try:
            t = ast.parse(py.read_text())
        except SyntaxError:
            continue
        loads = [n for n in ast.walk(t) if isinstance(n, ast.Call) and ast.unparse(n.func).endswith("np.load")]
        table = [a for n in loads for a in ast.walk(n) if isinstance(a, ast.Constant) and isinstance(a.value, str) and a.value.endswith(".npz")]
        if table:
            out[py] = table[0].value
    return out


def cached_kernels_embedding_tables():
    """every numba kernel compiled with cache=True, anywhere in the package, whose body reads module state that comes from a geometry table:
    a non-constant global of a table-loading module, either its own module's or reached through an imported module alias.
    Returns [(module path, function name, table file name)]."""
    tmods = _table_modules()
    found = []
    for py in sorted(core.SRC.rglob("*.py")):
        try:
            t = ast.parse(py.read_text())
        except SyntaxError:
            continue
        # names bound at module level: functions/classes, literal constants, imported modules (alias -> module file if it is a table module)
        funcs = {n.name for n in t.body if isinstance(n, (ast.FunctionDef, ast.ClassDef))}
        alias_to_tmod = {}
        imported = set()
        for n in t.body:
            if isinstance(n, (ast.Import, ast.ImportFrom)):
                for a in n.names:
                    nm = a.asname or a.name.split(".")[0]
                    imported.add(nm)
                    for tm in tmods:
                        if tm.stem == a.name.split(".")[-1] and isinstance(n, ast.ImportFrom):
                            alias_to_tmod[nm] = tm
        own_table = tmods.get(py)
        for f in t.body:
            if not (isinstance(f, ast.FunctionDef) and any(("vectorize" in ast.unparse(d) or "jit" in ast.unparse(d)) and "cache=True" in ast.unparse(d) for d in f.decorator_list)):
                continue
            params = {a.arg for a in f.args.args}
            local = {x.id for n in ast.walk(f) for x in ast.walk(n) if isinstance(n, (ast.Assign, ast.AugAssign, ast.AnnAssign)) and isinstance(x, ast.Name) and isinstance(x.ctx, ast.Store)}
            table = None
            for n in ast.walk(f):
                if isinstance(n, ast.Attribute) and isinstance(n.value, ast.Name) and n.value.id in alias_to_tmod and not isinstance(getattr(n, "ctx", None), ast.Store):
                    table = tmods[alias_to_tmod[n.value.id]]
                elif isinstance(n, ast.Name) and isinstance(n.ctx, ast.Load) and own_table and n.id not in params | local | funcs | imported and n.id not in dir(__builtins__) \
                        and any(isinstance(g, ast.Global) and n.id in g.names for g in ast.walk(t)):
                    table = own_table
            if table:
                found.append((py, f.name, table))
    return found


def wiring(chk: core.Check):
    """every cached kernel of the package that freezes data of a geometry table into its compiled code lives in a module whose cache files
    are matched by a glob of src_cache_list paired with that table"""
    src = (core.SRC / "_cache_numba.py").read_text()
    tree = ast.parse(src)
    pairs = []
    for st in tree.body:
        if isinstance(st, ast.Assign) and getattr(st.targets[0], "id", None) == "src_cache_list":
            for el in st.value.elts:
                pairs.append((ast.unparse(el.elts[0]), ast.unparse(el.elts[1])))
    kernels = cached_kernels_embedding_tables()
    chk.coverage["cached_kernels_embedding_table_data"] = len(kernels)
    by_mod = {}
    for py, fn, table in kernels:
        by_mod.setdefault((py, table), []).append(fn)
    geo = core.SRC / "detectors" / "geometry"
    for (py, table), fns in sorted(by_mod.items()):
        chk.count(1, key=f"wiring-{py.stem}-{table}")
        in_geo = py.parent == geo
        ok = in_geo and any(table in s_ and f"__pycache__/{py.stem}.*.nb[ci]" in c and "geom_dir" in c for s_, c in pairs)
        if not ok:
            chk.obligation_broken("correspondence", "wiring: cached kernels that embed geometry-table data vs src_cache_list",
                                  f"{py.relative_to(core.SRC)}: kernels {fns[:4]} read data of {table}, but no pair ({table}, {py.parent.relative_to(core.SRC)}/__pycache__/{py.stem}.*.nb[ci]) is in src_cache_list {pairs}")
    if not any(py.parent == geo and py.stem == "mdc" for py, _ in by_mod) or not any(py.parent == geo and py.stem == "emc" for py, _ in by_mod):
        chk.obligation_broken("correspondence", "wiring scan", f"the scan no longer recognises the cached kernels of geometry/mdc.py / emc.py: {[(str(p.name), t) for p, t in by_mod]}")
    init = (core.SRC / "__init__.py").read_text()
    body = [s for s in ast.parse(init).body if not isinstance(s, ast.Expr)]
    first_imports = [ast.unparse(s) for s in body[:3]]
    if not ("check_numba_cache()" in init and init.index("check_numba_cache()") < init.index("from . import besio")):
        chk.failing_input("import-time check position", {"head": first_imports}, "check after sub-module import", "check_numba_cache() before any sub-module import", "check must run before kernels can be loaded")


E2E = r'''
import sys, json, numpy as np
sys.path.insert(0, sys.argv[1])
import pybes3
from pybes3.detectors.geometry import mdc
mode = sys.argv[2]
if mode == "load_then_wait":
    t = pybes3.get_mdc_wire_position()              # loads the table, compiles nothing
    print("LOADED", flush=True)
    sys.stdin.readline()                             # table is replaced meanwhile
    v = float(pybes3.mdc_gid_to_west_x(np.array([0], dtype=np.int64))[0])     # first use: compiles + caches
    print(json.dumps({"value": v}), flush=True)
elif mode == "import_wait_int32":
    print("LOADED", flush=True)                      # imported only (the import-time check has run)
    sys.stdin.readline()                             # table is replaced meanwhile
    v = float(pybes3.mdc_gid_to_west_x(np.array([0], dtype=np.int32))[0])     # same kernel, another signature: index file rewritten
    print(json.dumps({"value": v}), flush=True)
else:
    v = float(pybes3.mdc_gid_to_west_x(np.array([0], dtype=np.int64))[0])
    print(json.dumps({"value": v}), flush=True)
'''


def scratch_package():
    root = Path(tempfile.mkdtemp(prefix="c17e2e-"))
    shutil.copytree(core.SRC, root / "pybes3", ignore=shutil.ignore_patterns("__pycache__", "*.nbi", "*.nbc"))
    so = Path("/venv/lib/python3.12/site-packages/pybes3/besio")
    for f in so.glob("besio_cpp*.so"):
        shutil.copy(f, root / "pybes3" / "besio" / f.name)
    (root / "e2e.py").write_text(E2E)
    return root


def e2e_env():
    env = dict(os.environ)
    env["PYTHONPATH"] = str(core.VERIF / "tools" / "wt_site")
    env.pop("NUMBA_CACHE_DIR", None)
    return env


def run_py(root, mode, **kw):
    return subprocess.Popen([core.PY, str(root / "e2e.py"), str(root), mode], stdin=subprocess.PIPE, stdout=subprocess.PIPE, stderr=subprocess.PIPE, text=True, env=e2e_env(), **kw)


def bump_table(root, delta, wait=True):
    f = root / "pybes3" / "detectors" / "geometry" / "mdc_geom.npz"
    d = dict(np.load(f))
    d["west_x"] = d["west_x"] + delta
    import time
    if wait:
        time.sleep(1.1)                               # a later wall-clock second than every cache written so far
    np.savez(f, **d)
    return float(d["west_x"][0])


def e2e_normal(chk: core.Check):
    """table changes between two fresh interpreters: the second one must see the new values"""
    root = scratch_package()
    try:
        p = run_py(root, "plain"); out, err = p.communicate(timeout=300)
        v0 = json.loads(out.strip().splitlines()[-1])["value"]
        new = bump_table(root, 5.0)
        p = run_py(root, "plain"); out, err = p.communicate(timeout=300)
        v1 = json.loads(out.strip().splitlines()[-1])["value"]
        chk.count(2, key="e2e-normal")
        if abs(v1 - new) > 1e-9:
            chk.failing_input("lookup after a table update (fresh interpreters)", {"history": ["P1: import, mdc_gid_to_west_x", "table content += 5", "P2: import, mdc_gid_to_west_x"]}, v1, new,
                              "after the table files change, the next import discards stale caches so lookups return current values")
        chk.coverage["e2e_normal"] = {"before": v0, "after": v1, "table": new}
    finally:
        shutil.rmtree(root, ignore_errors=True)


def e2e_known_finding(chk: core.Check):
    """the model's witness (Props/C17: content_fresh_fails_without_atomicity) replayed on the real code:
    P0 loads the table, the table is replaced, P0 first-uses a kernel (cache newer than table, built from the old one),
    a fresh interpreter then imports pybes3 and looks up -> old value"""
    root = scratch_package()
    try:
        p0 = run_py(root, "load_then_wait")
        line = p0.stdout.readline()
        if "LOADED" not in line:
            raise core.Infra("e2e process did not start: " + p0.stderr.read()[-800:])
        new = bump_table(root, 7.0)
        p0.stdin.write("\n"); p0.stdin.flush()
        out, err = p0.communicate(timeout=300)
        v_old_proc = json.loads(out.strip().splitlines()[-1])["value"]
        p1 = run_py(root, "plain"); out, err = p1.communicate(timeout=300)
        v_fresh = json.loads(out.strip().splitlines()[-1])["value"]
        chk.count(2, key="e2e-known-finding")
        chk.coverage["e2e_witness"] = {"old_process_value": v_old_proc, "fresh_interpreter_value": v_fresh, "current_table": new}
        if abs(v_fresh - new) > 1e-9:
            chk.failing_input("lookup in a fresh interpreter after: P0 get_mdc_wire_position(); table replaced; P0 first use of mdc_gid_to_west_x",
                              {"history": ["P0: import pybes3; get_mdc_wire_position()", "mdc_geom.npz replaced (west_x += 7)", "P0: mdc_gid_to_west_x([0]) (first use: compiles and caches)", "P1: import pybes3; mdc_gid_to_west_x([0])"]},
                              v_fresh, new, "lookups return values of the current tables",
                              finding_key={"key": "c17-stale-process-compiles-after-update", "member": "no-older-cache"})
    finally:
        shutil.rmtree(root, ignore_errors=True)


def e2e_same_second(chk: core.Check):
    """the table is replaced a fraction of a second after the caches were written (same wall-clock second):
    it is strictly newer, so the next import must still discard the caches"""
    import time
    for attempt in range(6):
        root = scratch_package()
        try:
            while time.time() % 1 > 0.25:             # start early in a second so cache + table land in the same one
                time.sleep(0.02)
            p = run_py(root, "plain"); out, err = p.communicate(timeout=300)
            pyc = root / "pybes3" / "detectors" / "geometry" / "__pycache__"
            caches = [f for f in pyc.glob("mdc.*.nb[ci]")]
            time.sleep(0.05)
            new = bump_table(root, 2.0, wait=False)
            tm = os.path.getmtime(root / "pybes3" / "detectors" / "geometry" / "mdc_geom.npz")
            cm = min(os.path.getmtime(c) for c in caches)
            if not (tm > cm and int(tm) == int(cm)):
                continue
            p = run_py(root, "plain"); out, err = p.communicate(timeout=300)
            v = json.loads(out.strip().splitlines()[-1])["value"]
            chk.count(2, key="e2e-same-second")
            chk.coverage["e2e_same_second"] = {"table_mtime": tm, "oldest_cache_mtime": cm, "value": v, "current_table": new}
            if abs(v - new) > 1e-9:
                chk.failing_input("lookup after a table update that falls in the same wall-clock second as the cache files",
                                  {"history": ["P1: import pybes3; mdc_gid_to_west_x([0])", f"mdc_geom.npz replaced {tm - cm:.3f} s after the oldest cache file (same second)", "P2: import pybes3; mdc_gid_to_west_x([0])"]},
                                  v, new, "a table strictly newer than a cache makes the next import discard the caches")
            return
        finally:
            shutil.rmtree(root, ignore_errors=True)
    chk.coverage["e2e_same_second"] = "timing never landed in one wall-clock second (6 attempts)"


def e2e_index_rewrite(chk: core.Check):
    """A compiles mdc_gid_to_west_x for int64; Q imports; the table is replaced; Q first-uses the same kernel for int32 (numba
    rewrites the kernel's index file - now newer than the table - and adds a data file; the int64 data file is still the old one).
    A fresh interpreter must see current values for int64: the old data file makes the import remove everything."""
    root = scratch_package()
    try:
        p = run_py(root, "plain"); p.communicate(timeout=300)
        q = run_py(root, "import_wait_int32")
        if "LOADED" not in q.stdout.readline():
            raise core.Infra("e2e process did not start: " + q.stderr.read()[-800:])
        new = bump_table(root, 4.0)
        q.stdin.write("\n"); q.stdin.flush()
        q.communicate(timeout=300)
        p1 = run_py(root, "plain"); out, err = p1.communicate(timeout=300)
        v = json.loads(out.strip().splitlines()[-1])["value"]
        chk.count(3, key="e2e-index-rewrite")
        chk.coverage["e2e_index_rewrite"] = {"fresh_interpreter_value_int64": v, "current_table": new}
        if abs(v - new) > 1e-9:
            chk.failing_input("lookup in a fresh interpreter after: A used the kernel with int64; Q imported; table replaced; Q first-used the same kernel with int32",
                              {"history": ["A: import pybes3; mdc_gid_to_west_x(int64[0])", "Q: import pybes3", "mdc_geom.npz replaced (west_x += 4)", "Q: mdc_gid_to_west_x(int32[0]) (same kernel, new signature: index file rewritten)", "P: import pybes3; mdc_gid_to_west_x(int64[0])"]},
                              v, new, "every cache produced from older tables is discarded at the next import (the int64 data file is older than the table although the kernel's index file is newer)")
    finally:
        shutil.rmtree(root, ignore_errors=True)


E2E2 = r'''
import sys, json, numpy as np
sys.path.insert(0, sys.argv[1])
import pybes3
a = float(pybes3.mdc_gid_to_west_y(np.array([0], dtype=np.int64))[0])      # kernel A: compiled from the old table
print("A-DONE", flush=True)
sys.stdin.readline()                                                        # table is replaced meanwhile
b = float(pybes3.mdc_gid_to_west_x(np.array([0], dtype=np.int64))[0])      # kernel B: compiled now, from the OLD in-memory table
print(json.dumps({"value": b}), flush=True)
'''


def e2e_wholesale(chk: core.Check):
    """P0 uses kernel A, the table is replaced, P0 first-uses kernel B (cache newer than the table, old content).
    A fresh interpreter must still see current values for B: the stale cache A makes the import remove ALL caches."""
    root = scratch_package()
    try:
        (root / "e2e2.py").write_text(E2E2)
        p0 = subprocess.Popen([core.PY, str(root / "e2e2.py"), str(root)], stdin=subprocess.PIPE, stdout=subprocess.PIPE, stderr=subprocess.PIPE, text=True, env=e2e_env())
        line = p0.stdout.readline()
        if "A-DONE" not in line:
            raise core.Infra("e2e process did not start: " + p0.stderr.read()[-800:])
        new = bump_table(root, 3.0)
        p0.stdin.write("\n"); p0.stdin.flush()
        p0.communicate(timeout=300)
        p1 = run_py(root, "plain"); out, err = p1.communicate(timeout=300)
        v = json.loads(out.strip().splitlines()[-1])["value"]
        chk.count(2, key="e2e-wholesale")
        chk.coverage["e2e_wholesale"] = {"fresh_interpreter_value": v, "current_table": new}
        if abs(v - new) > 1e-9:
            chk.failing_input("lookup in a fresh interpreter after: P0 used kernel A; table replaced; P0 first use of kernel B",
                              {"history": ["P0: import pybes3; mdc_gid_to_west_y([0])", "mdc_geom.npz replaced (west_x += 3)", "P0: mdc_gid_to_west_x([0]) (first use)", "P1: import pybes3; mdc_gid_to_west_x([0])"]},
                              v, new, "every cache produced from older tables is discarded at the next import (a stale cache triggers the removal of all)")
    finally:
        shutil.rmtree(root, ignore_errors=True)


E2E_ALL = r'''
import sys, json, numpy as np
sys.path.insert(0, sys.argv[1])
import pybes3
import pybes3.detectors as det
out = {}
gids_m = np.array([0, 39, 40, 45, 100, 500, 3000, 6000], dtype=np.int64)
gids_e = np.array([0, 100, 479, 480, 3000, 6000], dtype=np.int64)
for name in sorted(dir(pybes3)):
    f = getattr(pybes3, name)
    try:
        if name.startswith("mdc_gid_to_"):
            out[name] = np.asarray(f(gids_m)).astype(float).tolist()
        elif name.startswith("emc_gid_to_point_"):
            out[name] = np.asarray(f(gids_e, np.full(len(gids_e), 3))).astype(float).tolist()
        elif name.startswith("emc_gid_to_"):
            out[name] = np.asarray(f(gids_e)).astype(float).tolist()
        elif name in ("mdc_gid_z_to_x", "mdc_gid_z_to_y"):
            out[name] = np.asarray(f(gids_m, np.full(len(gids_m), 7.5))).astype(float).tolist()
    except Exception as ex:
        out[name] = f"{type(ex).__name__}: {ex}"
layers = np.array([0, 1, 1, 10, 42], dtype=np.uint8); wires = np.array([3, 5, 0, 7, 2], dtype=np.uint16)
out["get_mdc_gid"] = np.asarray(pybes3.get_mdc_gid(layers, wires)).astype(float).tolist()
out["get_emc_gid"] = np.asarray(pybes3.get_emc_gid(np.array([0, 1, 1, 2]), np.array([1, 0, 20, 3]), np.array([5, 0, 100, 7]))).astype(float).tolist()
ids = det.get_mdc_digi_id(wires, layers, np.zeros(5, dtype=np.uint8))
for lib in ("np",):
    r = pybes3.parse_mdc_digi_id(np.asarray(ids, dtype=np.uint32), with_pos=True, library=lib) if "library" in pybes3.parse_mdc_digi_id.__code__.co_varnames else pybes3.parse_mdc_digi_id(np.asarray(ids, dtype=np.uint32), with_pos=True)
    for k in (r.fields if hasattr(r, "fields") else r.keys()):
        out["parse_mdc_digi_id." + k] = np.asarray(r[k]).astype(float).tolist()
eids = det.get_emc_digi_id(np.array([1, 1, 0]), np.array([3, 20, 2]), np.array([7, 100, 9]))
r = pybes3.parse_emc_digi_id(np.asarray(eids, dtype=np.uint32), with_pos=True)
for k in (r.fields if hasattr(r, "fields") else r.keys()):
    out["parse_emc_digi_id." + k] = np.asarray(r[k]).astype(float).tolist()
for nm, g in (("parse_mdc_gid", gids_m), ("parse_emc_gid", gids_e)):
    r = getattr(pybes3, nm)(g, with_pos=True)
    for k in (r.fields if hasattr(r, "fields") else r.keys()):
        out[nm + "." + k] = np.asarray(r[k]).astype(float).tolist()
print("RESULT " + json.dumps(out))
'''


E2E_WORKER = r'''
import sys, multiprocessing as mp


def work(root):
    import runpy
    sys.argv = [root + "/e2e_all.py", root]
    runpy.run_path(root + "/e2e_all.py", run_name="__main__")


if __name__ == "__main__":            # the parent never imports pybes3: the worker's import is the first one after the update
    ctx = mp.get_context("spawn")
    p = ctx.Process(target=work, args=(sys.argv[1],))
    p.start(); p.join()
    sys.exit(p.exitcode)
'''


def e2e_everything(chk: core.Check, variant="plain"):
    """every public geometry / parsing function, both tables replaced (positions shifted, one MDC wire dropped so that the derived
    numbering changes): what a fresh interpreter returns after the update must equal what it returns with every cache file wiped.
    variants: `plain`; `symlinked-tables` (the table files of the package are symbolic links into a central area - a site installation -
    and the update replaces the files behind the links); `worker-process` (the first import after the update happens in a spawned
    multiprocessing worker whose parent never imported pybes3)"""
    import time
    root = scratch_package()
    (root / "e2e_all.py").write_text(E2E_ALL)
    (root / "e2e_worker.py").write_text(E2E_WORKER)
    if variant == "symlinked-tables":
        central = root / "central-geometry"
        central.mkdir()
        for nm in ("mdc_geom.npz", "emc_geom.npz"):
            f = root / "pybes3" / "detectors" / "geometry" / nm
            shutil.move(str(f), str(central / nm))
            os.symlink(central / nm, f)

    def run(msg=False, prefix=False, worker=False):
        # the clean-up messages (PYBES3_NUMBA_CACHE_MSG=1) and a redirected bytecode cache (PYTHONPYCACHEPREFIX: numba keeps writing next to the
        # sources) must not change what is removed
        extra = {"PYBES3_NUMBA_CACHE_MSG": "1"} if msg else {}
        if prefix:
            extra["PYTHONPYCACHEPREFIX"] = str(root / "pyc-prefix")
        p = subprocess.run([core.PY, str(root / ("e2e_worker.py" if worker else "e2e_all.py")), str(root)], capture_output=True, text=True, env=dict(e2e_env(), **extra), timeout=1500)
        lines = [l for l in p.stdout.splitlines() if l.startswith("RESULT ")]
        if p.returncode != 0 or not lines:
            raise core.Infra("e2e_all process failed: " + p.stderr[-1200:])
        return json.loads(lines[-1][7:])
    try:
        run()                                                    # P1: warms every cache from the old tables
        time.sleep(1.1)
        g = root / "pybes3" / "detectors" / "geometry"
        d = dict(np.load(g / "mdc_geom.npz"))
        drop = int(np.flatnonzero(d["layer"] == 0)[-1])
        d = {k: np.delete(v, drop, axis=0) for k, v in d.items()}
        d["gid"] = np.arange(len(d["layer"]), dtype=d["gid"].dtype)
        d["west_x"] = d["west_x"] + 3.0
        np.savez(g / "mdc_geom.npz", **d)
        e = dict(np.load(g / "emc_geom.npz"))
        e["center_x"] = e["center_x"] + 2.0
        e["points_y"] = e["points_y"] - 1.5
        np.savez(g / "emc_geom.npz", **e)
        after = run(msg=(chk.seed % 2 == 1), prefix=(variant == "plain"), worker=(variant == "worker-process"))           # P2: next import after the update
        survivors = sorted(str(f.relative_to(root / "pybes3")) for f in (root / "pybes3").rglob("*.nb[ci]") if f.stat().st_mtime < (g / "mdc_geom.npz").stat().st_mtime)
        for f in list((root / "pybes3").rglob("*.nb[ci]")):
            f.unlink()
        ref = run()                                              # P3: nothing cached - values of the current tables
        chk.count(len(ref), key=f"e2e-everything-{variant}")
        chk.hist("e2e_everything_variant", variant)
        bad = [k for k in ref if after.get(k) != ref[k]]
        chk.coverage["e2e_everything" + ("" if variant == "plain" else "_" + variant)] = {"functions_compared": len(ref), "caches_older_than_the_tables_surviving": survivors[:6]}
        if bad:
            k = bad[0]
            chk.failing_input("public lookups in a fresh interpreter after both geometry tables were replaced" + ("" if variant == "plain" else f" ({variant})"), {"variant": variant, "history": ["P1: import, call every public geometry / parsing function (caches written)", "mdc_geom.npz: last wire of layer 0 dropped, west_x += 3; emc_geom.npz: center_x += 2, points_y -= 1.5", "P2: import (import-time check), same calls"],
                                                                                                                 "function": k, "differing_functions": bad[:8], "cache_files_older_than_the_tables_left_on_disk": survivors[:8]},
                              after.get(k), ref[k], "after the geometry table files change, the next import discards every cache produced from older tables, so that lookups return values of the current tables")
    finally:
        shutil.rmtree(root, ignore_errors=True)


def correspond(chk: core.Check, n_hist: int):
    rng = np.random.default_rng(chk.seed + 17)
    hists = [gen_history(rng, int(rng.integers(3, 13))) for _ in range(n_hist)]
    # corpus: the shapes named by the property
    hists[:0] = [[("spawn",), ("use", 0, 0, 1, 0), ("use", 0, 1, 2, 0), ("touch", 0), ("check", 1), ("check",)],
                 [("spawn",), ("use", 0, 0, 1, 0), ("use", 0, 0, 2, 0), ("check",)],
                 [("spawn",), ("use", 0, 0, 1, 0), ("touch", 0), ("use", 0, 0, 2, 0), ("check", 0), ("spawn",), ("check",)],
                 [("spawn",), ("use", 0, 0, 1, 0), ("use", 0, 1, 2, 0), ("force",)],
                 # another signature of the same kernel after a table update: the index file is rewritten (newer than the table), the old data file stays old
                 [("spawn",), ("use", 0, 0, 1, 0), ("touch", 0), ("spawn",), ("use", 1, 0, 1, 1), ("check",)],
                 [("spawn",), ("use", 0, 0, 1, 0), ("use", 0, 0, 1, 1), ("touch", 0), ("use", 0, 0, 1, 2), ("check", 2), ("check",)]]
    lines = []
    for h in hists:
        lines.append("reset")
        lines += [" ".join(str(x) for x in op) for op in h]
    out = core.lean_run("Driver/Cache.lean", "\n".join(lines) + "\n")
    diffs, pos = [], 0
    for h in hists:
        pos += 1
        model_states = out[pos:pos + len(h)]
        pos += len(h)
        real_states = run_real(h)
        chk.count(len(h), key=str(h)[:200])
        chk.hist("history_length", len(h))
        for op in h:
            chk.hist("ops", op[0] + ("-interrupted" if op[0] == "check" and len(op) > 1 else ""))
        # oracle on the real run alone (no model involved): right after an uninterrupted import-time check or a forced clear, no
        # compiled kernel (data file) written before the last replacement of its table is left on disk
        last_touch = {0: 0, 1: 0}
        for i, (op, rs) in enumerate(zip(h, real_states)):
            if op[0] == "touch":
                last_touch[op[1]] = i + 1
            if (op[0] == "check" and len(op) == 1) or op[0] == "force":
                stale = [(t, k, sg, m) for t, k, sg, m in rs if sg != "i" and m < last_touch[t]] if op[0] == "check" else list(rs)
                if stale and not chk.failing:
                    t, k, sg, m = stale[0]
                    chk.failing_input("cache files left on disk by the real check_numba_cache / clear_numba_cache after a history (scratch package layout, real functions)",
                                      {"history": [list(o) for o in h[: i + 1]], "legend": "use p t kernel sig = first use of a kernel for an argument signature in process p (numba rewrites the kernel's index file and writes a data file); touch t = table t replaced; check = import pybes3 (check k = interrupted after k removals)"},
                                      {"surviving_file": {"table": t, "kernel": k, "signature": sg, "written_at_step": m}, "table_replaced_at_step": last_touch[t], "all_files": [list(x) for x in rs]},
                                      "no compiled-kernel cache written before the table was last replaced survives the next (uninterrupted) import / any file survives a forced clear",
                                      "the next import discards every on-disk compiled-kernel cache that was produced from older tables; a forced clear removes all of them")
        for i, (ms, rs) in enumerate(zip(model_states, real_states)):
            want = ",".join(f"{t}:{k}:{sg}@{m}" for t, k, sg, m in rs)
            got = ms.split()[0][len("files="):]
            if got != want:
                diffs.append({"history": [list(o) for o in h[: i + 1]], "model_files": got, "real_files": want})
                break
        # property-level oracle on the real run: after the final complete check no file is older than its table -> checked through the model flag
        if "mtimefresh=1" not in model_states[-1]:
            diffs.append({"history": [list(o) for o in h], "model": "MtimeFresh false after a complete check"})
    chk.sample({"history": [list(o) for o in hists[5]] if len(hists) > 5 else [list(o) for o in hists[0]]})
    return diffs


def main(chk: core.Check) -> int:
    thorough = chk.tier == "thorough"
    chk.coverage["rule"] = ("evaluations = operations of generated histories (touch/spawn/load/first-use/check/interrupted check/force) executed by the real functions on a "
                            "scratch package layout and by the Lean model, compared file set by file set; distinct = distinct histories; plus end-to-end interpreter runs")
    chk.assumptions += ["timestamp granularity (equal mtimes) and concurrent importers are outside the model; numba's two file kinds (index file rewritten per new signature, one data file per signature) are modelled, its file naming and locking are not",
                        "glob order fixed to ascending name (= creation order) in the harness; the model removes in that order",
                        "content-level theorem assumes atomic histories (no table update between a process loading a table and its first use of an uncached kernel); "
                        "the complementary case is the recorded finding c17-stale-process-compiles-after-update"]
    from translate import gen
    g = gen.gen_cachepy()
    if not g["ok"]:
        chk.obligation_broken("translator", "translate _cache_numba.py (pairs, clearing decision, aggregates, removal loop, sweeps, import-time call) into Gen/CachePy.lean", g["error"])
    else:
        chk.coverage["cachepy_translation"] = {k: (v if len(str(v)) < 300 else str(v)[:300]) for k, v in g["info"].items()} if isinstance(g["info"], dict) else str(g["info"])[:300]
    chk.prove(modules=["C17", "CacheTie"])
    try:
        diffs = correspond(chk, 400 if thorough else 60)
        chk.coverage["traces_validated_against_impl"] = len(chk.distinct)
        if diffs:
            chk.obligation_broken("correspondence", "Lean cache model vs real cache_auto_clear on a history", json.dumps(diffs[:2]))
    except core.DriverError as ex:
        chk.obligation_broken("correspondence", "cache driver", str(ex))
    wiring(chk)
    e2e_known_finding(chk)
    e2e_everything(chk)
    for variant in ("symlinked-tables", "worker-process"):
        if not [f for f in chk.failing if not f.get("finding_key")]:
            e2e_everything(chk, variant)
    if thorough:
        e2e_normal(chk)
        e2e_wholesale(chk)
        e2e_index_rewrite(chk)
        e2e_same_second(chk)

    def search():
        e2e_normal(chk)
        e2e_wholesale(chk)
        e2e_index_rewrite(chk)
        e2e_same_second(chk)
        pass
    return chk.finish(search if not thorough else None)
