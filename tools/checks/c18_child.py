"""child of c18: compute() of a lazily read collection by dask worker PROCESSES (scheduler="processes": the task graph, with the
interpretation objects in it, is pickled to freshly spawned interpreters - what every dask.distributed cluster does) and by threads,
compared with the eager array of this process.  Prints one JSON line."""
from __future__ import annotations

import json
import sys
import warnings


def canon(x):
    if isinstance(x, float):
        return "nan" if x != x else x
    if isinstance(x, list):
        return [canon(v) for v in x]
    if isinstance(x, dict):
        return {k: canon(v) for k, v in x.items()}
    return x


def main():
    warnings.filterwarnings("ignore")
    import awkward as ak
    import uproot
    import pybes3  # noqa: F401
    path, names = sys.argv[1], sys.argv[2:]
    out = []
    for name in names:
        short = name.split("/")[-1]
        with uproot.open(path) as f:
            eager = f["Event"][name].array()
        for sched in ("processes", "threads"):
            rec = {"branch": name, "scheduler": sched, "bad": None}
            try:
                col = uproot.dask({path: "Event/" + name}, steps_per_file=2)[short]
                comp = col.compute(scheduler=sched, num_workers=2)
                if str(comp.type) != str(eager.type):
                    rec["bad"] = f"type {str(comp.type)[:300]}"; rec["want"] = str(eager.type)[:300]
                elif canon(ak.to_list(comp)) != canon(ak.to_list(eager)):
                    rec["bad"] = "values differ"; rec["want"] = "the eager values"
            except Exception as ex:
                rec["bad"] = f"{type(ex).__name__}: {str(ex)[:300]}"; rec["want"] = str(eager.type)[:300]
            out.append(rec)
    print(json.dumps(out))


if __name__ == "__main__":      # worker processes are spawned and re-import this file
    main()
