"""C02 — ROOT reads are invariant under entry ranges, chunking and basket layout (DESIGN.md section 6/C02).

model  : Model/FinalArray.lean (AsCustom.final_array's basket selection and trimming; per-basket reader output with
         offsets restarting at 0; offset re-basing of ak.concatenate)
proof  : Props/C02.lean (slice of the full read for every basket layout incl. empty baskets and every non-empty interval;
         partition invariance; chunks; re-basing; post-processing commutes)
tie    : (i) Lean finalArray <-> the real Bes3Interpretation.final_array driven with index-valued arrays on random
         partitions / intervals / basket delivery orders; (ii) the real basket bytes of the fixtures re-partitioned into
         consecutive baskets, decoded per piece by basket_array and assembled by final_array; (iii) public API:
         array(entry_start, entry_stop), iterate(step_size), uproot.concatenate, branch subsets
oracle : the slice of the full read
"""
from __future__ import annotations

import itertools

import numpy as np

from checks.c01 import same_nested
from lib import core

FIXTURES = ["test_full_mc_evt_1.rtraw", "test_full_mc_evt_1.dst", "test_full_mc_evt_1.rec", "test_cgem.rtraw", "test_mrpc.rtraw"]


def make_interp(path):
    import pybes3.besio.root_io as rio

    class FakeBranch:
        object_path = path
    it = object.__new__(rio.Bes3Interpretation)
    return it, FakeBranch()


def model_vs_real(chk: core.Check, n_cases: int):
    """(i) index-valued arrays through the real final_array"""
    import awkward as ak
    rng = np.random.default_rng(chk.seed + 2)
    cases, lines = [], []
    for _ in range(n_cases):
        nb = int(rng.integers(1, 8))
        sizes = [int(x) for x in rng.choice([0, 0, 1, 1, 2, 3, 5, 8], nb)]
        n = sum(sizes)
        if n == 0:
            sizes[int(rng.integers(0, nb))] = int(rng.integers(1, 4)); n = sum(sizes)
        a = int(rng.integers(0, n)); b = int(rng.integers(a + 1, n + 1))
        cases.append((sizes, a, b)); lines.append(f"FA {a} {b} " + " ".join(map(str, sizes)))
    # long files: many small baskets (around the group sizes 32 / 64 / 128 / 256 a chunked merge might use), intervals touching k*group + 1 of them
    for nb, a, b in [(65, 0, 65), (129, 0, 129), (129, 64, 129), (130, 65, 130), (257, 0, 257), (33, 0, 33), (130, 0, 100), (300, 17, 283)]:
        sizes = [1] * nb
        if (nb, a) in ((130, 0), (300, 17)):
            sizes = [int(x) for x in rng.choice([0, 1, 1, 2], nb)]; sizes[0] = 1; sizes[-1] = 1
            b = min(b, sum(sizes)); a = min(a, b - 1)
        cases.append((sizes, a, b)); lines.append(f"FA {a} {b} " + " ".join(map(str, sizes)))
    out = core.lean_run("Driver/FinalArray.lean", "\n".join(lines) + "\n")
    it, br = make_interp("/Event:TMcEvent/m_mcParticleCol")
    diffs = []
    for (sizes, a, b), ml in zip(cases, out):
        offs = np.concatenate([[0], np.cumsum(sizes)])
        # every event is a (jagged) list holding its own index, so ListOffsetArray concatenation is exercised too
        empty = ak.Array([[0]])[:0]
        arrays = {i: (ak.Array([[int(e)] * (int(e) % 3) + [int(e)] for e in range(offs[i], offs[i + 1])]) if sizes[i] else empty) for i in range(len(sizes))}
        # uproot hands over only the baskets that overlap the requested interval, in any order
        ov = [i for i in arrays if offs[i] < b and offs[i + 1] > a]
        keys = list(range(min(ov), max(ov) + 1)) if rng.random() < 0.7 else list(arrays)    # contiguous run incl. empty baskets in between
        rng.shuffle(keys)
        ba = {k: arrays[k] for k in keys}
        want = [[e] * (e % 3) + [e] for e in range(a, b)]
        chk.count(1, key=f"{sizes}-{a}-{b}")
        chk.hist("baskets", len(sizes)); chk.hist("empty_baskets", sum(1 for s in sizes if s == 0))
        try:
            got = it.final_array(ba, a, b, list(offs), None, br, {}).tolist()
        except Exception as ex:
            got = f"{type(ex).__name__}: {ex}"
        if got != want:
            chk.failing_input("Bes3Interpretation.final_array on index-valued baskets", {"basket_sizes": sizes, "entry_start": a, "entry_stop": b, "delivery_order": keys},
                              got if isinstance(got, str) else [e[-1] for e in got], list(range(a, b)), "a non-empty entry interval returns exactly the corresponding slice of the full read, whatever the basket layout")
            return diffs
        mgot = None if ml == "NONE" else [int(x) for x in ml.split()[1:]]
        if mgot != list(range(a, b)):
            diffs.append({"sizes": sizes, "a": a, "b": b, "model": ml})
    return diffs


def digi_post(chk: core.Check):
    """post-processing after trimming: an interval without digis must have the same fields as the full read"""
    import awkward as ak
    it, br = make_interp("/Event:TDigiEvent/m_mucDigiCol")
    raw = ak.zip({"m_intId": ak.Array([[1, 2], [], [3]]), "m_x": ak.Array([[5, 6], [], [7]])})
    full = ak.zip({"TRawData": raw, "m_extra": ak.Array([[9, 9], [], [8]])}, depth_limit=2)
    for sizes in ([3], [1, 2], [2, 1], [1, 1, 1]):
        offs = np.concatenate([[0], np.cumsum(sizes)])
        ba = {i: full[offs[i]:offs[i + 1]] for i in range(len(sizes))}
        for a, b in itertools.combinations(range(4), 2):
            got = it.final_array(dict(ba), a, b, list(offs), None, br, {})
            chk.count(1, key=f"digi-{sizes}-{a}-{b}")
            want = ak.zip({"m_intId": raw.m_intId[a:b], "m_x": raw.m_x[a:b], "m_extra": full.m_extra[a:b]})
            if got.fields != ["m_intId", "m_x", "m_extra"] or got.tolist() != want.tolist():
                chk.failing_input("Bes3Interpretation.final_array on a digi collection", {"basket_sizes": sizes, "entry_start": a, "entry_stop": b, "digis_per_event": [2, 0, 1]},
                                  {"fields": got.fields, "values": got.tolist()}, {"fields": ["m_intId", "m_x", "m_extra"]}, "the same columns as the corresponding slice of the full read (post-processing applied whatever the interval contains)")
                return


def cgem_cluster_layouts(chk: core.Check, n_cases: int):
    """Bes3CgemClusterColFactory (streamer-less class, layout detected from the data) through the real factory chain on synthetic
    streams: every partition of the events into baskets - incl. baskets in which no event holds a cluster - must give the slice of
    the one-basket read (same fields, same values)."""
    import random
    import struct
    import awkward as ak
    import uproot_custom.cpp
    import pybes3.besio.root_io as rio
    from lib import rootstream as rs
    rng = random.Random(f"C02-cgem-{chk.seed}")
    fac = rio.Bes3CgemClusterColFactory(name="m_recCgemClusterCol")
    it, br = make_interp("/Event:TRecEvent/m_recCgemClusterCol")

    def enc_event(c, version):
        objs = []
        for _ in range(c):
            ints = [rng.getrandbits(31) for _ in range(5)]
            dbl = [struct.unpack(">Q", struct.pack(">d", rng.uniform(-50, 50)))[0] for _ in range(5 if version == 0 else 4)]
            tail = [rng.getrandbits(31) for _ in range(6)]
            body = rs.be(2, 1) + rs.enc_tobject(1, 0, 0x03000000) + b"".join(rs.be(4, v) for v in ints) + b"".join(rs.be(8, v) for v in dbl) + b"".join(rs.be(4, v) for v in tail)
            objs.append(rs.be(4, len(body) | rs.K_BYTE_COUNT_MASK) + body)
        return rs.enc_obj_hdr(rng.getrandbits(16), class_name=b"TObjArray") + rs.enc_tobjarray(objs, rng, class_name=b"TRecCgemCluster")

    def decode(entries):
        data = np.frombuffer(b"".join(entries), dtype=np.uint8)
        offs = np.concatenate([[0], np.cumsum([len(e) for e in entries])]).astype(np.uint32)
        return ak.Array(fac.make_awkward_content(uproot_custom.cpp.read_data(data, offs, fac.build_cpp_reader())))

    for case in range(n_cases):
        version = rng.choice([0, 1])
        n_ev = rng.choice([2, 3, 4, 6])
        counts = [rng.choice([0, 0, 1, 2, 9]) for _ in range(n_ev)]
        if sum(counts) == 0:
            counts[rng.randrange(n_ev)] = 2
        if case % 3 == 0:                                   # a run of events without clusters that can fill a basket of its own
            k = rng.randrange(n_ev); counts[k] = 0
        entries = [enc_event(c, version) for c in counts]
        full = decode(entries)
        cuts = sorted(rng.sample(range(1, n_ev), rng.randint(1, n_ev - 1)))
        bounds = [0, *cuts, n_ev]
        pieces = {i: decode(entries[bounds[i]:bounds[i + 1]]) for i in range(len(bounds) - 1)}
        empty_baskets = [i for i in pieces if sum(counts[bounds[i]:bounds[i + 1]]) == 0]
        a = rng.randrange(0, n_ev); b = rng.randrange(a + 1, n_ev + 1)
        ov = [i for i in pieces if bounds[i] < b and bounds[i + 1] > a]
        keys = list(range(min(ov), max(ov) + 1))
        rng.shuffle(keys)
        chk.count(1, key=f"cgem-layout-{version}-{counts}-{bounds}-{a}-{b}")
        chk.hist("cgem_cluster_layouts", f"v{version}-{'with' if any(k in empty_baskets for k in keys) else 'no'}-clusterless-basket")
        try:
            got = it.final_array({k: pieces[k] for k in keys}, a, b, bounds, None, br, {})
            ok = list(got.fields) == list(full.fields) and str(got.type).split(" * ", 1)[1] == str(full.type).split(" * ", 1)[1] and same_nested(got.tolist(), full[a:b].tolist())
            obs = {"fields": list(got.fields), "type": str(got.type)[:400]}
        except Exception as ex:
            ok, obs = False, f"{type(ex).__name__}: {ex}"
        if not ok:
            delivered_clusterless = [k for k in keys if k in empty_baskets]
            delivered_with = [k for k in keys if k not in empty_baskets]
            # the recorded finding: class version 0 (object size 96, with m_recPositionY), at least one delivered basket without any
            # cluster next to one with clusters - the clusterless basket cannot know the class version and omits the member
            fk = None
            if version == 0 and delivered_clusterless and isinstance(obs, dict) and "m_recPositionY" in str(full.type):
                # ... and the ONLY discrepancy is that member (missing from the clusterless part): all other members, counts and order agree
                def strip(x):
                    if isinstance(x, dict):
                        return {k: strip(v) for k, v in x.items() if k != "m_recPositionY"}
                    if isinstance(x, list):
                        return [strip(v) for v in x]
                    return x
                expect_fields = [f for f in full.fields if f != "m_recPositionY"]
                if same_nested(strip(got.tolist()), strip(full[a:b].tolist())) and [f for f in got.fields if f != "m_recPositionY"] == expect_fields:
                    fk = {"key": "cgem-cluster-version0-clusterless-basket"}
            chk.failing_input("Bes3CgemClusterColFactory baskets through final_array", {"class_version": version, "clusters_per_event": counts, "basket_bounds": bounds, "entry_start": a, "entry_stop": b, "delivery_order": keys},
                              obs, {"fields": list(full.fields), "type": str(full[a:b].type)[:400]}, "the result does not depend on how the events are distributed over baskets (slice of the one-basket read: same fields, same type, same values)", finding_key=fk)
            if fk is None:
                return


def cross_release_files(chk: core.Check, thorough: bool):
    """the same collection branch read from files written by different software releases (different class versions of the element) one
    after the other in ONE process, singly and through uproot.concatenate: each must equal that file's read in a fresh process"""
    import awkward as ak
    import uproot
    import pybes3  # noqa: F401
    import subprocess
    import json as _json
    pairs = [("test_full_mc_evt_1.rtraw", "test_cgem.rtraw", ["TMcEvent/m_mdcMcHitCol", "TDigiEvent/m_mdcDigiCol"]),
             ("test_full_mc_evt_1.dst", "test_cgem.dst", ["TDstEvent/m_mdcTrackCol"]),
             ("test_full_mc_evt_1.rec", "test_cgem.rec", ["TRecEvent/m_recMdcTrackCol"])]
    code = "import sys, json, uproot, pybes3, awkward as ak\nprint(json.dumps(ak.to_list(uproot.open(sys.argv[1])['Event'][sys.argv[2]].array()[:3])))"
    for fa, fb, branches in (pairs if thorough else pairs[:2]):
        pa, pb = core.REPO / "tests" / "data" / fa, core.REPO / "tests" / "data" / fb
        if not (pa.exists() and pb.exists()):
            continue
        for brn in branches:
            ref = {}
            for p in (pa, pb):
                r = subprocess.run([core.PY, "-c", code, str(p), brn], capture_output=True, text=True, timeout=600)
                if r.returncode != 0:
                    raise core.Infra("reference read failed: " + r.stderr[-800:])
                ref[p.name] = _json.loads(r.stdout.strip().splitlines()[-1])
            for order in ((pa, pb), (pb, pa, pb)):
                hist = []
                for p in order:
                    hist.append(p.name)
                    chk.count(1, key=f"cross-release-{brn}-{'>'.join(hist)}")
                    try:
                        got = ak.to_list(uproot.open(p)["Event"][brn].array()[:3])
                        ok = same_nested(_json.loads(_json.dumps(got)), ref[p.name])
                    except Exception as ex:
                        got, ok = f"{type(ex).__name__}: {str(ex)[:300]}", False
                    if not ok:
                        chk.failing_input("single-branch reads of the same collection from files of different releases, one process", {"branch": brn, "files_read_in_order": hist},
                                          got if isinstance(got, str) else "values differ from the fresh-process read", "the read of that file alone (fresh process)", "reading several files returns the individual reads; a subset of branches returns the same columns")
                        return
            try:
                cat = uproot.concatenate([{str(pa): "Event"}, {str(pb): "Event"}], filter_name=brn.split("/")[-1])
                col = cat[cat.fields[0]]
                n_a = len(uproot.open(pa)["Event"][brn].array())
                ok = same_nested(_json.loads(_json.dumps(ak.to_list(col[:3]))), ref[pa.name]) and same_nested(_json.loads(_json.dumps(ak.to_list(col[n_a:n_a + 3]))), ref[pb.name])
                got = "values differ"
            except Exception as ex:
                ok, got = False, f"{type(ex).__name__}: {str(ex)[:300]}"
            chk.count(1, key=f"cross-release-concatenate-{brn}")
            if not ok:
                chk.failing_input("uproot.concatenate of files of different releases (one collection branch)", {"branch": brn, "files": [pa.name, pb.name]}, got, "concatenation of the individual reads", "several files at once return the concatenation of the individual reads")
                return


def collection_branches(tree):
    import pybes3.besio.root_io as rio
    out = []
    for k in tree.keys(recursive=True):
        b = tree[k]
        if isinstance(b.interpretation, rio.Bes3Interpretation):
            out.append(k)
    return out


def real_bytes(chk: core.Check, thorough: bool):
    """(ii) re-partition the real basket payload and (iii) public API"""
    import awkward as ak
    import uproot
    import pybes3  # noqa: F401
    rng = np.random.default_rng(chk.seed + 22)
    lib = uproot.interpretation.library._libraries["ak"]
    n_br = 0
    for fn in FIXTURES if thorough else FIXTURES[:3]:
        p = core.REPO / "tests" / "data" / fn
        if not p.exists():
            continue
        n_api_full = 0
        n_br_file = 0
        with uproot.open(p) as f:
            tree = f["Event"]
            names = collection_branches(tree)
            if not thorough:
                names = [names[i] for i in sorted(rng.choice(len(names), size=min(6, len(names)), replace=False))]
            for name in names:
                br = tree[name]
                n = br.num_entries
                if br.num_baskets != 1 or n < 2:
                    continue
                full = br.array()
                interp = br.interpretation
                basket = br.basket(0)
                data, bo = np.asarray(basket.data), np.asarray(basket.byte_offsets)
                n_br += 1
                n_br_file += 1

                class _Basket:
                    """what uproot hands to basket_array for the i-th basket of the re-partitioned branch: the real basket with its own number"""
                    def __init__(self, num):
                        self.basket_num = num
                    def __getattr__(self, k):
                        return getattr(basket, k)

                def decode(lo, hi, num=0):
                    return interp.basket_array(data[bo[lo]:bo[hi]], bo[lo:hi + 1] - bo[lo], _Basket(num), br, {}, basket.member("fKeylen"), lib, {})
                # partitions of the n events into consecutive baskets
                if thorough:
                    # every partition x every interval for three branches per file (512 x 55 each), a seeded sample of 24 partitions for the others
                    # (all partitions of all ~30 branches of all fixtures is > 4 million final_array calls: > 2 h)
                    allp = [c for r in range(0, n) for c in itertools.combinations(range(1, n), r)][: 512]
                    parts = allp if n_br_file <= 3 else [allp[int(i)] for i in rng.choice(len(allp), size=min(24, len(allp)), replace=False)]
                else:
                    parts = [tuple(sorted(rng.choice(np.arange(1, n), size=int(rng.integers(1, min(5, n))), replace=False).tolist())) for _ in range(3)] + [tuple(range(1, n))]
                for cut in parts:
                    bounds = [0, *cut, n]
                    try:
                        pieces = {i: decode(bounds[i], bounds[i + 1], i) for i in range(len(bounds) - 1)}
                    except Exception as ex:
                        chk.failing_input("basket_array on a re-partitioned real basket", {"file": fn, "branch": name, "partition": bounds}, f"{type(ex).__name__}: {ex}", "decoded piece", "the result does not depend on how the events are distributed over baskets")
                        return
                    ivs = list(itertools.combinations(range(n + 1), 2)) if thorough else [tuple(sorted(rng.choice(n + 1, size=2, replace=False).tolist())) for _ in range(6)] + [(0, n), (n - 1, n)]
                    n_req = 0
                    # the same and overlapping intervals again (a second pass over the first requests): earlier requests must not change later ones
                    ivs = ivs + ivs[:3] + [(0, n)]
                    for a, b in ivs:
                        ov = [i for i in pieces if bounds[i] < b and bounds[i + 1] > a]
                        keys = list(range(min(ov), max(ov) + 1)) if rng.random() < 0.7 else list(pieces)
                        rng.shuffle(keys)
                        n_req += 1
                        try:
                            # as uproot does for every request on the same TBranch object: the needed baskets go through basket_array again (the first
                            # requests of each partition; then the decoded pieces are reused to keep the sweep affordable), then final_array
                            cur = {k: (decode(bounds[k], bounds[k + 1], k) if n_req <= 8 else pieces[k]) for k in keys}
                            got = interp.final_array(cur, int(a), int(b), bounds, lib, br, {})
                            ok = same_nested(got.tolist(), full[a:b].tolist()) and got.fields == full.fields
                        except Exception as ex:
                            got, ok = f"{type(ex).__name__}: {ex}", False
                        chk.count(1, key=f"{fn}-{name}-{bounds}-{a}-{b}")
                        if not ok:
                            chk.failing_input("re-partitioned real basket through basket_array + final_array", {"file": fn, "branch": name, "basket_bounds": bounds, "entry_start": int(a), "entry_stop": int(b), "delivery_order": keys},
                                              str(got)[:600] if isinstance(got, str) else {"n": len(got), "fields": got.fields}, {"n": b - a, "fields": full.fields}, "slice of the full read, independent of the basket layout")
                            return
                # public API
                all_pairs = [(int(x), int(y)) for x, y in itertools.combinations(range(n + 1), 2)]
                # thorough: every interval for three branches per file, 12 random intervals for each of the others (all intervals of all
                # branches of all fixtures took > 25 min)
                if thorough:
                    extra_pairs = all_pairs if n_api_full < 3 else [all_pairs[i] for i in rng.choice(len(all_pairs), size=min(12, len(all_pairs)), replace=False)]
                    n_api_full += 1
                else:
                    extra_pairs = []
                for a, b in ([(0, n), (1, n), (n - 1, n), (3, 4)] + extra_pairs):
                    if a >= b or b > n:
                        continue
                    got = br.array(entry_start=a, entry_stop=b)
                    chk.count(1, key=f"api-{fn}-{name}-{a}-{b}")
                    if not same_nested(got.tolist(), full[a:b].tolist()) or got.fields != full.fields:
                        chk.failing_input("TBranch.array(entry_start, entry_stop)", {"file": fn, "branch": name, "entry_start": a, "entry_stop": b}, {"n": len(got), "fields": got.fields}, {"n": b - a, "fields": full.fields}, "slice of the full read")
                        return
            # chunked iteration + branch subsets, per file
            names_all = collection_branches(tree)
            sub = [names_all[i] for i in sorted(rng.choice(len(names_all), size=min(3, len(names_all)), replace=False))]
            whole = tree.arrays(sub)
            for step in ([1, 2, 3, 4, 7, 10, 11] if thorough else [3, 10]):
                chunks = list(tree.iterate(sub, step_size=step))
                cat = ak.concatenate(chunks)
                chk.count(len(chunks), key=f"iterate-{fn}-{step}")
                if not same_nested(cat.tolist(), whole.tolist()):
                    chk.failing_input("TTree.iterate(step_size)", {"file": fn, "branches": sub, "step_size": step}, f"{len(cat)} entries", f"{len(whole)} entries", "reading in chunks of any size returns the concatenation of the individual reads")
                    return
            for nm in sub:
                chk.count(1, key=f"subset-{fn}-{nm}")
                one = tree[nm].array()
                col = whole[nm.split("/")[-1]] if nm.split("/")[-1] in whole.fields else whole[nm]
                if not same_nested(one.tolist(), col.tolist()):
                    chk.failing_input("reading a subset of branches", {"file": fn, "branch": nm}, "differs", "same column", "reading a subset of branches returns the same columns as reading all of them")
                    return
    # several files at once
    a, b = core.REPO / "tests/data/test_full_mc_evt_1.rtraw", core.REPO / "tests/data/test_full_mc_evt_2.rtraw"
    if a.exists() and b.exists():
        for brn in ["TMcEvent/m_mcParticleCol", "TDigiEvent/m_mdcDigiCol"]:
            cat = uproot.concatenate([{str(a): "Event"}, {str(b): "Event"}, {str(a): "Event"}], filter_name=brn.split("/")[-1])
            x = uproot.open(a)["Event"][brn].array(); y = uproot.open(b)["Event"][brn].array()
            want = ak.concatenate([x, y, x])
            fld = cat.fields[0]
            chk.count(3, key=f"concatenate-{brn}")
            if not same_nested(cat[fld].tolist(), want.tolist()):
                chk.failing_input("uproot.concatenate of several files", {"files": [a.name, b.name, a.name], "branch": brn}, f"{len(cat)} entries", f"{len(want)} entries", "several files at once return the concatenation of the individual reads")
            # the library's own multi-file entry point (deprecated alias of uproot.concatenate): same ordered list, a file named more than once
            import warnings
            with warnings.catch_warnings():
                warnings.simplefilter("ignore")
                try:
                    pc = pybes3.concatenate([{str(a): "Event"}, {str(b): "Event"}, {str(a): "Event"}, {str(a): "Event"}], filter_name=brn.split("/")[-1])
                    want4 = ak.concatenate([x, y, x, x])
                    okp = same_nested(pc[pc.fields[0]].tolist(), want4.tolist())
                    gotp = f"{len(pc)} entries"
                except Exception as ex:
                    okp, gotp = False, f"{type(ex).__name__}: {str(ex)[:200]}"
            chk.count(4, key=f"pybes3.concatenate-{brn}")
            if not okp:
                chk.failing_input("pybes3.concatenate of an ordered list of files (a file named more than once)", {"files": [a.name, b.name, a.name, a.name], "branch": brn}, gotp, f"{len(x) * 3 + len(y)} entries: the concatenation of the individual reads",
                                  "several files at once return the concatenation of the individual reads, for every ordered list of files")
    chk.coverage["fixture_branches_repartitioned"] = n_br


def main(chk: core.Check) -> int:
    thorough = chk.tier == "thorough"
    chk.coverage["rule"] = ("evaluations = (basket layout, interval, delivery order) cases through the real final_array / basket_array on index-valued and real fixture baskets, "
                            "plus public-API reads; the fixture part is exhaustive testing of a finite space in the thorough tier and labelled as such")
    chk.assumptions += ["uproot's own entry-range -> basket-selection code, decompression and ak.concatenate are outside the model (exercised through the public API on one-basket fixtures)",
                        "AsCustom.final_array (uproot-custom 2.2) is third-party code modelled from its source"]
    # C01Cgem: round trip of the CGEM cluster reader incl. the recorded finding as a theorem pair (cgem_keys_layout_independent_partial / cgem_keys_layout_dependent_witness)
    from translate import gen
    g = gen.gen_finalpy()
    if not g["ok"]:
        chk.obligation_broken("translator", "translate AsCustom.final_array (installed uproot-custom) into Gen/FinalPy.lean", g["error"])
    core.regen_rootpy(chk)          # Bes3Interpretation.final_array = post-processing of super().final_array (checked by the root_io.py translator)
    _entry = ["EntryTie"] if core.regen_entry(chk) else []
    chk.prove(modules=["C02", "C01Cgem", "FinalTie", "RootTie"] + _entry)
    try:
        diffs = model_vs_real(chk, 4000 if thorough else 500)
        chk.coverage["traces_validated_against_impl"] = chk.evals
        if diffs:
            chk.obligation_broken("correspondence", "Lean finalArray vs slice", str(diffs[:3]))
        ro = core.lean_run("Driver/FinalArray.lean", "RO 2 0 1 | 0 3\nRO | 1 1\nRO 0 0 | \n")
        if ro[0] != "offsets=0,2,2,3,3,6 events=0,1;;2;;3,4,5":
            chk.obligation_broken("correspondence", "Lean concatOffsets", ro[0])
    except core.DriverError as ex:
        chk.obligation_broken("correspondence", "FinalArray driver", str(ex))
    try:
        digi_post(chk)
        cgem_cluster_layouts(chk, 400 if thorough else 60)
        real_bytes(chk, thorough)
        if not chk.failing or all(chk.match_known(f) for f in chk.failing):
            cross_release_files(chk, thorough)
    except Exception as ex:
        import traceback
        chk.obligation_broken("correspondence", "fixture / API run", f"{type(ex).__name__}: {ex}\n{traceback.format_exc()[-1800:]}")
    chk.sample({"basket_sizes": [3, 0, 4], "entry_start": 2, "entry_stop": 5, "model": "OK 2 3 4"})
    return chk.finish(None)
