"""C15 — the raw-data parser never reads outside its buffer (DESIGN.md section 6/C15).

model  : Model/RawParser.lean - every memory access explicit (unchecked rawRead/rawSkip/rawReadN yield `oob`;
         `require` = the bounds check of the repaired source; erase ranges; uint32 wrap-around; fuelled loops)
proof  : Props/C15.lean (never oob, never out of fuel, ok consumes the buffer) + Props/RawTie.lean (constants and
         masks extracted from the C++ source are the model's)
tie    : per buffer, outcome class AND decoded arrays of the model <-> the working-tree sources compiled natively with
         AddressSanitizer + UBSan behind the pybind11 stand-in
oracle : a sanitizer report, crash or hang of the native build is by itself a failing input
"""
from __future__ import annotations

import random

import numpy as np

from checks import raw_common as rc
from lib import core, native, rawfile as rf

SPECIAL = [0, 1, 2, 3, 7, 9, 10, 17, 2**31 - 1, 2**31, 2**32 - 1, 2**32 - 2, rf.DATA_SEP, rf.FULL_EVENT, rf.SUB_DETECTOR, rf.ROS, rf.ROB, rf.ROD, 0x3000000, 0xA10000, 0xA30000]


def gen_buffers(rng: random.Random, n_streams: int, per_stream: int, n_random: int):
    bufs, kinds = [], []
    for _ in range(n_streams):
        blocks = rf.gen_blocks(rng, n_events=rng.choice([1, 1, 2, 3]))
        words = [x for i, b in enumerate(blocks) for x in rf.enc_block(b, i)]
        m = rng.choice([15, 63, 0, 1, 5, 48])
        bufs.append((words, m)); kinds.append("well-formed")
        L = len(words)
        # single-word replacement: positions biased towards size / count / marker fields (all small-valued or flag words)
        field_pos = [i for i, w in enumerate(words) if w < 4096 or (w & 0xFFFF0000) in (0x12340000,) or w in (rf.FULL_EVENT, rf.SUB_DETECTOR, rf.ROS, rf.ROB, rf.ROD)]
        for _k in range(per_stream):
            i = rng.choice(field_pos) if field_pos and rng.random() < 0.8 else rng.randrange(L)
            rem = L - i
            if rng.random() < 0.35:
                # near misses of the true value: windows such as "no room left for the 3-word trailer" are a few words wide
                v = max(words[i] + rng.choice([-12, -11, -10, -9, -8, -7, -6, -5, -4, -3, -2, -1, 1, 2, 3, 4, 5, 6, 7, 8]), 0) % 2**32
            else:
                v = rng.choice(SPECIAL + [max(rem - 1, 0), rem, rem + 1, max(rem - 2, 0), rem + 2, words[i] + 1, max(words[i] - 1, 0), (words[i] + 2**31) % 2**32])
            w = list(words); w[i] = v & 0xFFFFFFFF
            bufs.append((w, m)); kinds.append("one-word-replaced")
        # truncations: every point for short streams, sampled for long ones
        cuts = range(L) if L <= 120 else sorted(rng.sample(range(L), 100))
        for c in cuts:
            if rng.random() < (1.0 if L <= 120 else 0.6) * (per_stream / 40):
                bufs.append((words[:c], m)); kinds.append("truncated")
    for _ in range(n_random):
        k = rng.choice([0, 1, 2, 5, 17, 40, 200])
        style = rng.random()
        if style < 0.4:
            w = [rng.getrandbits(32) for _ in range(k)]
        elif style < 0.7:
            w = [rng.choice(SPECIAL) for _ in range(k)]
        else:
            w = [rf.FULL_EVENT, rng.choice(SPECIAL), rng.choice([17, 18, 0, 2**32 - 1]), 0x3000000, 0, rng.choice([0, 1, 2**32 - 1]), 10] + [rng.choice(SPECIAL) for _ in range(k)]
        bufs.append((w, rng.choice([15, 63])))
        kinds.append("random")
    return bufs, kinds


def main(chk: core.Check) -> int:
    thorough = chk.tier == "thorough"
    rng = random.Random(f"C15-{chk.seed}")
    chk.coverage["rule"] = ("evaluations = word buffers decoded by the ASan/UBSan native build of the working tree AND by the Lean model; distinct_nontrivial = "
                            "distinct buffers that are not plain well-formed streams (replaced word / truncated / random)")
    chk.assumptions += ["pybind11 stand-in (native/standin): array_t owns an exact-size heap copy of the buffer, so ASan sees every access outside it",
                        "the installed extension binary cannot be rebuilt in this sandbox (no pybind11) and is NOT the subject: the check compiles the working-tree sources",
                        "memory safety of pybind11/numpy glue and of std::vector/std::map themselves is outside the model"]
    ok_gen = rc.regen(chk, python_side=False)
    if ok_gen:
        chk.prove(modules=["C15", "RawTie", "RawCppTie"])
    n_streams, per_stream, n_random = (1500, 120, 20000) if thorough else (60, 50, 800)
    bufs, kinds = gen_buffers(rng, n_streams, per_stream, n_random)
    # corpus first: the buffers that exposed the original defect
    corpus = [([rf.DATA_SEP], 15), ([], 15), ([rf.FULL_EVENT, 5], 15), ([rf.DATA_SEP, 4, 0, 0, rf.FULL_EVENT, 2**32 - 1, 17, 0x3000000], 15)]
    bufs = corpus + bufs
    kinds = ["corpus"] * len(corpus) + kinds
    try:
        nat = native.run_raw_buffers(bufs, quiet=False, timeout=(240 if thorough else 40))
    except native.BuildError as ex:
        chk.obligation_broken("correspondence", "native ASan build of raw_io.cc", str(ex))
        return chk.finish(None)
    for k in set(kinds):
        chk.hist("buffer_kind", k, kinds.count(k))
    # oracle: sanitizer report / crash / hang
    for bi, ((w, m), r, kd) in enumerate(zip(bufs, nat, kinds)):
        chk.count(1, key=(None if kd == "well-formed" else hash((tuple(w), m))))
        chk.hist("native_outcome", r["class"])
        if r["class"] == "timeout":
            # the time limit covers the whole batch of buffers in one process: confirm the hang on this buffer alone before calling it one
            # (a loaded machine must not turn into a verdict)
            r2 = native.run_raw_buffers([(w, m)], quiet=False, timeout=120)[0]
            if r2["class"] != "timeout":
                chk.hist("native_outcome", "slow-batch-not-a-hang")
                r = r2
                nat[bi] = r2
        if r["class"] in ("oob", "timeout"):
            small = shrink(w, m)
            chk.failing_input("raw parser (native ASan/UBSan build of the working tree)", {"words": [hex(x) for x in small], "n_words": len(small), "sel_mask": m, "kind": kd},
                              r["class"] + ": " + r["detail"][:300], "arrays or an exception", "the decoder never reads memory outside the supplied buffer, never crashes, never loops forever")
            break
    # correspondence with the model
    if ok_gen:
        try:
            mod = rc.lean_parse(bufs)
            diffs = []
            for (w, m), r, ml, kd in zip(bufs, nat, mod, kinds):
                chk.hist("model_outcome", ml[0])
                if ml[0] == "ok" and r["class"] == "ok":
                    if not rc.same_columns(rc.canon_model(ml[1]), rc.canon_native(r["result"])):
                        diffs.append({"kind": kd, "words": [hex(x) for x in w][:80], "sel_mask": m, "model": "ok (different arrays)", "native": "ok"})
                elif not (ml[0] == "err" and r["class"] == "error"):
                    diffs.append({"kind": kd, "words": [hex(x) for x in w][:80], "sel_mask": m, "model": ml[0] + (":" + ml[1] if ml[0] == "err" else ""), "native": r["class"] + ":" + r["detail"][:80]})
                if len(diffs) >= 5:
                    break
            chk.coverage["traces_validated_against_impl"] = len(bufs)
            if diffs:
                chk.obligation_broken("correspondence", "Lean raw parser model vs native build (outcome class / arrays per buffer)", str(diffs[:3]))
        except core.DriverError as ex:
            chk.obligation_broken("correspondence", "Raw driver", str(ex))
    # decoder calls overlapping in time (one parser per call): no crash, each call returns its own buffer's arrays (shared with C04)
    if not chk.failing:
        from checks import c04
        c04.concurrent_decode(chk, rng, rounds=8)
    # how much of the parser the generated buffers reach (source-based coverage build of the same driver; without sanitizers a buffer that
    # crashes the parser ends that process, the measurement continues after it)
    if not chk.failing:
        try:
            chk.coverage["cpp_coverage_of_generated_buffers"] = native.raw_cpp_coverage(bufs)
        except Exception as ex:
            chk.coverage["cpp_coverage_of_generated_buffers"] = {"error": f"{type(ex).__name__}: {str(ex)[:200]}"}
    chk.sample({"kind": kinds[10], "n_words": len(bufs[10][0]), "head": [hex(x) for x in bufs[10][0][:12]]})
    chk.sample({"kind": kinds[-1], "words": [hex(x) for x in bufs[-1][0][:12]]})
    return chk.finish(None)


def shrink(words, m):
    """greedy truncation from the end while the native build still misbehaves"""
    w = list(words)
    for _ in range(12):
        if len(w) <= 1:
            break
        cand = w[: max(1, len(w) * 2 // 3)]
        r = native.run_raw_buffers([(cand, m)], timeout=60)[0]
        if r["class"] in ("oob", "timeout"):
            w = cand
        else:
            break
    return w
