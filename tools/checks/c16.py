"""C16 — packed symmetric error matrices are expanded to the right full matrices (DESIGN.md section 6/C16).

model  : Gen/SymIndex.lean (index expression translated from root_io.hh) + Model/SymMatrix.lean (constructor check,
         read loop, the factory's dimension formula)
proof  : Props/C16.lean
tie    : Lean driver <-> natively compiled working-tree Bes3SymMatrixArrayReader (ASan) <-> installed reader, on synthetic
         packed streams (every (flat, dim) pair, deliberately asymmetric-looking content, several objects);
         the Python factory (dimension, reshape, form, target list) on synthetic streamer infos
oracle : M[i][j] = M[j][i] = packed[max(max+1)/2 + min] evaluated directly; fixture members vs an independent decode
"""
from __future__ import annotations

import struct
import subprocess

import numpy as np

from lib import core, native
from translate import gen


def form_dims(form):
    """regular dimensions announced by a form, whether as nested RegularForm or as NumpyForm(inner_shape)"""
    import awkward
    dims = []
    while isinstance(form, awkward.forms.RegularForm):
        dims.append(int(form.size)); form = form.content
    return dims + [int(x) for x in getattr(form, "inner_shape", ())]


def tri(n):
    return n * (n + 1) // 2


def oracle_expand(flat, dim, packed):
    """the property's formula, written independently of the code"""
    m = []
    for i in range(dim):
        for j in range(dim):
            a, b = max(i, j), min(i, j)
            m.append(packed[a * (a + 1) // 2 + b])
    return m


def run_native(lines):
    exe = native.build("root_driver")
    p = subprocess.run([str(exe)], input="\n".join(lines) + "\n", capture_output=True, text=True, timeout=600,
                       env=dict(__import__("os").environ, ASAN_OPTIONS="detect_leaks=0"))
    out = p.stdout.splitlines()
    if len(out) != len(lines):
        # a sanitizer abort: the line after the last answered one is the culprit
        return out, p.stderr[-1500:]
    return out, None


def cases(rng, thorough):
    cs = []
    maxflat, maxdim = (66, 12) if thorough else (36, 9)
    for flat in range(1, maxflat + 1):
        for dim in range(0, maxdim + 1):
            nobj = int(rng.choice([1, 1, 2, 3]))
            vals = rng.permutation(flat * nobj) + 1000 * int(rng.integers(1, 9))       # distinct values: any index slip shows
            cs.append((flat, dim, nobj, [int(v) for v in vals]))
    for n in range(1, 13):
        cs.append((tri(n), n, 2, [int(v) for v in rng.permutation(2 * tri(n))]))
    # content patterns (the map must not depend on what the values look like): all zero, zero diagonal with non-zero off-diagonals, a single
    # non-zero entry at every packed position, a "degenerate" object between ordinary ones
    for n in range(1, 9 if thorough else 7):
        t = tri(n)
        diag = {a * (a + 1) // 2 + a for a in range(n)}
        zero_diag = [0 if k in diag else int(rng.integers(1, 900)) for k in range(t)]
        ordinary = [int(v) + 1 for v in rng.permutation(t)]
        cs.append((t, n, 3, ordinary + zero_diag + [int(v) + 2000 for v in rng.permutation(t)]))
        cs.append((t, n, 2, [0] * t + ordinary))
        cs.append((t, n, 1, zero_diag))
        for k in range(t):
            cs.append((t, n, 1, [7 if j == k else 0 for j in range(t)]))
    # large dimensions (packed length beyond 8-bit / 16-bit index ranges: 23 -> 276, 363 -> 66066 only in the thorough tier)
    for n in list(range(13, 31)) + [32, 40, 45, 64] + ([100, 363] if thorough else []):
        cs.append((tri(n), n, 2, [int(v) for v in rng.permutation(2 * tri(n))]))
        cs.append((tri(n), n + 1, 1, [int(v) for v in rng.permutation(tri(n))]))
        cs.append((tri(n) - 1, n, 1, [int(v) for v in rng.permutation(tri(n) - 1)]))
    return cs


def factory_checks(chk: core.Check):
    """Python side: dimension from the streamer info, reshape, form, C++ reader construction, target list"""
    import awkward
    import uproot_custom
    import pybes3.besio.root_io as rio
    F = rio.Bes3SymMatrixArrayFactory
    path = sorted(F.target_items)[0]
    dims = []
    for n in list(range(1, 40)) + [100, 1000, 5000]:
        flat = tri(n)
        for info in ({"fName": "m_err", "fArrayDim": 1, "fMaxIndex": np.array([flat, 0, 0, 0, 0])},
                     {"fName": "m_err", "fArrayDim": 2, "fMaxIndex": np.array([1, flat, 0, 0, 0])}):
            if n > 40 and info["fArrayDim"] == 2:
                continue
            f = F.build_factory("double", info, {}, path)
            chk.count(1, key=f"factory-n{n}")
            if f is None or f.full_dim != n or f.flat_size != flat:
                chk.failing_input("Bes3SymMatrixArrayFactory.build_factory dimension", {"packed_length": flat, "fArrayDim": info["fArrayDim"]},
                                  None if f is None else [int(f.flat_size), int(f.full_dim)], [flat, n], "n is determined by the packed length n(n+1)/2")
                return
            dims.append(n)
            if n <= 12:
                raw = np.arange(3 * n * n, dtype=np.float64)
                c = f.make_awkward_content(raw.copy())
                got = np.asarray(awkward.Array(c))
                form = f.make_awkward_form()
                if got.shape != (3, n, n) or not np.array_equal(got.reshape(-1), raw) or form_dims(form) != [n, n]:
                    chk.failing_input("Bes3SymMatrixArrayFactory content/form", {"n": n}, [list(got.shape), form_dims(form)], [[3, n, n], [n, n]], "one n x n block per object in stream order")
                    return
    # the same member offered twice with different packed lengths (state must not leak between calls)
    a = F.build_factory("double", {"fName": "m_err", "fArrayDim": 1, "fMaxIndex": np.array([15, 0, 0, 0, 0])}, {}, path)
    b = F.build_factory("double", {"fName": "m_err", "fArrayDim": 1, "fMaxIndex": np.array([36, 0, 0, 0, 0])}, {}, path)
    c = F.build_factory("double", {"fName": "m_err", "fArrayDim": 1, "fMaxIndex": np.array([6, 0, 0, 0, 0])}, {}, path)
    got = [(int(x.flat_size), int(x.full_dim)) for x in (a, b, c)]
    chk.count(3, key="factory-history")
    if got != [(15, 5), (36, 8), (6, 3)]:
        chk.failing_input("Bes3SymMatrixArrayFactory.build_factory called for the same member with packed lengths 15, 36, 6", {"item_path": path, "packed_lengths": [15, 36, 6]},
                          got, [(15, 5), (36, 8), (6, 3)], "n is determined by the packed length of THIS member, for every history of calls")
    # every target path lies under a registered collection branch (or is the known top-level member)
    for t in sorted(F.target_items):
        base = t.split(".")[0]
        if base not in rio.bes3_branch2types and not t.startswith("/Event:TEvtRecObject/m_evtRecPrimaryVertex"):
            chk.failing_input("target_items path", {"path": t}, "not under a registered branch", "registered", "every matrix member listed for expansion belongs to a registered collection")


def installed_reader(chk, cs):
    """the installed extension's reader on the same synthetic streams (only meaningful when root_io.hh is unchanged)"""
    import pybes3.besio.besio_cpp as bcpp
    import uproot_custom.cpp
    diffs = []
    for flat, dim, nobj, vals in cs[::7]:
        data = np.frombuffer(b"".join(struct.pack(">d", float(v)) for v in vals), dtype=np.uint8)
        try:
            r = bcpp.Bes3SymMatrixArrayReader("m", flat, dim)
        except RuntimeError:
            if tri(dim) <= flat:
                diffs.append((flat, dim, "installed reader rejected an admissible pair"))
            continue
        if tri(dim) > flat:
            diffs.append((flat, dim, "installed reader accepted a too-large dimension"))
            continue
        offs = np.array([0, len(data)], dtype=np.uint32)

        class Multi:  # read nobj objects in one entry through the group reader
            pass
        grp = uproot_custom.cpp.GroupReader("g", [r] * 1)
        try:
            out = np.asarray(uproot_custom.cpp.read_data(data, np.array([i * flat * 8 for i in range(nobj + 1)], dtype=np.uint32), r))
        except Exception as ex:
            diffs.append((flat, dim, f"installed reader raised {ex}"))
            continue
        want = [float(x) for k in range(nobj) for x in oracle_expand(flat, dim, vals[k * flat:(k + 1) * flat])]
        if list(out) != want:
            diffs.append((flat, dim, "installed reader output differs from the formula"))
        chk.count(1, key="installed")
    return diffs


def fixtures(chk: core.Check):
    """every listed matrix member present in the dst/rec fixtures, entry by entry, vs the packed values obtained by reading
    the same branch with the matrix factory unregistered"""
    import awkward as ak
    import uproot
    import uproot_custom
    import pybes3.besio.root_io as rio
    F = rio.Bes3SymMatrixArrayFactory
    files = ["test_full_mc_evt_1.dst", "test_full_mc_evt_1.rec", "test_cgem.dst", "test_cgem.rec"]
    n_members = 0
    for fn in files:
        p = core.REPO / "tests" / "data" / fn
        if not p.exists():
            continue
        branches = sorted({t.split(".")[0] for t in F.target_items if t.count(".") == 2})
        for br in branches:
            members = [t.split(".")[2] for t in F.target_items if t.startswith(br + ".")]
            key = br.replace("/Event:", "")
            with uproot.open(p) as f:
                if key not in f["Event"]:
                    continue
                full = f["Event"][key].array()
            uproot_custom.registered_factories.discard(F)
            try:
                with uproot.open(p) as f:
                    packed = f["Event"][key].array()
            finally:
                uproot_custom.registered_factories.add(F)
            for m in members:
                if m not in full.fields:
                    continue
                M = ak.to_numpy(ak.flatten(full[m], axis=1))
                Pk = ak.to_numpy(ak.flatten(packed[m], axis=1))
                if len(M) == 0:
                    continue
                Pk = Pk.reshape(len(Pk), -1)
                n = M.shape[1]
                n_members += 1
                chk.count(M.size, key=f"fixture-{fn}-{br}-{m}")
                if Pk.shape[1] != tri(n):
                    chk.failing_input("fixture matrix dimension", {"file": fn, "branch": key, "member": m}, [int(n), int(Pk.shape[1])], "n(n+1)/2 = packed length", "n determined by the packed length")
                    continue
                exp = np.stack([np.array(oracle_expand(Pk.shape[1], n, row)) for row in Pk]).reshape(len(Pk), n, n)
                if not np.array_equal(M, exp):
                    k = int(np.nonzero((M != exp).reshape(len(M), -1).any(axis=1))[0][0])
                    chk.failing_input("fixture matrix member vs packed values", {"file": fn, "branch": key, "member": m, "object": k, "packed": Pk[k].tolist()}, M[k].tolist(), exp[k].tolist(),
                                      "M[i][j] = M[j][i] = packed[max(max+1)/2+min]")
    chk.coverage["fixture_matrix_members_compared"] = n_members


def main(chk: core.Check) -> int:
    thorough = chk.tier == "thorough"
    rng = np.random.default_rng(chk.seed + 16)
    chk.coverage["rule"] = "evaluations = (packed length, dimension, content) streams through model/native/installed readers + fixture matrix entries; distinct = distinct (flat, dim) pairs and fixture members"
    chk.assumptions += ["valid for dimensions <= 46340 (C++ int products do not overflow); beyond that the C++ behaviour is undefined and unmodelled",
                        "np.sqrt of a perfect square below 2^53 is exact (IEEE), so the factory's float formula equals the exact integer formula of the model",
                        "pybind11 stand-in native/standin (the installed extension cannot be rebuilt: no pybind11 in the sandbox)"]
    g = gen.gen_sym_index()
    cs = cases(rng, thorough)
    if not g["ok"]:
        chk.obligation_broken("translator", "translate get_symmetric_matrix_index from root_io.hh", g["error"])
    else:
        core.regen_rootcpp(chk)
        chk.prove(modules=["C16", "RootCppTie"])
        lines = [f"SYM {f} {d} {n} " + " ".join(map(str, v)) for f, d, n, v in cs]
        try:
            mout = core.lean_run("Driver/Sym.lean", "\n".join(lines) + "\n")
            mdim = core.lean_run("Driver/Sym.lean", "\n".join(f"DIM {f}" for f in range(0, 400)) + "\n")
        except core.DriverError as ex:
            chk.obligation_broken("correspondence", "Sym driver", str(ex)); mout = None
    # native working-tree reader, judged by the formula (oracle) and compared with the model
    try:
        nlines = [f"SYM {f} {d} {n} " + "".join(struct.pack(">d", float(x)).hex() for x in v) for f, d, n, v in cs]
        nout, crash = run_native(nlines)
    except native.BuildError as ex:
        chk.obligation_broken("correspondence", "native build of root_io.hh", str(ex)); nout, crash = [], None
    if crash is not None:
        k = len(nout)
        f, d, n, v = cs[k]
        chk.failing_input("Bes3SymMatrixArrayReader (ASan build of the working tree)", {"flat_size": f, "full_dim": d, "objects": n}, "sanitizer abort: " + crash[-400:], "reject or expand", "a dimension too large for the packed length is rejected rather than read out of range")
    diffs = []
    for k, ((f, d, n, v), ln) in enumerate(zip(cs, nout)):
        chk.count(1, key=f"{f}x{d}")
        if tri(d) > f:
            want = None
        else:
            want = [x for o in range(n) for x in oracle_expand(f, d, v[o * f:(o + 1) * f])]
        if ln.startswith("ERROR"):
            got = None
        else:
            body = ln.split("m=")[1] if "m=" in ln else ""
            got = [int(round(float(np.uint64(int(x)).view(np.float64)))) for x in body.split(",") if x]
        if got != want:
            chk.failing_input("Bes3SymMatrixArrayReader (native build of the working tree)", {"flat_size": f, "full_dim": d, "objects": n, "packed": v[:f]},
                              "rejected" if got is None else got[: d * d], "rejected" if want is None else want[: d * d], "M[i][j] = M[j][i] = packed[max(max+1)/2+min]; too-large dimension rejected")
            break
        if g["ok"] and mout is not None:
            ml = mout[k]
            mgot = None if ml == "REJECT" else ("OOB" if ml == "OOB" else [int(x) for x in ml.split()[1:]])
            if mgot != got:
                diffs.append({"flat": f, "dim": d, "model": ml[:80], "native": ln[:80]})
    if g["ok"] and mout is not None:
        # the factory's float formula vs the model's exact formula
        for f in range(0, 400):
            py = int((np.sqrt(1 + 8 * f) - 1) / 2)
            if int(mdim[f]) != py:
                diffs.append({"fullDim": f, "model": mdim[f], "python_formula": py})
        if diffs:
            chk.obligation_broken("correspondence", "Lean SymMatrix model vs native reader / factory formula", str(diffs[:4]))
    chk.coverage["traces_validated_against_impl"] = len(nout)
    for c in cs[40:42]:
        chk.sample({"flat_size": c[0], "full_dim": c[1], "objects": c[2], "packed_head": c[3][:6]})
    try:
        factory_checks(chk)
        if not core.run_cmd(["git", "-C", str(core.REPO), "diff", "--quiet", "HEAD", "--", "src/pybes3/besio/cpp/root_io.hh"])[0]:
            d2 = installed_reader(chk, cs)
            if d2:
                chk.obligation_broken("correspondence", "installed Bes3SymMatrixArrayReader vs formula", str(d2[:3]))
        fixtures(chk)
    except Exception as ex:
        import traceback
        chk.obligation_broken("correspondence", "python-side factory / fixture checks", f"{type(ex).__name__}: {ex}\n{traceback.format_exc()[-1200:]}")
    return chk.finish(None)
