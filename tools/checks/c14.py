"""C14 — detector-ID and geometry functions are independent of input representation (DESIGN.md section 6/C14).

model  : Model/Nested.lean (element-wise map over nested arrays, flatten) ; the kernels themselves are the generated
         64-bit models of C05/C08
proof  : Props/C14.lean (structure preserved, values of the leaves; flat option; record = tuple of field kernels)
tie    : every public function of pybes3.detectors x {Python int, NumPy scalar and array of each integer dtype able to hold
         the values, 0-d / n-d arrays, awkward flat / jagged / regular / depth-3 / empty lists / sliced / indexed / masked views,
         record field} x option combinations; reference = the function applied leaf by leaf to Python ints
level  : partial - numba's per-dtype dispatch and awkward's ufunc protocol are most of what this property is about and are
         outside the model: they are explored (structured, per dtype), not proved
"""
from __future__ import annotations

import itertools

import numpy as np

from lib import core

INT_DTYPES = ["uint8", "int8", "uint16", "int16", "uint32", "int32", "uint64", "int64"]


def fits(vals, dt):
    info = np.iinfo(dt)
    return all(info.min <= v <= info.max for col in vals for v in col)


def catalogue():
    """(name, callable, argument columns of valid inputs)"""
    import pybes3.detectors as det
    import pybes3.detectors.digi_id as d
    rng = np.random.default_rng(14)
    w = det.get_mdc_wire_position()
    e_part, e_theta, e_phi = (np.asarray(f(np.arange(6240))) for f in (det.emc_gid_to_part, det.emc_gid_to_theta, det.emc_gid_to_phi))
    pick_m = np.unique(np.concatenate([rng.integers(0, 6796, 20), [0, 6795, 6188, 6476, 6507]]))
    pick_e = np.unique(np.concatenate([rng.integers(0, 6240, 20), [0, 6239, 479, 480, 5759, 5760]]))
    mdc_ids = [int(d.get_mdc_digi_id(int(w["wire"][g]), int(w["layer"][g]), int(w["is_stereo"][g]))) for g in pick_m]
    emc_ids = [int(d.get_emc_digi_id(int(e_part[g]), int(e_theta[g]), int(e_phi[g]))) for g in pick_e]
    tof_ids = [int(d.get_tof_digi_id(p, l, f, e)) for p, l, f, e in [(0, 0, 5, 0), (1, 1, 87, 1), (2, 0, 47, 1), (3, 35, 11, 0), (4, 17, 3, 1), (1, 0, 0, 0)]]
    muc_ids = [int(d.get_muc_digi_id(p, s, l, c)) for p, s, l, c in [(0, 3, 7, 48), (1, 7, 8, 111), (2, 0, 0, 0), (1, 2, 5, 96)]]
    cgem_ids = [int(d.get_cgem_digi_id(l, s, st, x)) for l, s, st, x in [(0, 0, 0, 1), (2, 1, 1100, 0), (1, 1, 511, 1)]]
    words = mdc_ids[:6] + tof_ids + emc_ids[:6] + muc_ids + cgem_ids
    cat = []
    for n in ["check_mdc_id", "check_tof_id", "check_emc_id", "check_muc_id", "check_cgem_id", "mdc_id_to_wire", "mdc_id_to_layer", "mdc_id_to_is_stereo",
              "tof_id_to_part", "tof_id_to_end", "tof_id_to_layer_or_module", "tof_id_to_phi_or_strip", "emc_id_to_module", "emc_id_to_theta", "emc_id_to_phi",
              "muc_id_to_part", "muc_id_to_segment", "muc_id_to_layer", "muc_id_to_channel", "muc_id_to_gap", "muc_id_to_strip",
              "cgem_id_to_layer", "cgem_id_to_sheet", "cgem_id_to_strip", "cgem_id_to_is_x_strip"]:
        cat.append(("digi_id." + n, getattr(d, n), [words]))
    cat.append(("get_mdc_digi_id", det.get_mdc_digi_id, [[int(w["wire"][g]) for g in pick_m], [int(w["layer"][g]) for g in pick_m], [int(w["is_stereo"][g]) for g in pick_m]]))
    cat.append(("get_emc_digi_id", det.get_emc_digi_id, [[int(e_part[g]) for g in pick_e], [int(e_theta[g]) for g in pick_e], [int(e_phi[g]) for g in pick_e]]))
    cat.append(("get_tof_digi_id", det.get_tof_digi_id, [[0, 1, 2, 3, 4, 1], [0, 1, 0, 35, 17, 0], [5, 87, 47, 11, 3, 0], [0, 1, 1, 0, 1, 0]]))
    cat.append(("get_muc_digi_id", det.get_muc_digi_id, [[0, 1, 2, 1], [3, 7, 0, 2], [7, 8, 0, 5], [48, 111, 0, 96]]))
    cat.append(("get_cgem_digi_id", det.get_cgem_digi_id, [[0, 2, 1], [0, 1, 1], [0, 1100, 511], [1, 0, 1]]))
    cat.append(("get_mdc_gid", det.get_mdc_gid, [[int(w["layer"][g]) for g in pick_m], [int(w["wire"][g]) for g in pick_m]]))
    cat.append(("get_emc_gid", det.get_emc_gid, [[int(e_part[g]) for g in pick_e], [int(e_theta[g]) for g in pick_e], [int(e_phi[g]) for g in pick_e]]))
    for n in ["mdc_gid_to_superlayer", "mdc_gid_to_layer", "mdc_gid_to_wire", "mdc_gid_to_stereo", "mdc_gid_to_is_stereo", "mdc_gid_to_west_x", "mdc_gid_to_west_y",
              "mdc_gid_to_west_z", "mdc_gid_to_east_x", "mdc_gid_to_east_y", "mdc_gid_to_east_z"]:
        cat.append((n, getattr(det, n), [[int(g) for g in pick_m]]))
    for n in ["emc_gid_to_part", "emc_gid_to_theta", "emc_gid_to_phi", "emc_gid_to_center_x", "emc_gid_to_center_y", "emc_gid_to_center_z",
              "emc_gid_to_front_center_x", "emc_gid_to_front_center_y", "emc_gid_to_front_center_z"]:
        cat.append((n, getattr(det, n), [[int(g) for g in pick_e]]))
    for n in ["emc_gid_to_point_x", "emc_gid_to_point_y", "emc_gid_to_point_z"]:
        cat.append((n, getattr(det, n), [[int(g) for g in pick_e], [int(g) % 8 for g in pick_e]]))
    cat.append(("mdc_layer_to_superlayer", det.mdc_layer_to_superlayer, [list(range(0, 43, 3)) + [42]]))
    cat.append(("mdc_layer_to_is_stereo", det.mdc_layer_to_is_stereo, [list(range(0, 43, 3)) + [42]]))
    return cat, dict(mdc=mdc_ids, emc=emc_ids, tof=tof_ids, muc=muc_ids, cgem=cgem_ids, mdc_gid=[int(g) for g in pick_m], emc_gid=[int(g) for g in pick_e])


def same(a, b):
    a, b = np.asarray(a), np.asarray(b)
    if a.shape != b.shape:
        return False
    if a.dtype.kind == "f" or b.dtype.kind == "f":
        return bool(np.array_equal(a.astype(np.float64), b.astype(np.float64)))
    return bool(np.array_equal(a.astype(np.int64), b.astype(np.int64)))


def layouts(cols, dt, rng):
    """awkward layouts holding the same argument tuples; yields (label, arrays, leaf_order, structure_fn)"""
    import awkward as ak
    n = len(cols[0])
    base = [np.asarray(c).astype(dt) for c in cols]
    cuts = sorted(rng.integers(0, n + 1, 3).tolist())
    counts = np.diff([0] + cuts + [n]).tolist()
    yield "ak-flat", [ak.Array(b) for b in base], list(range(n))
    yield "ak-jagged(with empty lists)", [ak.unflatten(ak.Array(b), counts) for b in base], list(range(n))
    if n % 2 == 0 and n >= 2:
        yield "ak-regular", [ak.to_regular(ak.unflatten(ak.Array(b), 2)) for b in base], list(range(n))
    yield "ak-depth3", [ak.unflatten(ak.unflatten(ak.Array(b), counts), [1, 0, len(counts) - 1] if len(counts) >= 1 else [0]) for b in base], list(range(n))
    yield "ak-sliced[::2]", [ak.Array(b)[::2] for b in base], list(range(0, n, 2))
    yield "ak-sliced-jagged[1:]", [ak.unflatten(ak.Array(b), counts)[1:] for b in base], list(range(counts[0], n))
    idx = rng.permutation(n)
    yield "ak-indexed", [ak.Array(b)[idx] for b in base], idx.tolist()
    yield "ak-record-field", [ak.zip({"x": ak.unflatten(ak.Array(b), counts)}).x for b in base], list(range(n))


def run_functions(chk: core.Check, thorough: bool):
    import awkward as ak
    rng = np.random.default_rng(chk.seed + 14)
    cat, ids = catalogue()
    unsupported = {}
    for name, fn, cols in cat:
        n = len(cols[0])
        # reference: leaf by leaf with Python ints
        ref = [fn(*[int(c[i]) for c in cols]) for i in range(n)]
        ref_arr = np.asarray(ref)

        def bad(what, rep, got, want, extra=None):
            chk.failing_input(f"{name} called with {rep}", {"function": name, "representation": rep, "arguments": [list(map(int, c)) for c in cols], **(extra or {})},
                              got, want, "same values whatever the input representation; array structure preserved")
        dts = [dt for dt in INT_DTYPES if fits(cols, dt)]
        if not thorough:
            dts = [dt for dt in dts if dt in ("uint8", "int16", "uint32", "int64", "uint64", "int32")][:4] + (["uint64"] if "uint64" in dts else [])
        for dt in dict.fromkeys(dts):
            arrs = [np.asarray(c).astype(dt) for c in cols]
            try:
                out = np.asarray(fn(*arrs))
            except Exception as ex:
                unsupported[f"{name}:{dt}"] = f"{type(ex).__name__}"
                if dt in ("uint32", "int64", "int32"):
                    bad("numpy array", dt, f"{type(ex).__name__}: {str(ex)[:200]}", "values", None); return
                continue
            chk.count(n, key=f"{name}-np-{dt}")
            chk.hist("dtype", dt, n)
            if not same(out, ref_arr):
                i = int(np.nonzero(out.astype(np.float64) != ref_arr.astype(np.float64))[0][0]) if out.shape == ref_arr.shape else 0
                bad("numpy array", dt, out.tolist()[i] if out.shape == ref_arr.shape else str(out.shape), ref_arr.tolist()[i], {"element": i}); return
            # numpy scalar, 0-d, 2-d
            s = fn(*[a[0] for a in arrs])
            z = fn(*[np.asarray(a[0]) for a in arrs])
            if not (same(s, ref_arr[0]) and same(z, ref_arr[0])):
                bad("numpy scalar / 0-d array", dt, [np.asarray(s).tolist(), np.asarray(z).tolist()], ref_arr[0].tolist()); return
            if n % 2 == 0:
                o2 = np.asarray(fn(*[a.reshape(2, -1) for a in arrs]))
                if o2.shape != (2, n // 2) or not same(o2.ravel(), ref_arr):
                    bad("2-d numpy array", dt, str(o2.shape), str((2, n // 2))); return
            # other memory representations of the same integers: non-native byte order, Fortran-ordered / transposed 2-d arrays; the same array
            # object passed twice (the call must not modify its input)
            if dt in ("uint32", "int64", "uint16", "int32") and fits(cols, dt):
                reps = {}
                be = np.dtype(dt).newbyteorder(">")
                reps["big-endian array"] = [np.asarray(c).astype(be) for c in cols]
                if n % 2 == 0:
                    reps["Fortran-ordered 2-d array"] = [np.asfortranarray(a.reshape(2, -1)) for a in arrs]
                    reps["transposed 2-d array"] = [a.reshape(-1, 2).T for a in arrs]
                for rlabel, ra in reps.items():
                    keep = [np.array(x, copy=True) for x in ra]
                    try:
                        o1 = np.asarray(fn(*ra)); o2 = np.asarray(fn(*ra))
                    except Exception as ex:
                        unsupported[f"{name}:{dt}:{rlabel}"] = f"{type(ex).__name__}"
                        continue
                    chk.count(n, key=f"{name}-{rlabel}-{dt}")
                    chk.hist("layout", rlabel)
                    want = ref_arr if rlabel == "big-endian array" else (ref_arr.reshape(2, -1) if "Fortran" in rlabel else ref_arr.reshape(-1, 2).T)
                    if not (same(o1, want) and same(o2, want)):
                        bad(rlabel + (" (second call on the same object)" if same(o1, want) else ""), dt, np.asarray(o1 if not same(o1, want) else o2).ravel().tolist()[:12], np.asarray(want).ravel().tolist()[:12]); return
                    if any(not np.array_equal(np.asarray(x).astype(np.int64), k.astype(np.int64)) for x, k in zip(ra, keep)):
                        bad(rlabel + ": input array after the call", dt, [np.asarray(x).ravel().tolist()[:6] for x in ra], [k.ravel().tolist()[:6] for k in keep]); return
            # multi-argument functions with mixed representations: one argument a Python int (broadcast), the others arrays of this dtype
            if len(cols) >= 2 and dt in ("uint8", "uint16", "int64", "uint32"):
                for j in range(len(cols)):
                    big = int(np.argmax(cols[j]))                     # the largest value of that column as the scalar
                    args = [int(cols[j][big]) if k == j else arrs[k] for k in range(len(cols))]
                    want_m = np.asarray([fn(*[int(cols[k][big]) if k == j else int(cols[k][i]) for k in range(len(cols))]) for i in range(n)])
                    try:
                        om = np.asarray(fn(*args))
                    except Exception as ex:
                        unsupported[f"{name}:{dt}:python-int-arg{j}"] = f"{type(ex).__name__}: {str(ex)[:60]}"
                        continue
                    chk.count(n, key=f"{name}-mixed-{dt}-{j}")
                    chk.hist("layout", "python int + arrays")
                    if not same(om, want_m):
                        i = int(np.nonzero(om.astype(np.float64) != want_m.astype(np.float64))[0][0]) if om.shape == want_m.shape else 0
                        bad(f"a Python int for argument {j} and {dt} arrays for the others", dt, om.tolist()[i] if om.shape == want_m.shape else str(om.shape), want_m.tolist()[i], {"python_int_argument": int(cols[j][big]), "element": i}); return
            # containers with zero elements (after a cut removed every hit): empty result of the same structure, no exception
            empties = [("empty numpy array", lambda a: a[:0], lambda o: np.asarray(o).shape == (0,)),
                       ("empty 2-d numpy array", lambda a: a[:0].reshape(0, 3), lambda o: np.asarray(o).shape == (0, 3)),
                       ("empty awkward array", lambda a: ak.Array(a[:0]), lambda o: len(o) == 0),
                       ("awkward array of empty lists", lambda a: ak.unflatten(ak.Array(a[:0]), [0, 0, 0]), lambda o: ak.to_list(o) == [[], [], []])]
            for label, mk, okf in empties:
                try:
                    o = fn(*[mk(a) for a in arrs])
                    good = bool(okf(o))
                    got = str(getattr(o, "type", np.asarray(o).shape))
                except Exception as ex:
                    good, got = False, f"{type(ex).__name__}: {str(ex)[:200]}"
                chk.count(1, key=f"{name}-{label}")
                chk.hist("layout", label)
                if not good:
                    bad(label, dt, got, "an empty result with the input's structure"); return
            # awkward layouts (a subset of dtypes in the quick tier)
            if thorough or dt in ("uint32", "int64", "uint8", "uint16"):
                for label, aks, order in layouts(cols, dt, rng):
                    try:
                        o = fn(*aks)
                    except Exception as ex:
                        bad(label, dt, f"{type(ex).__name__}: {str(ex)[:200]}", "values in the input's structure"); return
                    chk.count(len(order), key=f"{name}-{label}")
                    chk.hist("layout", label)
                    flat = ak.to_numpy(ak.flatten(o, axis=None)) if isinstance(o, ak.Array) else np.asarray(o).ravel()
                    if not same(flat, ref_arr[order]):
                        bad(label, dt, flat.tolist()[:12], ref_arr[order].tolist()[:12]); return
                    if isinstance(o, ak.Array) and o.ndim > 1 and ak.to_list(ak.num(o, axis=-1)) != ak.to_list(ak.num(aks[0], axis=-1)):
                        bad(label + " (structure)", dt, str(o.type), str(aks[0].type)); return
                # masked values: the valid entries keep their value, missing stay missing
                m = np.arange(n) % 3 == 1
                try:
                    aks = [ak.mask(ak.Array(np.asarray(c).astype(dt)), ~m) for c in cols]
                    o = fn(*aks)
                    got = ak.to_list(o)
                    want = [None if m[i] else ref_arr[i].tolist() for i in range(n)]
                    chk.count(n, key=f"{name}-masked")
                    chk.hist("layout", "ak-masked")
                    if [None if g is None else float(g) for g in got] != [None if x is None else float(x) for x in want]:
                        bad("awkward array with missing values", dt, got[:12], want[:12]); return
                except Exception as ex:
                    unsupported[f"{name}:masked"] = f"{type(ex).__name__}: {str(ex)[:80]}"
                # missing values at two levels at once: missing elements inside the lists AND missing whole lists
                try:
                    k3 = max(1, n // 3)
                    cnt = [k3, 0, n - 2 * k3, k3] if n - 2 * k3 >= 0 and k3 * 2 <= n else [n]
                    keep_list = (np.arange(len(cnt)) % 3 != 2)
                    aks = [ak.mask(ak.unflatten(ak.mask(ak.Array(np.asarray(c).astype(dt)), ~m), cnt), keep_list) for c in cols]
                    o = fn(*aks)
                    got = ak.to_list(o)
                    flat_want = [None if m[i] else ref_arr[i].tolist() for i in range(n)]
                    want, pos = [], 0
                    for li, c_ in enumerate(cnt):
                        want.append(flat_want[pos:pos + c_] if keep_list[li] else None)
                        pos += c_
                    chk.count(n, key=f"{name}-masked-two-levels")
                    chk.hist("layout", "ak-masked-two-levels")
                    norm = lambda L: [None if l is None else [None if g is None else float(g) for g in l] for l in L]
                    if norm(got) != norm(want):
                        bad("awkward array with missing lists and missing elements", dt, got[:6], want[:6]); return
                except Exception as ex:
                    unsupported[f"{name}:masked-two-levels"] = f"{type(ex).__name__}: {str(ex)[:80]}"
    chk.coverage["unsupported_representations"] = dict(list(unsupported.items())[:25])
    return ids


def run_parsers(chk: core.Check, ids):
    import awkward as ak
    import pybes3.detectors as det
    import pybes3.detectors.digi_id as d
    rng = np.random.default_rng(chk.seed + 140)

    def jag(vals, dt="uint32"):
        n = len(vals)
        c = sorted(rng.integers(0, n + 1, 2).tolist())
        return ak.unflatten(ak.Array(np.asarray(vals).astype(dt)), np.diff([0] + c + [n]).tolist())

    specs = [
        ("parse_tof_digi_id", det.parse_tof_digi_id, ids["tof"], {"part": d.tof_id_to_part, "layer_or_module": d.tof_id_to_layer_or_module, "phi_or_strip": d.tof_id_to_phi_or_strip, "end": d.tof_id_to_end}),
        ("parse_muc_digi_id", det.parse_muc_digi_id, ids["muc"], {"part": d.muc_id_to_part, "segment": d.muc_id_to_segment, "layer": d.muc_id_to_layer, "channel": d.muc_id_to_channel, "gap": d.muc_id_to_layer, "strip": d.muc_id_to_channel}),
        ("parse_cgem_digi_id", det.parse_cgem_digi_id, ids["cgem"], {"layer": d.cgem_id_to_layer, "sheet": d.cgem_id_to_sheet, "strip": d.cgem_id_to_strip, "is_x_strip": d.cgem_id_to_is_x_strip}),
    ]
    for name, fn, vals, fields in specs:
        a = jag(vals)
        views = {"jagged": a, "sliced[1:]": a[1:], "reversed[::-1]": a[::-1], "int64": jag(vals, "int64")}
        if len(a) >= 2:
            views["selected[[True,False,...]]"] = a[np.arange(len(a)) % 2 == 0]
        # missing digis inside the events, missing whole events, one more level of nesting
        keep = ak.unflatten(ak.Array((np.arange(len(vals)) % 3 != 1)), ak.num(a))
        views["missing digis (ak.mask)"] = ak.mask(a, keep)
        views["missing events"] = ak.mask(a, np.arange(len(a)) % 2 == 0)
        views["depth3"] = ak.unflatten(a, [1, len(a) - 1] if len(a) >= 2 else [len(a)])
        for vlabel, v in views.items():
            for flat, lib in itertools.product([False, True], ["ak", "np"]):
                try:
                    out = fn(v, flat=flat, library=lib)
                except Exception as ex:
                    chk.failing_input(f"{name}(flat={flat}, library={lib!r}) on a {vlabel} awkward array", {"ids": ak.to_list(v)}, f"{type(ex).__name__}: {str(ex)[:200]}", "record of the field functions", "option combinations are supported")
                    return
                inp = ak.flatten(v) if flat else v
                chk.count(len(ak.flatten(v, axis=None)), key=f"{name}-{vlabel}-{flat}-{lib}")
                for f_, ffn in fields.items():
                    want = ffn(inp)
                    got = out[f_]
                    if ak.to_list(got) != ak.to_list(want):
                        chk.failing_input(f"{name}(flat={flat}, library={lib!r})[{f_!r}] on a {vlabel} awkward array", {"ids": ak.to_list(v)}, ak.to_list(got), ak.to_list(want),
                                          "record fields agree with the individual field functions; the flatten option equals flattening the input first; NumPy and Awkward outputs hold the same values")
                        return
        # numpy input
        arr = np.asarray(vals, dtype=np.uint32)
        # the same integers in a non-native byte order (what library="np" reads from a file), the same array object passed twice: either refused, or
        # the same fields both times, and the caller's array is left as it was
        for bdt in (">u4", ">i8"):
            be = arr.astype(bdt); keep = be.copy()
            try:
                o1 = fn(be, library="np"); o2 = fn(be, library="np")
            except Exception as ex:
                chk.hist("parser_big_endian", f"refused:{type(ex).__name__}")
            else:
                chk.count(len(arr), key=f"{name}-big-endian-{bdt}")
                chk.hist("parser_big_endian", "accepted")
                for f_, ffn in fields.items():
                    for which, o in (("first call", o1), ("second call on the same array object", o2)):
                        if not same(o[f_], ffn(arr)):
                            chk.failing_input(f"{name}[{f_!r}] on a big-endian ({bdt}) numpy array, {which}", {"ids": list(map(int, arr))[:12], "dtype": bdt}, np.asarray(o[f_]).tolist()[:12], np.asarray(ffn(arr)).tolist()[:12],
                                              "the same values for any integer dtype; calling twice with the same input gives the same result")
                            return
            if not np.array_equal(be.astype(np.int64), keep.astype(np.int64)) or be.dtype != keep.dtype:
                chk.failing_input(f"{name}: the caller's big-endian ({bdt}) numpy array after the call", {"ids": list(map(int, arr))[:12], "dtype": bdt}, be.astype(np.int64).tolist()[:12], keep.astype(np.int64).tolist()[:12],
                                  "a function of the input's values: the input still holds the same values afterwards")
                return
        # 2-d numpy input in C order and as a Fortran-ordered / transposed array holding the same integers, flat on and off: the same values in
        # the same logical (row-major) order
        if len(arr) >= 4:
            a2 = arr[: len(arr) // 2 * 2].reshape(2, -1)
            reps2 = {"Fortran-ordered 2-d": np.asfortranarray(a2), "transpose of the transposed copy": np.ascontiguousarray(a2.T).T}
            for flat in (False, True):
                base = fn(a2.copy(), flat=flat, library="np")
                for f_, ffn in fields.items():
                    if not same(np.asarray(base[f_]).ravel(), np.asarray(ffn(a2.ravel()))):
                        chk.failing_input(f"{name}(flat={flat}, library='np')[{f_!r}] on a 2-d numpy array", {"ids": a2.tolist()}, np.asarray(base[f_]).ravel().tolist()[:12], np.asarray(ffn(a2.ravel())).tolist()[:12],
                                          "record fields agree with the individual field functions (values in row-major order)")
                        return
                for rl, ra in reps2.items():
                    for lib in ("np", "ak"):
                        o = fn(ra, flat=flat, library=lib); b = fn(a2.copy(), flat=flat, library=lib)
                        chk.count(a2.size, key=f"{name}-{rl}-{flat}-{lib}")
                        for f_ in fields:
                            go, gb = (ak.to_list(o[f_]), ak.to_list(b[f_])) if lib == "ak" else (np.asarray(o[f_]).tolist(), np.asarray(b[f_]).tolist())
                            if go != gb:
                                chk.failing_input(f"{name}(flat={flat}, library={lib!r})[{f_!r}] on a {rl} numpy array vs the C-ordered array holding the same integers", {"ids": a2.tolist(), "layout": rl},
                                                  go, gb, "the same values whatever the memory representation of the input; the flatten option equals flattening the input first")
                                return
        # a record handed out for a scalar belongs to the caller: editing it does not change what the next lookup of the same id returns
        for sc_in in (int(arr[0]), np.uint32(arr[0])):
            first = fn(sc_in, library="np") if "library" in fn.__code__.co_varnames else fn(sc_in)
            keep = {k_: np.array(v_, copy=True) for k_, v_ in first.items()}
            for k_ in list(first):
                try:
                    first[k_] = first[k_] * 0 + 77
                except Exception:
                    pass
            first.pop(next(iter(first)))
            again = fn(sc_in, library="np") if "library" in fn.__code__.co_varnames else fn(sc_in)
            chk.count(1, key=f"{name}-scalar-record-edited")
            if set(again) != set(keep) or any(not same(again[k_], keep[k_]) for k_ in keep):
                chk.failing_input(f"{name}({type(sc_in).__name__}) after the caller edited the record returned by the previous identical call", {"id": int(sc_in)}, {k_: np.asarray(v_).tolist() for k_, v_ in again.items()},
                                  {k_: v_.tolist() for k_, v_ in keep.items()}, "every call returns the fields of its input, whatever the caller did with earlier results")
                return
        o_np = fn(arr, library="np"); o_ak = fn(ak.Array(arr), library="ak")
        for f_, ffn in fields.items():
            if not (same(o_np[f_], ffn(arr)) and ak.to_list(o_ak[f_]) == np.asarray(ffn(arr)).tolist()):
                chk.failing_input(f"{name}[{f_!r}] numpy vs awkward output", {"ids": list(map(int, arr))}, np.asarray(o_np[f_]).tolist(), np.asarray(ffn(arr)).tolist(), "NumPy and Awkward outputs hold the same values")
                return
    # gid / digi parsers with positions
    for name, fn, vals, single in [("parse_mdc_gid", det.parse_mdc_gid, ids["mdc_gid"], {"layer": det.mdc_gid_to_layer, "wire": det.mdc_gid_to_wire, "stereo": det.mdc_gid_to_stereo, "superlayer": det.mdc_gid_to_superlayer, "west_x": det.mdc_gid_to_west_x, "east_z": det.mdc_gid_to_east_z}),
                                   ("parse_emc_gid", det.parse_emc_gid, ids["emc_gid"], {"part": det.emc_gid_to_part, "theta": det.emc_gid_to_theta, "phi": det.emc_gid_to_phi, "center_x": det.emc_gid_to_center_x, "front_center_z": det.emc_gid_to_front_center_z})]:
        for sc_in in (int(vals[1]), np.uint16(vals[1]), np.int64(vals[1])):
            for with_pos in (True, False):
                first = fn(sc_in, with_pos=with_pos)
                keep = {k_: np.array(v_, copy=True) for k_, v_ in first.items()}
                for k_ in list(first):
                    first[k_] = np.asarray(first[k_]).astype(np.float64) * 10 + 1
                first.pop(next(iter(first)))
                again = fn(sc_in, with_pos=with_pos)
                chk.count(1, key=f"{name}-scalar-record-edited")
                if set(again) != set(keep) or any(not same(again[k_], keep[k_]) for k_ in keep):
                    badk = next((k_ for k_ in keep if k_ not in again or not same(again[k_], keep[k_])), None)
                    chk.failing_input(f"{name}({type(sc_in).__name__}, with_pos={with_pos}) after the caller edited the record returned by the previous identical call", {"gid": int(sc_in), "field": badk},
                                      (np.asarray(again[badk]).tolist() if badk in again else "missing"), keep[badk].tolist() if badk else None, "every call returns the row of its input, whatever the caller did with earlier results")
                    return
        for rep_label, rep in [("jagged uint16", jag(vals, "uint16")), ("numpy int64", np.asarray(vals, dtype=np.int64)), ("python int", int(vals[0])), ("sliced view", jag(vals, "int32")[1:])]:
            out = fn(rep, with_pos=True)
            chk.count(1, key=f"{name}-{rep_label}")
            for f_, ffn in single.items():
                want = ffn(rep)
                g = out[f_]
                ok = ak.to_list(g) == ak.to_list(want) if isinstance(rep, ak.Array) else same(g, want)
                if not ok:
                    chk.failing_input(f"{name}(with_pos=True)[{f_!r}] on {rep_label}", {"gids": ak.to_list(rep) if isinstance(rep, ak.Array) else np.asarray(rep).tolist()}, np.asarray(ak.to_list(g) if isinstance(g, ak.Array) else g).tolist() if not isinstance(g, ak.Array) else ak.to_list(g), ak.to_list(want) if isinstance(want, ak.Array) else np.asarray(want).tolist(), "record fields agree with the individual field functions")
                    return
    for name, fn, vals, gidfn in [("parse_mdc_digi_id", det.parse_mdc_digi_id, ids["mdc"], lambda x: det.get_mdc_gid(d.mdc_id_to_layer(x), d.mdc_id_to_wire(x))),
                                  ("parse_emc_digi_id", det.parse_emc_digi_id, ids["emc"], lambda x: det.get_emc_gid(d.emc_id_to_module(x), d.emc_id_to_theta(x), d.emc_id_to_phi(x)))]:
        for rep_label, rep in [("jagged uint32", jag(vals)), ("jagged int64", jag(vals, "int64")), ("numpy uint32", np.asarray(vals, dtype=np.uint32)), ("python int", int(vals[-1])), ("reversed view", jag(vals)[::-1])]:
            out = fn(rep)
            want = gidfn(rep)
            chk.count(1, key=f"{name}-{rep_label}")
            ok = ak.to_list(out["gid"]) == ak.to_list(want) if isinstance(rep, ak.Array) else same(out["gid"], want)
            if not ok:
                chk.failing_input(f"{name}[gid] on {rep_label}", {"ids": ak.to_list(rep) if isinstance(rep, ak.Array) else np.asarray(rep).tolist()}, ak.to_list(out["gid"]) if isinstance(rep, ak.Array) else np.asarray(out["gid"]).tolist(), ak.to_list(want) if isinstance(rep, ak.Array) else np.asarray(want).tolist(), "record fields agree with the individual field functions")
                return


def float_arguments(chk: core.Check):
    """mdc_gid_z_to_x / _y take a FLOAT second argument: the same (gid, z) pairs as Python scalars, NumPy arrays, Awkward arrays (flat, jagged with an
    empty event, sliced view, missing value, mixed numpy/awkward) give the same numbers"""
    import awkward as ak
    import pybes3.detectors as det
    rng = np.random.default_rng(chk.seed + 141)
    n = 40
    gid = rng.integers(0, 6796, n).astype(np.int64); gid[:3] = [0, 6795, 3000]
    z = np.round(rng.uniform(-120, 120, n), 3); z[:4] = [0.75, -20.9, 33.3, 0.0]            # non-integral values: a cast to an integer type shows
    counts = [3, 0, 5, n - 8]
    for ax in ("x", "y"):
        fn = getattr(det, f"mdc_gid_z_to_{ax}")
        name = f"mdc_gid_z_to_{ax}"
        ref = np.array([fn(int(g), float(v)) for g, v in zip(gid, z)], dtype=float)
        def cmp(label, got_flat, idx=slice(None)):
            chk.count(len(ref[idx]), key=f"{name}-{label}")
            chk.hist("float_arg_layout", label)
            got_flat = np.asarray(got_flat, dtype=float)
            if got_flat.shape != ref[idx].shape or not np.allclose(got_flat, ref[idx], rtol=0, atol=1e-9):
                i = 0 if got_flat.shape != ref[idx].shape else int(np.nonzero(~np.isclose(got_flat, ref[idx], rtol=0, atol=1e-9))[0][0])
                chk.failing_input(f"{name}(gid, z) with {label}", {"gid": int(gid[idx][i]), "z": float(z[idx][i]), "representation": label},
                                  float(got_flat[i]) if got_flat.shape == ref[idx].shape else str(got_flat.shape), float(ref[idx][i]),
                                  "the same values whether called with Python scalars, NumPy arrays or Awkward arrays of any nesting")
                return False
            return True
        jg, jz = ak.unflatten(ak.Array(gid), counts), ak.unflatten(ak.Array(z), counts)
        cases = [("numpy arrays", lambda: fn(gid, z), slice(None)),
                 ("numpy int32 gid + float32-exact z", lambda: fn(gid.astype(np.int32), z.astype(np.float64)), slice(None)),
                 ("flat awkward arrays", lambda: fn(ak.Array(gid), ak.Array(z)), slice(None)),
                 ("integer-typed z (int64 numpy array, negative values)", None, "intz-int64"),
                 ("integer-typed z (int16 numpy array, negative values)", None, "intz-int16"),
                 ("integer-typed z (int32 awkward array, negative values)", None, "intz-ak"),
                 ("awkward gid + numpy z", lambda: fn(ak.Array(gid), z), slice(None)),
                 ("numpy gid + awkward z", lambda: fn(gid, ak.Array(z)), slice(None)),
                 ("jagged awkward arrays", lambda: ak.flatten(fn(jg, jz)), slice(None)),
                 ("sliced jagged view [2:]", lambda: ak.flatten(fn(jg[2:], jz[2:])), slice(3, None)),
                 ("jagged awkward gid + python float z", None, None),
                 ("depth-3 awkward arrays", lambda: ak.flatten(fn(ak.unflatten(jg, [1, 3]), ak.unflatten(jz, [1, 3])), axis=None), slice(None))]
        for label, call, idx in cases:
            if call is None and isinstance(idx, str):
                zi = np.round(z).astype(np.int64); zi[:3] = [-120, -7, 95]
                zz = {"intz-int64": zi, "intz-int16": zi.astype(np.int16), "intz-ak": ak.Array(zi.astype(np.int32))}[idx]
                got = fn(ak.Array(gid), zz) if idx == "intz-ak" else fn(gid, zz)
                want = np.array([fn(int(g), float(v)) for g, v in zip(gid, zi)])
                chk.count(n, key=f"{name}-{label}")
                chk.hist("float_arg_layout", label)
                gotn = ak.to_numpy(got) if isinstance(got, ak.Array) else np.asarray(got)
                if not np.allclose(gotn, want, rtol=0, atol=1e-9):
                    i = int(np.nonzero(~np.isclose(gotn, want, rtol=0, atol=1e-9))[0][0])
                    chk.failing_input(f"{name}(gid, z) with {label}", {"gid": int(gid[i]), "z": int(zi[i])}, float(gotn[i]), float(want[i]), "the same values whether z is a Python number, a float array or an integer-typed array")
                    return
                continue
            if call is None:
                got = ak.flatten(fn(jg, 12.25))
                want = np.array([fn(int(g), 12.25) for g in gid])
                chk.count(n, key=f"{name}-{label}")
                if not np.allclose(ak.to_numpy(got), want, rtol=0, atol=1e-9):
                    i = int(np.nonzero(~np.isclose(ak.to_numpy(got), want, rtol=0, atol=1e-9))[0][0])
                    chk.failing_input(f"{name}(gid, z) with {label}", {"gid": int(gid[i]), "z": 12.25}, float(got[i]), float(want[i]), "the same values whether called with Python scalars, NumPy arrays or Awkward arrays")
                    return
                continue
            try:
                got = call()
            except Exception as ex:
                chk.failing_input(f"{name}(gid, z) with {label}", {"gid": gid[:5].tolist(), "z": z[:5].tolist()}, f"{type(ex).__name__}: {str(ex)[:200]}", ref[:5].tolist(), "every container kind is accepted")
                return
            if not cmp(label, ak.to_numpy(got) if isinstance(got, ak.Array) else got, idx):
                return
        # a missing value stays missing, the others keep their values
        m = np.arange(n) % 4 == 1
        got = ak.to_list(fn(ak.mask(ak.Array(gid), ~m), ak.Array(z)))
        chk.count(n, key=f"{name}-masked")
        for i in range(n):
            if (got[i] is None) != bool(m[i]) or (got[i] is not None and abs(got[i] - ref[i]) > 1e-9):
                chk.failing_input(f"{name}(gid, z) with a gid array holding missing values", {"gid": None if m[i] else int(gid[i]), "z": float(z[i])}, got[i], None if m[i] else float(ref[i]), "missing stays missing, valid entries keep their value")
                return


def scalar_record_histories(chk: core.Check, clause="every call returns the row of its input, whatever the caller did with earlier results"):
    """a record handed out for ONE element belongs to the caller: lookup, edit the returned record in place (values scaled, a key removed), the same
    lookup again (same value given as int / numpy scalar of another dtype) - the second answer is the published row again (shared with C09)"""
    import pybes3.detectors as det
    import pybes3.detectors.digi_id as d
    mdc_id = int(d.get_mdc_digi_id(7, 12, 0)); emc_id = int(d.get_emc_digi_id(1, 20, 33))
    cases = [("parse_mdc_gid", det.parse_mdc_gid, [1234, np.uint16(1234), np.int64(1234)], {"with_pos": True}),
             ("parse_mdc_gid", det.parse_mdc_gid, [6000, np.int32(6000)], {"with_pos": False}),
             ("parse_emc_gid", det.parse_emc_gid, [3000, np.uint16(3000), np.int64(3000)], {"with_pos": True}),
             ("parse_mdc_digi_id", det.parse_mdc_digi_id, [mdc_id, np.uint32(mdc_id)], {}),
             ("parse_emc_digi_id", det.parse_emc_digi_id, [emc_id, np.uint32(emc_id)], {})]
    for name, fn, reps, kw in cases:
        ref = {k_: np.array(v_, copy=True) for k_, v_ in fn(reps[0], **kw).items()}
        for rep in reps + reps[:1]:
            got = fn(rep, **kw)
            chk.count(1, key=f"{name}-scalar-history-{type(rep).__name__}")
            badk = next((k_ for k_ in ref if k_ not in got or not same(got[k_], ref[k_])), None) or next((k_ for k_ in got if k_ not in ref), None)
            if badk is not None:
                chk.failing_input(f"{name}({type(rep).__name__}{', ' + str(kw) if kw else ''}) after the caller edited the record an earlier call of the same lookup returned", {"element": int(rep), "field": badk},
                                  (np.asarray(got[badk]).tolist() if badk in got else "missing"), (ref[badk].tolist() if badk in ref else "absent"), clause)
                return
            for k_ in list(got):                       # the caller's edit
                try:
                    with np.errstate(all="ignore"):
                        got[k_] = np.asarray(got[k_]).astype(np.float64) * 10 + 1
                except Exception:
                    pass
            got.pop(next(iter(got)))


BYTE_ORDER_CHILD = r"""
import sys, json
import numpy as np
import pybes3.detectors.digi_id as d
import pybes3.detectors as det
mode = sys.argv[1]
mdc = np.array([0x10000000 | (5 << 11) | 7, 0x10000000 | (42 << 11) | 100, 0x10000000 | (17 << 11) | 255], dtype="<u4")
gid = np.array([5, 6000, 300], dtype="<u4")
cases = {"digi_id.mdc_id_to_wire": (d.mdc_id_to_wire, mdc), "digi_id.mdc_id_to_layer": (d.mdc_id_to_layer, mdc), "mdc_gid_to_layer": (det.mdc_gid_to_layer, gid),
         "mdc_gid_to_wire": (det.mdc_gid_to_wire, gid), "emc_gid_to_theta": (det.emc_gid_to_theta, gid)}
out = {}
for name, (fn, a) in cases.items():
    rec = {}
    if mode == "native-first":
        rec["native"] = np.asarray(fn(a)).tolist()
    for bdt in (">u4", ">i8"):
        try:
            rec[bdt] = np.asarray(fn(a.astype(bdt))).tolist()
        except Exception as ex:
            rec[bdt] = "raised " + type(ex).__name__ + ": " + str(ex).replace("\x1b[1m", "").replace("\x1b[0m", "")[:60]
    rec["reference"] = np.asarray(fn(a)).tolist()
    out[name] = rec
print(json.dumps(out))
"""


def byte_order_history(chk: core.Check):
    """big-endian input as the FIRST call of a function in a fresh process vs after a native-order call (private numba caches): the recorded
    finding is 'refused until a native loop exists'; a wrong VALUE in either history is a new violation"""
    import json
    import os
    import shutil
    import subprocess
    import tempfile
    for mode in ("fresh", "native-first"):
        cache = tempfile.mkdtemp(prefix="c14be-")
        try:
            p = subprocess.run([core.PY, "-c", BYTE_ORDER_CHILD, mode], capture_output=True, text=True, timeout=900, env=dict(os.environ, NUMBA_CACHE_DIR=cache))
        finally:
            shutil.rmtree(cache, ignore_errors=True)
        lines = [l for l in p.stdout.splitlines() if l.startswith("{")]
        if not lines:
            chk.obligation_broken("correspondence", "byte-order history child", p.stderr[-600:])
            return
        res = json.loads(lines[-1])
        for name, rec in res.items():
            for bdt in (">u4", ">i8"):
                chk.count(1, key=f"byteorder-{mode}-{name}-{bdt}")
                got = rec[bdt]
                if isinstance(got, str):
                    chk.hist("byte_order_history", f"{mode}:refused")
                    if "Unsupported array dtype" in got:
                        chk.failing_input(f"{name} on a big-endian ({bdt}) array, {'first call of the process' if mode == 'fresh' else 'after a call with the native-order array'}",
                                          {"function": name, "dtype": bdt, "history": mode}, got, rec["reference"], "the same values for a NumPy array of any integer dtype",
                                          finding_key={"key": "non-native-byte-order-refused-until-native-loop"})
                    else:
                        chk.failing_input(f"{name} on a big-endian ({bdt}) array ({mode})", {"function": name, "dtype": bdt, "history": mode}, got, rec["reference"], "the same values for a NumPy array of any integer dtype")
                        return
                else:
                    chk.hist("byte_order_history", f"{mode}:accepted")
                    if got != rec["reference"]:
                        chk.failing_input(f"{name} on a big-endian ({bdt}) array ({mode}): values", {"function": name, "dtype": bdt, "history": mode}, got, rec["reference"], "the same values for a NumPy array of any integer dtype")
                        return


def main(chk: core.Check) -> int:
    thorough = chk.tier == "thorough"
    chk.level = "other"
    chk.coverage["explanation"] = ("Proof (Lean, Props/C14 on Props/Nested) of pybes3's own assembly laws: element-wise kernels preserve structure and act on the leaves for every nesting depth, the "
                                   "flat option commutes with the kernels, records are tuples of field kernels. The dispatch half (numba per-dtype kernels, awkward ufunc protocol) is explored: "
                                   "every public function x integer dtypes x container kinds x options against a leaf-by-leaf Python-int reference.")
    chk.coverage["rule"] = "evaluations = leaves pushed through a (function, dtype, container) combination; distinct = distinct combinations"
    chk.assumptions += ["numba's type dispatch and awkward's ufunc protocol are third-party and outside the model", "geometry functions are called on valid indices only (numba does no bounds checking)",
                        "arrays of unknown type (e.g. ak.Array([])) are not integer inputs and are not generated"]
    from translate import gen
    from checks.c05 import bv_axiom_any
    gs = [gen.gen_digi(), gen.gen_geom(), gen.gen_detparse()]
    bad = [g for g in gs if not g["ok"]]
    if bad:
        chk.obligation_broken("translator", "regenerate the kernels / the record parsers (detectors/__init__.py -> Gen/DetParse.lean)", bad[0]["error"])
    _entry = ["EntryTie"] if core.regen_entry(chk) else []
    chk.prove(modules=["C14", "Nested", "DetParseTie"] + _entry, extra_allowed=bv_axiom_any)
    try:
        ids = run_functions(chk, thorough)
        if ids is not None:
            run_parsers(chk, ids)
        if not chk.failing:
            float_arguments(chk)
        if not chk.failing:
            scalar_record_histories(chk)
        if not chk.failing:
            byte_order_history(chk)
        if not [f for f in chk.failing if not f.get("finding_key")]:
            # dtype independence along a call history (private numba cache, child process): kernels first compiled for int64, a geometry table
            # handed out and edited by the caller, then the same lookups with dtypes that need a NEW compiled loop (uint64) - every dtype must
            # still return the published values
            from checks import c09
            c09.histories(chk, what="geometry lookup with an index dtype whose kernel is compiled after the caller edited a table it was handed",
                          clause="every geometry function returns the same values whatever the integer dtype of its input (the loop compiled for a new dtype must see the same tables)")
        chk.coverage["traces_validated_against_impl"] = len(chk.distinct)
    except Exception as ex:
        import traceback
        chk.obligation_broken("correspondence", "representation harness", f"{type(ex).__name__}: {ex}\n{traceback.format_exc()[-1800:]}")
    chk.sample({"function": "digi_id.mdc_id_to_layer", "representations": ["python int", "np.uint32 scalar", "int64 array", "jagged uint32 with empty lists", "masked"]})
    return chk.finish(None)
