"""C07 — helix arrays behave exactly like independent single-track helices (DESIGN.md section 6/C07).

model  : Model/Nested.lean (flatten / per-level counts / unflatten innermost-first = _extract_index + the change_pivot loop)
         + Model/Helix.lean::changePivot (single track)
proof  : Props/C07.lean (array result = per-track result, same nesting; common pivot = map; ufuncs; permutation) on top of
         Props/Nested.lean (rebuild (levels t) (flat t) = t for every uniform-depth layout)
tie    : Lean Nested driver <-> _extract_index / ak.flatten / change_pivot's re-nesting on generated layouts;
         real helix_awk operations <-> per-track helix_obj on generated track lists placed in generated layouts
oracle : the single-track object
"""
from __future__ import annotations

import math

import numpy as np

from checks import helix_common as hc
from lib import core


def nest_counts(rng, n, depth):
    """random per-level counts (outermost first) for n leaves at the given depth (>= 1); empty lists allowed"""
    levels = []
    size = n
    for _ in range(depth - 1):
        # split `size` items of the next level into groups
        k = int(rng.integers(1, max(2, size + 2)))
        cuts = np.sort(rng.integers(0, size + 1, k - 1)) if k > 1 else np.array([], dtype=int)
        counts = np.diff(np.concatenate([[0], cuts, [size]])).astype(int)
        levels.append(counts.tolist())
        size = len(counts)
    return list(reversed(levels))    # outermost first


def build(arr, levels):
    import awkward as ak
    a = ak.Array(arr)
    for c in reversed(levels):
        a = ak.unflatten(a, c)
    return a


def to_brackets(x):
    return "[" + ",".join(to_brackets(v) if isinstance(v, list) else str(int(v)) for v in x) + "]"


def layouts_vs_model(chk: core.Check, n_cases):
    """the nesting bookkeeping alone: _extract_index + flatten + re-nest on index-valued arrays vs the Lean model"""
    import awkward as ak
    from pybes3._utils import _extract_index, _flat_to_numpy
    rng = np.random.default_rng(chk.seed + 7)
    lines, cases = [], []
    for _ in range(n_cases):
        n = int(rng.choice([0, 1, 2, 5, 9]))
        depth = int(rng.choice([1, 2, 2, 3, 4]))
        lv = nest_counts(rng, n, depth)
        a = build(np.arange(n), lv)
        cases.append((a, depth))
        lines.append(f"{depth} " + to_brackets(ak.to_list(a)))
    out = core.lean_run("Driver/Nested.lean", "\n".join(lines) + "\n")
    diffs = []
    for (a, depth), ml in zip(cases, out):
        idx = _extract_index(a.layout)
        got_levels = ";".join(",".join(str(int(x)) for x in np.atleast_1d(c)) for c in idx)
        got_flat = ",".join(str(int(x)) for x in _flat_to_numpy(a))
        want = f"depth={depth} levels={got_levels} flat={got_flat} roundtrip=1"
        chk.count(1, key=ml)
        chk.hist("layout_depth", depth)
        if ml.strip() != want:
            diffs.append({"layout": ak.to_list(a), "model": ml, "implementation": want})
    return diffs


def exact_half_turn(chk: core.Check):
    """turning angle exactly pi in floating point (phi0 = 0.0, pivots on the x axis beyond the circle centre: atan2(0.0, negative) is
    exactly pi in libm and numpy alike): the array kinds must take the same side of the (-pi, pi] window as the single-track object"""
    import awkward as ak
    import pybes3
    rows = []
    for kappa in (-2.0, -0.5, 1.0, 4.0):
        r = -hc.ALPHA / kappa                       # signed radius: centre at (dr + r, 0)
        for dr in (0.05, 0.0, -0.125):
            cx = dr + r
            for far in (1.5, 40.0):
                x = cx + far * abs(r) if r > 0 else cx - far * abs(r)
                rows.append((dr, 0.0, kappa, -1.0, 0.75, x, 2.0))
    par = np.array(rows)
    for nest in (None, [[5, 0, len(rows) - 5]]):
        h = dict(dr=par[:, 0], phi0=par[:, 1], kappa=par[:, 2], dz=par[:, 3], tanl=par[:, 4], piv=np.zeros((len(rows), 3)), new=np.column_stack([par[:, 5], np.zeros(len(rows)), par[:, 6]]))
        arr = hc.impl_arr(h, nest=nest)
        mk = (lambda a: ak.unflatten(ak.Array(a), nest[0])) if nest else ak.Array
        res_all = arr.change_pivot(ak.zip({"x": mk(h["new"][:, 0]), "y": mk(h["new"][:, 1]), "z": mk(h["new"][:, 2])}, with_name="Vector3D"))
        for form in ("per-track-array", "tuple"):
            for i, row in enumerate(rows):
                o = pybes3.helix_obj(*row[:5]).change_pivot((row[5], 0.0, row[6]))
                res = arr.change_pivot((row[5], 0.0, row[6])) if form == "tuple" else res_all
                g = {k: float(ak.to_numpy(ak.flatten(res[k], axis=None))[i]) for k in ("dr", "phi0", "dz")}
                chk.count(1, key=f"half-turn-{form}-{nest is not None}")
                if not (hc.close(g["dr"], o.dr, atol=1e-9) and hc.circ_close(g["phi0"], o.phi0, 1e-9) and hc.close(g["dz"], o.dz, atol=1e-7)):
                    chk.failing_input("track of a helix array after change_pivot vs the single-track object (turning angle exactly pi)", {"helix": list(row[:5]), "old_pivot": [0, 0, 0], "new_pivot": [row[5], 0.0, row[6]], "pivot_form": form, "nested": nest is not None},
                                      g, {"dr": o.dr, "phi0": o.phi0, "dz": o.dz}, "each track gives exactly what the single-track helix object gives for that track alone")
                    return


def deep_views_and_pivot_kinds(chk: core.Check):
    """(a) three list levels (events x candidates x tracks), an index-selected / reversed / masked view of an OUTER level taken after the
    array was built: every track still gets its own single-track result, in the view's nesting;
    (b) pivots handed over as Vector3D arrays that are not stored as (x, y, z): cylindrical (rho, phi, z), fields zipped in another order -
    for the helix's own pivot and for the new pivot;
    (c) closeness test for pairs whose phi0 straddle the 0 / 2 pi wrap: array verdict = record verdict = object verdict."""
    import warnings
    import awkward as ak
    import pybes3
    rng = np.random.default_rng(chk.seed + 7077)
    n = 9
    h = hc.gen(rng, n)
    lv = [[2, 1, 2], [2, 2, 1, 1, 3]]                       # 3 events; 5 candidates holding 2, 2, 1, 1, 3 tracks
    arr = hc.impl_arr(h, nest=lv)
    new = (3.5, -2.25, 1.125)
    objs = [pybes3.helix_obj(h["dr"][i], h["phi0"][i], h["kappa"][i], h["dz"][i], h["tanl"][i], pivot=tuple(h["piv"][i])).change_pivot(new) for i in range(n)]
    idx = build(np.arange(n), lv)
    views = {"[[2, 0, 1]]": (arr[[2, 0, 1]], idx[[2, 0, 1]]), "[::-1]": (arr[::-1], idx[::-1]), "[mask]": (arr[[True, False, True]], idx[[True, False, True]]),
             "[[1, 1, 0]]": (arr[[1, 1, 0]], idx[[1, 1, 0]]), "[:, ::-1]": (arr[:, ::-1], idx[:, ::-1])}
    for vname, (v, vi) in views.items():
        chk.count(1, key=f"deep-view-{vname}")
        try:
            res = v.change_pivot(new)
            ok = ak.to_list(ak.num(res.dr, axis=-1)) == ak.to_list(ak.num(v.dr, axis=-1)) and ak.to_list(ak.num(res.dr, axis=1)) == ak.to_list(ak.num(v.dr, axis=1))
            want_order = ak.to_numpy(ak.flatten(vi, axis=None))
            got = ak.to_numpy(ak.flatten(res.dz, axis=None)); gdr = ak.to_numpy(ak.flatten(res.dr, axis=None))
            ok = ok and len(got) == len(want_order) and all(hc.close(got[j], objs[k].dz, atol=1e-8) and hc.close(gdr[j], objs[k].dr, atol=1e-8) for j, k in enumerate(want_order))
            obs = {"nesting": ak.to_list(ak.num(res.dr, axis=-1)), "dz": got.tolist()[:9]}
        except Exception as ex:
            ok, obs = False, f"{type(ex).__name__}: {str(ex)[:200]}"
        if not ok:
            chk.failing_input(f"change_pivot on a view {vname} of an events x candidates x tracks array", {"nesting_counts": lv, "view": vname, "tracks": {k: h[k].tolist() for k in ("dr", "phi0", "kappa", "dz", "tanl")}, "pivots": h["piv"].tolist(), "new_pivot": list(new)},
                              obs, {"nesting": ak.to_list(ak.num(v.dr, axis=-1)), "dz": [objs[k].dz for k in ak.to_numpy(ak.flatten(vi, axis=None))][:9]},
                              "each track gives what the single-track object gives; the result does not depend on the order of the tracks nor on how the array is nested; same nesting as the input")
            return
    # ---- (b)
    flat = hc.impl_arr(h)
    px, py, pz = h["piv"][:, 0], h["piv"][:, 1], h["piv"][:, 2]
    nx, ny, nz = h["new"][:, 0], h["new"][:, 1], h["new"][:, 2]
    ref = [pybes3.helix_obj(h["dr"][i], h["phi0"][i], h["kappa"][i], h["dz"][i], h["tanl"][i], pivot=tuple(h["piv"][i])).change_pivot(tuple(h["new"][i])) for i in range(n)]
    kinds = {
        "new pivot cylindrical (rho, phi, z)": (flat, ak.zip({"rho": np.hypot(nx, ny), "phi": np.arctan2(ny, nx), "z": nz}, with_name="Vector3D")),
        "new pivot zipped as (z, x, y)": (flat, ak.zip({"z": nz, "x": nx, "y": ny}, with_name="Vector3D")),
        "own pivot zipped as (z, y, x)": (pybes3.helix_awk(dr=ak.Array(h["dr"].copy()), phi0=ak.Array(h["phi0"].copy()), kappa=ak.Array(h["kappa"].copy()), dz=ak.Array(h["dz"].copy()), tanl=ak.Array(h["tanl"].copy()),
                                                           pivot=ak.zip({"z": pz, "y": py, "x": px}, with_name="Vector3D")), ak.zip({"x": nx, "y": ny, "z": nz}, with_name="Vector3D")),
        "own pivot cylindrical": (pybes3.helix_awk(dr=ak.Array(h["dr"].copy()), phi0=ak.Array(h["phi0"].copy()), kappa=ak.Array(h["kappa"].copy()), dz=ak.Array(h["dz"].copy()), tanl=ak.Array(h["tanl"].copy()),
                                                   pivot=ak.zip({"rho": np.hypot(px, py), "phi": np.arctan2(py, px), "z": pz}, with_name="Vector3D")), ak.zip({"x": nx, "y": ny, "z": nz}, with_name="Vector3D")),
    }
    reg = hc.regular_mask(h)
    for kname, (a, newp) in kinds.items():
        chk.count(n, key=f"pivot-kind-{kname}")
        try:
            res = a.change_pivot(newp)
            g = {k: ak.to_numpy(res[k]).astype(float) for k in ("dr", "phi0", "dz")}
            gp = [ak.to_numpy(res.pivot.x).astype(float), ak.to_numpy(res.pivot.y).astype(float), ak.to_numpy(res.pivot.z).astype(float)]
            sc = 1 + np.abs(hc.rho(h["kappa"])) + np.abs(h["piv"]).max(axis=1) + np.abs(h["new"]).max(axis=1)
            bad = [i for i in range(n) if reg[i] and not (hc.close(g["dr"][i], ref[i].dr, atol=1e-8 * sc[i]) and hc.circ_close(g["phi0"][i], ref[i].phi0, 1e-8) and hc.close(g["dz"][i], ref[i].dz, atol=1e-8 * sc[i] * (1 + abs(h["tanl"][i])))
                                                      and hc.close(gp[0][i], nx[i], atol=1e-9 * sc[i]) and hc.close(gp[1][i], ny[i], atol=1e-9 * sc[i]) and hc.close(gp[2][i], nz[i], atol=1e-9 * sc[i]))]
            obs = None if not bad else {"dr": float(g["dr"][bad[0]]), "phi0": float(g["phi0"][bad[0]]), "dz": float(g["dz"][bad[0]]), "pivot": [float(gp[c][bad[0]]) for c in range(3)]}
        except Exception as ex:
            bad, obs = [0], f"{type(ex).__name__}: {str(ex)[:200]}"
        if bad:
            i = bad[0]
            chk.failing_input(f"change_pivot (array form) with a {kname}", {"helix": {k: float(h[k][i]) for k in ("dr", "phi0", "kappa", "dz", "tanl")}, "pivot": h["piv"][i].tolist(), "new_pivot": h["new"][i].tolist(), "pivot_kind": kname},
                              obs, {"dr": ref[i].dr, "phi0": ref[i].phi0, "dz": ref[i].dz, "pivot": h["new"][i].tolist()}, "each track gives exactly what the single-track helix object gives (the pivot is a point, however its coordinates are stored)")
            return
    # ---- (c)
    eps = [1e-9, 3e-7, 1e-4]
    pa = np.array([[0.3, e, -1.2, 0.5, 0.7] for e in eps] + [[0.3, 2 * math.pi - e, -1.2, 0.5, 0.7] for e in eps] + [[0.3, 1.0, -1.2, 0.5, 0.7]])
    pb = np.array([[0.3, 2 * math.pi - e, -1.2, 0.5, 0.7] for e in eps] + [[0.3, e, -1.2, 0.5, 0.7] for e in eps] + [[0.3, 1.0, -1.2, 0.5, 0.7]])
    A, B = pybes3.helix_awk(ak.Array(pa)), pybes3.helix_awk(ak.Array(pb))
    with warnings.catch_warnings():
        warnings.simplefilter("ignore")
        va = [bool(x) for x in ak.to_numpy(A.isclose(B))]
        vr = [bool(A[i].isclose(B[i])) for i in range(len(pa))]
        vo = [bool(pybes3.helix_obj(*pa[i]).isclose(pybes3.helix_obj(*pb[i]))) for i in range(len(pa))]
    chk.count(3 * len(pa), key="isclose-straddle")
    if not (va == vr == vo):
        chk.failing_input("isclose for pairs whose phi0 straddle the 0 / 2 pi wrap, in object / record / array form", {"phi0_a": pa[:, 1].tolist(), "phi0_b": pb[:, 1].tolist(), "other_parameters": [0.3, -1.2, 0.5, 0.7]},
                          {"array": va, "record": vr, "object": vo}, "equal verdicts", "the closeness test gives for each track exactly what the single-track helix object gives")


def per_track(chk: core.Check, n_lists: int):
    import awkward as ak
    import pybes3
    import vector
    rng = np.random.default_rng(chk.seed + 77)
    tol = 1e-9
    for it in range(n_lists):
        n = int(rng.choice([1, 2, 3, 6, 12]))
        h = hc.gen(rng, n, far=True)
        reg = hc.regular_mask(h)
        depth = int(rng.choice([1, 2, 2, 3, 4]))
        lv = nest_counts(rng, n, depth)
        with_err = rng.random() < 0.4
        A = rng.normal(size=(n, 5, 5)); E = A @ A.transpose(0, 2, 1) * 1e-4
        arr = hc.impl_arr(h, error=E if with_err else None, nest=lv)
        chk.count(1, key=f"{depth}-{n}-{it}")
        chk.hist("layout_depth", depth); chk.hist("tracks", n)
        # single-track reference
        objs = [pybes3.helix_obj(h["dr"][i], h["phi0"][i], h["kappa"][i], h["dz"][i], h["tanl"][i], pivot=tuple(h["piv"][i]), error=E[i] if with_err else None) for i in range(n)]
        form = rng.choice(["tuple", "vector", "array", "xyz"])
        common = tuple(float(x) for x in rng.uniform(-30, 30, 3))
        before = {k: np.array(hc._utils_flat(arr[k])) for k in ("dr", "phi0", "kappa", "dz", "tanl")} if hasattr(hc, "_utils_flat") else {k: ak.to_numpy(ak.flatten(arr[k], axis=None)).copy() for k in ("dr", "phi0", "kappa", "dz", "tanl")}

        def desc():
            return {"tracks": {k: h[k].tolist() for k in ("dr", "phi0", "kappa", "dz", "tanl")}, "pivots": h["piv"].tolist(), "nesting_counts": lv, "pivot_form": form, "new_pivot": common if form != "array" else h["new"].tolist()}
        try:
            if form == "tuple":
                res = arr.change_pivot(common)
            elif form == "xyz":
                res = arr.change_pivot(*common)
            elif form == "vector":
                res = arr.change_pivot(vector.obj(x=common[0], y=common[1], z=common[2]))
            else:
                newp = ak.zip({"x": build(h["new"][:, 0], lv), "y": build(h["new"][:, 1], lv), "z": build(h["new"][:, 2], lv)}, with_name="Vector3D")
                res = arr.change_pivot(newp)
        except Exception as ex:
            chk.failing_input("HelixAwkwardArray.change_pivot raised", desc(), f"{type(ex).__name__}: {ex}", "per-track results in the input's nesting", "every array layout holding the tracks is supported; output has the same nesting as the input")
            return
        targets = [common] * n if form != "array" else [tuple(h["new"][i]) for i in range(n)]
        if form != "array":
            h2 = dict(h, new=np.array(targets)); reg = hc.regular_mask(h2)
        # same nesting
        if ak.to_list(ak.num(res.dr, axis=-1)) != ak.to_list(ak.num(arr.dr, axis=-1)) or res.dr.ndim != arr.dr.ndim:
            chk.failing_input("nesting of change_pivot's result", desc(), str(res.dr.type), str(arr.dr.type), "the output has the same nesting as the input")
            return
        got = {k: ak.to_numpy(ak.flatten(res[k], axis=None)) for k in ("dr", "phi0", "kappa", "dz", "tanl")}
        gerr = ak.to_numpy(ak.flatten(res.error, axis=None)).reshape(-1, 5, 5) if with_err else None
        for i in range(n):
            o = objs[i].change_pivot(targets[i])
            sc = 1 + abs(hc.rho(h["kappa"][i])) + np.abs(h["piv"][i]).max() + np.abs(np.array(targets[i])).max() + abs(h["dr"][i])
            ok = hc.close(got["dr"][i], o.dr, atol=tol * sc) and hc.circ_close(got["phi0"][i], o.phi0, 1e-9) and hc.close(got["dz"][i], o.dz, atol=tol * sc * (1 + abs(h["tanl"][i]))) and got["kappa"][i] == o.kappa and got["tanl"][i] == o.tanl
            if with_err and ok and reg[i]:
                ok = np.allclose(gerr[i], o.error, rtol=1e-8, atol=1e-9 * max(np.abs(o.error).max(), 1e-30))
            if reg[i] and not ok:
                chk.failing_input("track of a helix array after change_pivot vs the single-track object", dict(desc(), track=i), {k: float(got[k][i]) for k in ("dr", "phi0", "dz")}, {"dr": o.dr, "phi0": o.phi0, "dz": o.dz},
                                  "each track gives exactly what the single-track helix object gives for that track alone")
                return
        # input not modified, and a second call gives the same answer
        after = {k: ak.to_numpy(ak.flatten(arr[k], axis=None)) for k in before}
        if any(not np.array_equal(before[k], after[k]) for k in before):
            k = [k for k in before if not np.array_equal(before[k], after[k])][0]
            chk.failing_input("input array after change_pivot", dict(desc(), field=k), after[k].tolist(), before[k].tolist(), "operations do not alter the array they are applied to (a later operation on it must still see its tracks)")
            return
        # ufunc-style attributes per track
        pos, mom = arr.position, arr.momentum
        px, py, pz = (ak.to_numpy(ak.flatten(pos[c], axis=None)) for c in "xyz")
        pt = ak.to_numpy(ak.flatten(mom.pt, axis=None)); ch = ak.to_numpy(ak.flatten(arr.charge, axis=None)); rad = ak.to_numpy(ak.flatten(arr.radius, axis=None))
        for i in range(n):
            o = objs[i]
            if not (hc.close(px[i], o.position.x) and hc.close(py[i], o.position.y) and hc.close(pz[i], o.position.z) and hc.close(pt[i], o.momentum.pt) and ch[i] == o.charge and hc.close(rad[i], o.radius)):
                chk.failing_input("position/momentum/charge/radius of a track in an array vs the single-track object", dict(desc(), track=i), [float(px[i]), float(py[i]), float(pz[i]), float(pt[i]), int(ch[i])], [o.position.x, o.position.y, o.position.z, o.momentum.pt, o.charge], "each track gives what the single-track object gives")
                return
        # permutation: reorder tracks (flat layout), results reorder the same way
        perm = rng.permutation(n)
        hp = {k: (v[perm] if isinstance(v, np.ndarray) else v) for k, v in h.items()}
        ap = hc.impl_arr(hp)
        rp = ap.change_pivot(common)
        r0 = hc.impl_arr(h).change_pivot(common)
        if not (np.allclose(ak.to_numpy(rp.dz), ak.to_numpy(r0.dz)[perm], rtol=0, atol=0) and np.array_equal(ak.to_numpy(rp.dr), ak.to_numpy(r0.dr)[perm])):
            chk.failing_input("change_pivot on a permuted track list", dict(desc(), permutation=perm.tolist()), ak.to_numpy(rp.dz).tolist(), ak.to_numpy(r0.dz)[perm].tolist(), "the result for one track does not depend on the order of the tracks")
            return
        # isclose: per-track verdicts, independent of the other tracks
        if with_err and n >= 2:
            E2 = E.copy(); j = int(rng.integers(0, n)); E2[j] = E2[j] * 1.5 + 1e-3
            other = hc.impl_arr(h, error=E2, nest=lv)
            verdict = ak.to_numpy(ak.flatten(arr.isclose(other), axis=None))
            import warnings
            with warnings.catch_warnings():
                warnings.simplefilter("ignore")
                want = np.array([bool(objs[i].isclose(pybes3.helix_obj(h["dr"][i], h["phi0"][i], h["kappa"][i], h["dz"][i], h["tanl"][i], pivot=tuple(h["piv"][i]), error=E2[i]))) for i in range(n)])
            if verdict.tolist() != want.tolist():
                chk.failing_input("HelixAwkwardArray.isclose per-track verdicts", dict(desc(), differing_track=j), verdict.tolist(), want.tolist(), "the closeness test gives for each track what the single-track helix gives for that track alone")
                return
        # closeness test in all three kinds, with and without error matrices (a record without one has no `error` field), the other helix
        # given about another pivot and one track perturbed: array verdict = record verdict = object verdict, per track
        if it % 3 == 0:
            import warnings
            k = int(rng.integers(0, n))
            h2 = {kk: (v.copy() if isinstance(v, np.ndarray) else v) for kk, v in h.items()}
            h2["dr"][k] += 0.125
            flat_a = hc.impl_arr(h, error=E if with_err else None)
            flat_b = hc.impl_arr(h2, error=E if with_err else None)
            with warnings.catch_warnings():
                warnings.simplefilter("ignore")
                try:
                    va = [bool(x) for x in ak.to_numpy(flat_a.isclose(flat_b))]
                    vr = [bool(flat_a[i].isclose(flat_b[i])) for i in range(n)]
                    vo = [bool(objs[i].isclose(pybes3.helix_obj(h2["dr"][i], h2["phi0"][i], h2["kappa"][i], h2["dz"][i], h2["tanl"][i], pivot=tuple(h2["piv"][i]), error=E[i] if with_err else None))) for i in range(n)]
                except Exception as ex:
                    chk.failing_input("isclose in object / record / array form", dict(desc(), with_error_matrix=bool(with_err), perturbed_track=k), f"{type(ex).__name__}: {ex}", "a verdict per track",
                                      "the closeness test gives for each track what the single-track helix object gives (the three container kinds agree)")
                    return
            chk.count(3 * n, key=f"isclose-{with_err}")
            if not (va == vr == vo) or vo[k] is True:
                chk.failing_input("isclose in object / record / array form", dict(desc(), with_error_matrix=bool(with_err), perturbed_track=k), {"array": va, "record": vr, "object": vo}, "equal verdicts, False for the perturbed track",
                                  "the closeness test gives for each track what the single-track helix object gives (the three container kinds agree)")
                return
        # a single record and sliced / indexed views
        if depth == 2 and n >= 2 and form != "array":
            view = arr[::-1]
            try:
                rv = view.change_pivot(common)
                back = ak.to_list(rv.dz)[::-1]
                full = ak.to_list(res.dz)
                ok = all(len(a) == len(b) and np.allclose(a, b, rtol=0, atol=0) for a, b in zip(back, full))
            except Exception as ex:
                ok, back = False, f"{type(ex).__name__}: {ex}"
            if not ok:
                chk.failing_input("change_pivot on a reversed view of the array", desc(), str(back)[:400], "same per-track results", "sliced/indexed views behave like the tracks they hold")
                return
            first = [i for i, c in enumerate(ak.num(arr.dr, axis=1)) if c > 0]
            if first:
                e0 = first[0]
                rec = arr[e0, 0].change_pivot(*common)
                k0 = int(sum(ak.num(arr.dr, axis=1)[:e0]))
                if not hc.close(float(rec.dz), got["dz"][k0], atol=1e-12 * (1 + abs(got["dz"][k0]))):
                    chk.failing_input("single record of the array vs the array result", dict(desc(), event=e0), float(rec.dz), float(got["dz"][k0]), "record and array forms agree")
                    return
    chk.sample({"tracks": 3, "nesting_counts": [[2, 0, 1]], "pivot_form": "array"})


def dtype_and_isolation(chk: core.Check, n_lists: int):
    """(a) parameter columns stored with an integer dtype (tracks on the reference point: dr = 0, integer-valued dz ...) with a
    common NON-integer pivot given as tuple / vector object: every track = the single-track object (which converts to float);
    (b) isolation: a track with NaN parameters (failed fit) in the array does not change the result of any other track."""
    import awkward as ak
    import pybes3
    import vector
    rng = np.random.default_rng(chk.seed + 707)
    for it in range(n_lists):
        n = int(rng.choice([1, 2, 3, 6]))
        h = hc.gen(rng, n, far=True)
        depth = int(rng.choice([1, 2, 2, 3]))
        lv = nest_counts(rng, n, depth)
        # ---- (a) integer-typed columns
        int_cols = [c for c in ("dr", "dz") if rng.random() < 0.7] or ["dr"]
        hi = dict(h)
        for c in int_cols:
            hi[c] = np.rint(h[c] * rng.choice([0, 1, 3])).astype(np.int64 if rng.random() < 0.6 else np.int32)
        piv = tuple(float(x) for x in (rng.uniform(-5, 5, 3) + 0.123))
        new = tuple(float(x) for x in (rng.uniform(-30, 30, 3) + 0.377))
        how = rng.choice(["tuple", "vector"])
        pv = piv if how == "tuple" else vector.obj(x=piv[0], y=piv[1], z=piv[2])
        desc = {"tracks": {k: np.asarray(hi[k]).tolist() for k in ("dr", "phi0", "kappa", "dz", "tanl")}, "integer_typed_columns": {c: str(hi[c].dtype) for c in int_cols},
                "pivot": piv, "pivot_form": str(how), "new_pivot": new, "nesting_counts": lv}
        try:
            arr = pybes3.helix_awk(dr=build(hi["dr"], lv), phi0=build(hi["phi0"], lv), kappa=build(hi["kappa"], lv), dz=build(hi["dz"], lv), tanl=build(hi["tanl"], lv), pivot=pv)
            res = arr.change_pivot(new if how == "tuple" else vector.obj(x=new[0], y=new[1], z=new[2]))
            got = {k: ak.to_numpy(ak.flatten(res[k], axis=None)).astype(float) for k in ("dr", "phi0", "dz")}
            gp = [ak.to_numpy(ak.flatten(arr.pivot[c], axis=None)).astype(float) for c in "xyz"]
            pos = [ak.to_numpy(ak.flatten(arr.position[c], axis=None)).astype(float) for c in "xyz"]
            rp = [ak.to_numpy(ak.flatten(res.pivot[c], axis=None)).astype(float) for c in "xyz"]
        except Exception as ex:
            chk.failing_input("helix_awk / change_pivot on integer-typed parameter columns raised", desc, f"{type(ex).__name__}: {ex}", "per-track results", "every array layout and dtype holding the tracks gives the single-track result")
            return
        chk.count(1, key=f"int-{it}")
        chk.hist("dtype_case", "+".join(int_cols))
        hreg = dict(hi, piv=np.array([piv] * n), new=np.array([new] * n), dr=np.asarray(hi["dr"], dtype=float))
        reg = hc.regular_mask(hreg)
        for i in range(n):
            o = pybes3.helix_obj(float(hi["dr"][i]), hi["phi0"][i], hi["kappa"][i], float(hi["dz"][i]), hi["tanl"][i], pivot=piv)
            o2 = o.change_pivot(new)
            sc = 1 + abs(hc.rho(hi["kappa"][i])) + 40 + abs(float(hi["dr"][i]))
            ok = all(gp[c][i] == piv[c] for c in range(3)) and all(rp[c][i] == new[c] for c in range(3))
            ok = ok and hc.close(pos[0][i], o.position.x) and hc.close(pos[1][i], o.position.y) and hc.close(pos[2][i], o.position.z)
            if reg[i]:
                ok = ok and hc.close(got["dr"][i], o2.dr, atol=1e-9 * sc) and hc.circ_close(got["phi0"][i], o2.phi0, 1e-9) and hc.close(got["dz"][i], o2.dz, atol=1e-9 * sc * (1 + abs(hi["tanl"][i])))
            if not ok:
                chk.failing_input("track of a helix array with integer-typed columns and a common non-integer pivot vs the single-track object", dict(desc, track=i),
                                  {"pivot": [float(gp[c][i]) for c in range(3)], "position": [float(pos[c][i]) for c in range(3)], "new_pivot": [float(rp[c][i]) for c in range(3)], "dr": float(got["dr"][i]), "phi0": float(got["phi0"][i]), "dz": float(got["dz"][i])},
                                  {"pivot": list(piv), "position": [o.position.x, o.position.y, o.position.z], "new_pivot": list(new), "dr": o2.dr, "phi0": o2.phi0, "dz": o2.dz},
                                  "each track gives exactly what the single-track helix object gives for that track alone, whatever dtype the columns have")
                return
        # ---- (b) a NaN track does not influence the others
        if n >= 2:
            j = int(rng.integers(0, n))
            hn = {k: (np.array(v, dtype=float, copy=True) if k != "piv" and k != "new" else v.copy()) for k, v in h.items()}
            bad_field = str(rng.choice(["phi0", "kappa", "dr", "pivot"]))
            if bad_field == "pivot":
                hn["piv"][j, 0] = np.nan
            else:
                hn[bad_field][j] = np.nan
            A = rng.normal(size=(n, 5, 5)); E = A @ A.transpose(0, 2, 1) * 1e-4
            tgt_form = str(rng.choice(["tuple", "array"]))
            def run(hh, keep):
                hk = {k: v[keep] for k, v in hh.items()}
                a = hc.impl_arr(hk, error=E[keep])
                if tgt_form == "tuple":
                    r = a.change_pivot(new)
                else:
                    r = a.change_pivot(ak.zip({"x": hk["new"][:, 0], "y": hk["new"][:, 1], "z": hk["new"][:, 2]}, with_name="Vector3D"))
                return np.column_stack([ak.to_numpy(r[k]) for k in ("dr", "phi0", "dz")]), ak.to_numpy(r.error)
            import warnings
            with warnings.catch_warnings():
                warnings.simplefilter("ignore")
                full, ferr = run(hn, np.arange(n))
                keep = np.array([i for i in range(n) if i != j])
                alone, aerr = run(hn, keep)
            chk.count(1, key=f"nan-{it}")
            chk.hist("nan_field", bad_field)
            if not (np.array_equal(full[keep], alone, equal_nan=True) and np.array_equal(ferr[keep], aerr, equal_nan=True)):
                k = int(np.nonzero(~np.all((full[keep] == alone) | (np.isnan(full[keep]) & np.isnan(alone)), axis=1))[0][0]) if not np.array_equal(full[keep], alone, equal_nan=True) else 0
                chk.failing_input("tracks of an array that also holds a NaN track vs the same tracks without it",
                                  {"tracks": {kk: hn[kk].tolist() for kk in ("dr", "phi0", "kappa", "dz", "tanl")}, "pivots": hn["piv"].tolist(), "nan_track": j, "nan_field": bad_field, "new_pivot": new if tgt_form == "tuple" else hn["new"].tolist()},
                                  full[keep][k].tolist(), alone[k].tolist(), "the result for one track does not depend on the other tracks in the array")
                return


def main(chk: core.Check) -> int:
    thorough = chk.tier == "thorough"
    chk.coverage["rule"] = "evaluations = generated layouts (depth 1-4, empty lists) through _extract_index/flatten vs the Lean model, plus track lists in generated layouts x pivot forms compared per track with helix_obj"
    chk.assumptions += ["awkward's own layout transformations (unflatten, slicing, zip) are third-party and only exercised; masked / union layouts are not generated",
                        "float results compared at 1e-9 relative to the track scale; branch-boundary inputs excluded as in C06"]
    hc.regen(chk)
    chk.prove(modules=["C07", "Nested", "HelixTie", "HelixTie2", "AwkTie"])
    try:
        diffs = layouts_vs_model(chk, 1500 if thorough else 250)
        chk.coverage["traces_validated_against_impl"] = chk.evals
        if diffs:
            chk.obligation_broken("correspondence", "Lean Nested model vs _extract_index / flatten", str(diffs[:3]))
    except core.DriverError as ex:
        chk.obligation_broken("correspondence", "Nested driver", str(ex))
    try:
        per_track(chk, 1200 if thorough else 150)
        if not chk.failing:
            dtype_and_isolation(chk, 600 if thorough else 80)
        if not chk.failing:
            exact_half_turn(chk)
        if not chk.failing:
            deep_views_and_pivot_kinds(chk)
    except Exception as ex:
        import traceback
        chk.obligation_broken("correspondence", "per-track harness", f"{type(ex).__name__}: {ex}\n{traceback.format_exc()[-1800:]}")
    return chk.finish(None)
