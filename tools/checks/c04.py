"""C04 — raw reads depend only on content and selection, and always terminate (DESIGN.md section 6/C04).

model  : Model/RawReader.lean (batch loop, pool with arbitrary completion order, gather in submission order, cursor reset)
proof  : Props/C04.lean (termination within N+2 iterations, batch/schedule invariance, prefix, idempotence) using
         Props/C03b.lean (expected_append: decoding distributes over block concatenation; expectedEvent_selection)
tie    : real RawBinaryReader.arrays on synthetic files over a grid n_blocks x per_batch x workers x selections x call
         histories, completion order perturbed by seeded sleeps in the decoding tasks; every call in a child process
         under a watchdog (a stall is the model's out-of-fuel); observed batch sizes and result vs the Lean driver
oracle : the full single-batch single-worker read
"""
from __future__ import annotations

import json
import os
import random
import subprocess
import tempfile

from checks import raw_common as rc
from lib import core, native, rawfile as rf

ALL = ["mdc", "tof", "emc", "muc", "trg", "ef"]


def project(recs, sel):
    sel = sel or rf.DEFAULT_SEL
    return [{"evt_header": r["evt_header"], **{s: r[s] for s in sel}} for r in recs]


def main(chk: core.Check) -> int:
    thorough = chk.tier == "thorough"
    rng = random.Random(f"C04-{chk.seed}")
    chk.coverage["rule"] = "evaluations = arrays()/concatenate_raw calls on synthetic files; distinct_nontrivial = distinct (file, configuration) pairs"
    chk.assumptions += ["real thread interleavings are only sampled (seeded sleeps make later batches finish first); absence of data races in the C++ object rests on each call owning its parser",
                        "decoding runs through the native build of the working-tree C++ (ctypes releases the GIL, as the extension does)"]
    chk.prove(modules=["C04", "C03b", "C03File"])
    native.build("libraw_native")
    tmpd = tempfile.mkdtemp(prefix="c04-")
    try:
        files, plan = [], {"seed": chk.seed, "files": []}
        n_files = 10 if thorough else 4
        for fi in range(n_files):
            nblk = [0, 1, 5, 40, 8, 2, 12, 4, 6, 7][fi % 10]
            blocks = []
            ev = 0
            for _ in range(nblk):
                k = rng.choice([1, 1, 2, 3])
                blocks.append([rf.gen_event(rng, ev + j) for j in range(k)])
                ev += k
            path = os.path.join(tmpd, f"f{fi}.raw")
            open(path, "wb").write(rf.enc_file(blocks))
            N = len(blocks)
            calls = []
            nbs = sorted({-1, 0, 1, max(N - 1, 0), N, N + 1, 2 * N + 5} | ({2, 3} if thorough else set()))
            pbs = [1, 2, 3, max(N, 1), N + 1, 1000]
            for nb in nbs:
                for pb in (pbs if thorough else rng.sample(pbs, 3)):
                    workers = rng.choice([1, 2, 4, 16])
                    sel = rng.choice([None, None] + [rng.sample(ALL, k) for k in (1, 2, 3, 6)])
                    delays = [rng.choice([0, 0.0, 0.004, 0.012]) for _ in range(6)] if workers > 1 else []
                    calls.append({"n_blocks": nb, "per_batch": pb, "workers": workers, "sel": sel, "delays": delays})
            if N >= 20:
                # many batches in flight, the FIRST decoding task is the slowest: completion order != submission order
                for w in (2, 4, 16):
                    calls.append({"n_blocks": -1, "per_batch": 1, "workers": w, "sel": None, "delays": [0.25] + [0.0] * 63})
                calls.append({"n_blocks": N - 3, "per_batch": 2, "workers": 4, "sel": ["emc", "trg"], "delays": [0.2, 0.0, 0.05] + [0.0] * 61})
            for hk in range(6 if thorough else 3):
                hist = [{"n_blocks": rng.choice(nbs), "per_batch": rng.choice(pbs)} for _ in range(rng.randint(2, 4))]
                if hk % 2 == 0:
                    # a rejected call (mistyped sub-detector name) in the middle of the history
                    hist.insert(rng.randint(1, len(hist) - 1), {"n_blocks": -1, "per_batch": 3, "bad_sel": ["mdc", "tofx"]})
                calls.append({"history": hist, "workers": rng.choice([1, 4]), "sel": rng.choice([None, ["mdc", "emc"]]), "per_batch": 0, "n_blocks": 0})
            plan["files"].append({"id": fi, "path": path, "calls": calls})
            files.append((path, blocks))
        # concatenation of files
        plan["files"][0]["calls"].append({"concat": [p for p, _ in files[:3]], "per_batch": 2, "workers": 2, "sel": None, "n_blocks": -1})
        plan_path = os.path.join(tmpd, "plan.json")
        json.dump(plan, open(plan_path, "w"))
        proc = subprocess.Popen([core.PY, str(core.VERIF / "tools" / "checks" / "c04_child.py"), str(core.VERIF / "tools"), plan_path],
                                stdout=subprocess.PIPE, stderr=subprocess.PIPE, text=True)
        import select
        last_start, results = None, []
        stalled = False
        while True:
            r, _, _ = select.select([proc.stdout], [], [], 60)
            if not r:
                stalled = True
                proc.kill()
                break
            line = proc.stdout.readline()
            if not line or line.startswith("END"):
                break
            if line.startswith("START "):
                last_start = json.loads(line[6:])
            elif line.startswith("DONE "):
                results.append(json.loads(line[5:]))
        if stalled:
            cfg = {k: v for k, v in last_start.items() if k != "delays"}
            N = len(files[last_start["file"]][1])
            chk.failing_input("RawBinaryReader.arrays did not return within 60 s", {"blocks_in_file": N, **cfg}, "no result (call still running)", "terminates",
                              "every such call terminates")
        else:
            err = proc.stderr.read()
            if proc.wait() != 0 and not results:
                raise core.Infra("C04 child failed: " + err[-1500:])
        # ---- judge
        model_lines, model_cfgs = [], []
        for res in results:
            path, blocks = files[res["file"]]
            N = len(blocks)
            events = [e for b in blocks for e in b]
            full = rf.expected(events, ALL)
            chk.count(1, key=json.dumps({k: res.get(k) for k in ("file", "n_blocks", "per_batch", "workers", "sel", "history", "concat")}, sort_keys=True))
            if "error" in res:
                chk.failing_input("RawBinaryReader.arrays raised", {k: res.get(k) for k in ("n_blocks", "per_batch", "workers", "sel", "history")} | {"blocks_in_file": N}, res["error"], "an array", "every such call returns the events of the requested blocks")
                continue

            def want_for(nb, sel):
                k = N if nb == -1 else min(max(nb, 0), N)
                evs = [e for b in blocks[:k] for e in b]
                return project(rf.expected(evs, ALL), sel)
            if res.get("history"):
                for h, got in zip(res["history"], res["results"]):
                    if h.get("bad_sel"):
                        if got != "raised":
                            chk.failing_input("arrays() with an invalid sub-detector name", {"history": res["history"]}, got, "an exception", "invalid selection is rejected")
                        continue
                    if got != want_for(h["n_blocks"], res.get("sel")):
                        chk.failing_input("sequence of arrays() calls on one reader", {"blocks_in_file": N, "history": res["history"], "sub_detectors": res.get("sel")}, f"{len(got)} events", f"{len(want_for(h['n_blocks'], res.get('sel')))} events (first n blocks of the full read)", "reading the same reader again returns the same events")
                        break
                chk.hist("call_kind", "history")
                continue
            if res.get("concat"):
                want = []
                for p in res["concat"]:
                    bl = dict(files)[p]
                    want += project(rf.expected([e for b in bl for e in b], ALL), None)
                if res["result"] != want:
                    chk.failing_input("concatenate_raw", {"files": len(res["concat"])}, f"{len(res['result'])} events", f"{len(want)} events", "concatenating files returns the same events in the same order")
                chk.hist("call_kind", "concatenate")
                continue
            want = want_for(res["n_blocks"], res.get("sel"))
            chk.hist("call_kind", "single")
            chk.hist("n_blocks_vs_N", "minus1" if res["n_blocks"] == -1 else ("gtN" if res["n_blocks"] > N else "leN"))
            chk.hist("workers", res["workers"])
            if res["result"] != want:
                got_ids = [r["evt_header"]["evt_no"] for r in res["result"]]
                chk.failing_input("RawBinaryReader.arrays", {"blocks_in_file": N, "events_per_block": [len(b) for b in blocks], "n_blocks": res["n_blocks"], "n_block_per_batch": res["per_batch"], "max_workers": res["workers"], "sub_detectors": res.get("sel"), "task_delays_s": res.get("delays")},
                                  {"event_numbers": got_ids}, {"event_numbers": [r["evt_header"]["evt_no"] for r in want]},
                                  "identical for every batch size and worker count; first n blocks of the full read; selected fields of the full read")
                continue
            model_lines.append(f"{N} {res['per_batch']} {res['n_blocks']} 0")
            model_cfgs.append((res, N, blocks))
        if model_lines:
            try:
                out = core.lean_run("Driver/RawReader.lean", "\n".join(model_lines) + "\n")
                diffs = []
                for ml, (res, N, blocks) in zip(out, model_cfgs):
                    if res["n_blocks"] < -1:
                        continue
                    mb = [int(x) for x in ml.split()[0][len("batches="):].split(",") if x]
                    mres = [int(x) for x in ml.split()[1][len("result="):].split(",") if x]
                    want_ev = [e.header[1] for bi in mres for e in blocks[bi]]
                    got_ev = [r["evt_header"]["evt_no"] for r in res["result"]]
                    if sorted(res["batches"]) != sorted(mb + ([0] if not mb else [])) and sorted(res["batches"]) != sorted(mb):
                        diffs.append({"cfg": {k: res[k] for k in ("n_blocks", "per_batch")}, "N": N, "model_batches": mb, "observed_batches": res["batches"]})
                    elif want_ev != got_ev:
                        diffs.append({"cfg": {k: res[k] for k in ("n_blocks", "per_batch")}, "N": N, "model_result_blocks": mres})
                chk.coverage["traces_validated_against_impl"] = len(model_lines)
                if diffs:
                    chk.obligation_broken("correspondence", "Lean reader-loop model vs RawBinaryReader.arrays (batches / result)", str(diffs[:3]))
            except core.DriverError as ex:
                chk.obligation_broken("correspondence", "RawReader driver", str(ex))
        if results:
            chk.sample({k: results[3].get(k) for k in ("file", "n_blocks", "per_batch", "workers", "sel", "batches")})
    finally:
        import shutil
        shutil.rmtree(tmpd, ignore_errors=True)
    return chk.finish(None)
