"""C04 — raw reads depend only on content and selection, and always terminate (DESIGN.md section 6/C04).

model  : Model/RawReader.lean (batch loop, pool with arbitrary completion order, gather in submission order, cursor reset)
proof  : Props/C04.lean (termination within N+2 iterations, batch/schedule invariance, prefix, idempotence) using
         Props/C03b.lean (expected_append: decoding distributes over block concatenation; expectedEvent_selection)
tie    : real RawBinaryReader.arrays on synthetic files over a grid n_blocks x per_batch x workers x selections x call
         histories, completion order perturbed by seeded sleeps in the decoding tasks; every call in a child process
         under a watchdog (a stall is the model's out-of-fuel); observed batch sizes and result vs the Lean driver
oracle : the full single-batch single-worker read
"""
from __future__ import annotations

import json
import os
import random
import subprocess
import tempfile

from checks import raw_common as rc
from lib import core, native, rawfile as rf

ALL = ["mdc", "tof", "emc", "muc", "trg", "ef"]


def project(recs, sel):
    sel = sel or rf.DEFAULT_SEL
    return [{"evt_header": r["evt_header"], **{s: r[s] for s in sel}} for r in recs]


def main(chk: core.Check) -> int:
    thorough = chk.tier == "thorough"
    rng = random.Random(f"C04-{chk.seed}")
    chk.coverage["rule"] = "evaluations = arrays()/concatenate_raw calls on synthetic files; distinct_nontrivial = distinct (file, configuration) pairs"
    chk.assumptions += ["real thread interleavings are only sampled (seeded sleeps make later batches finish first); absence of data races in the C++ object rests on each call owning its parser",
                        "decoding runs through the native build of the working-tree C++ (ctypes releases the GIL, as the extension does)"]
    rc.regen(chk)
    _entry = ["EntryTie"] if core.regen_entry(chk) else []
    chk.prove(modules=["C04", "C03b", "C03File", "RawPyTie"] + _entry)
    native.build("libraw_native")
    tmpd = tempfile.mkdtemp(prefix="c04-")
    try:
        files, plan = [], {"seed": chk.seed, "files": []}
        n_files = 10 if thorough else 4
        for fi in range(n_files):
            nblk = [0, 1, 5, 40, 8, 2, 12, 4, 6, 7][fi % 10]
            blocks = []
            ev = 0
            for _ in range(nblk):
                k = rng.choice([1, 1, 2, 3])
                blocks.append([rf.gen_event(rng, ev + j) for j in range(k)])
                ev += k
            path = os.path.join(tmpd, f"f{fi}.raw")
            open(path, "wb").write(rf.enc_file(blocks))
            N = len(blocks)
            calls = []
            nbs = sorted({-1, 0, 1, max(N - 1, 0), N, N + 1, 2 * N + 5} | ({2, 3} if thorough else set()))
            pbs = [1, 2, 3, max(N, 1), N + 1, 1000]
            for nb in nbs:
                for pb in (pbs if thorough else rng.sample(pbs, 3)):
                    workers = rng.choice([1, 2, 4, 16])
                    sel = rng.choice([None, None] + [rng.sample(ALL, k) for k in (1, 2, 3, 6)])
                    delays = [rng.choice([0, 0.0, 0.004, 0.012]) for _ in range(6)] if workers > 1 else []
                    calls.append({"n_blocks": nb, "per_batch": pb, "workers": workers, "sel": sel, "delays": delays})
            if N >= 20:
                # many batches in flight, the FIRST decoding task is the slowest: completion order != submission order
                for w in (2, 4, 16):
                    calls.append({"n_blocks": -1, "per_batch": 1, "workers": w, "sel": None, "delays": [0.25] + [0.0] * 63})
                calls.append({"n_blocks": N - 3, "per_batch": 2, "workers": 4, "sel": ["emc", "trg"], "delays": [0.2, 0.0, 0.05] + [0.0] * 61})
            for hk in range(6 if thorough else 3):
                hist = [{"n_blocks": rng.choice(nbs), "per_batch": rng.choice(pbs)} for _ in range(rng.randint(2, 4))]
                if hk % 2 == 0:
                    # a rejected call (mistyped sub-detector name) in the middle of the history
                    hist.insert(rng.randint(1, len(hist) - 1), {"n_blocks": -1, "per_batch": 3, "bad_sel": ["mdc", "tofx"]})
                calls.append({"history": hist, "workers": rng.choice([1, 4]), "sel": rng.choice([None, ["mdc", "emc"]]), "per_batch": 0, "n_blocks": 0})
            plan["files"].append({"id": fi, "path": path, "calls": calls})
            files.append((path, blocks))
        # concatenation of files: in list order (not sorted), a file named twice, the same file under a second name (symlink)
        plan["files"][0]["calls"].append({"concat": [p for p, _ in files[:3]], "per_batch": 2, "workers": 2, "sel": None, "n_blocks": -1})
        link = os.path.join(tmpd, "a_link_to_f1.raw")
        os.symlink(files[1][0], link)
        files.append((link, files[1][1]))
        plan["files"][0]["calls"].append({"concat": [files[2][0], link, files[0][0], files[2][0], files[1][0], files[3][0]], "per_batch": 3, "workers": 2, "sel": None, "n_blocks": -1})
        plan["files"][0]["calls"].append({"concat": [files[3][0], files[1][0]], "per_batch": 1000, "workers": 1, "sel": ["emc"], "n_blocks": -1})
        plan_path = os.path.join(tmpd, "plan.json")
        json.dump(plan, open(plan_path, "w"))
        proc = subprocess.Popen([core.PY, str(core.VERIF / "tools" / "checks" / "c04_child.py"), str(core.VERIF / "tools"), plan_path],
                                stdout=subprocess.PIPE, stderr=subprocess.PIPE, text=True)
        import select
        last_start, results = None, []
        stalled = False
        while True:
            r, _, _ = select.select([proc.stdout], [], [], 60)
            if not r:
                stalled = True
                proc.kill()
                break
            line = proc.stdout.readline()
            if not line or line.startswith("END"):
                break
            if line.startswith("START "):
                last_start = json.loads(line[6:])
            elif line.startswith("DONE "):
                results.append(json.loads(line[5:]))
        if stalled:
            cfg = {k: v for k, v in last_start.items() if k != "delays"}
            N = len(files[last_start["file"]][1])
            chk.failing_input("RawBinaryReader.arrays did not return within 60 s", {"blocks_in_file": N, **cfg}, "no result (call still running)", "terminates",
                              "every such call terminates")
        else:
            err = proc.stderr.read()
            if proc.wait() != 0 and not results:
                raise core.Infra("C04 child failed: " + err[-1500:])
        # ---- judge
        model_lines, model_cfgs = [], []
        for res in results:
            path, blocks = files[res["file"]]
            N = len(blocks)
            events = [e for b in blocks for e in b]
            full = rf.expected(events, ALL)
            chk.count(1, key=json.dumps({k: res.get(k) for k in ("file", "n_blocks", "per_batch", "workers", "sel", "history", "concat")}, sort_keys=True))
            if "error" in res:
                chk.failing_input("RawBinaryReader.arrays raised", {k: res.get(k) for k in ("n_blocks", "per_batch", "workers", "sel", "history")} | {"blocks_in_file": N}, res["error"], "an array", "every such call returns the events of the requested blocks")
                continue

            def want_for(nb, sel):
                k = N if nb == -1 else min(max(nb, 0), N)
                evs = [e for b in blocks[:k] for e in b]
                return project(rf.expected(evs, ALL), sel)
            if res.get("history"):
                for h, got in zip(res["history"], res["results"]):
                    if h.get("bad_sel"):
                        if got != "raised":
                            chk.failing_input("arrays() with an invalid sub-detector name", {"history": res["history"]}, got, "an exception", "invalid selection is rejected")
                        continue
                    if got != want_for(h["n_blocks"], res.get("sel")):
                        chk.failing_input("sequence of arrays() calls on one reader", {"blocks_in_file": N, "history": res["history"], "sub_detectors": res.get("sel")}, f"{len(got)} events", f"{len(want_for(h['n_blocks'], res.get('sel')))} events (first n blocks of the full read)", "reading the same reader again returns the same events")
                        break
                chk.hist("call_kind", "history")
                continue
            if res.get("concat"):
                want = []
                for p in res["concat"]:
                    bl = dict(files)[p]
                    want += project(rf.expected([e for b in bl for e in b], ALL), None)
                want = project(want, res.get("sel")) if res.get("sel") else want
                if res["result"] != want:
                    chk.failing_input("concatenate_raw", {"files": [os.path.basename(p) for p in res["concat"]], "n_block_per_batch": res.get("per_batch"), "sub_detectors": res.get("sel")},
                                      {"event_numbers": [r["evt_header"]["evt_no"] for r in res["result"]]}, {"event_numbers": [r["evt_header"]["evt_no"] for r in want]},
                                      "concatenating files returns the same events in the same order (the order of the list, every listed file once per mention)")
                chk.hist("call_kind", "concatenate")
                continue
            want = want_for(res["n_blocks"], res.get("sel"))
            chk.hist("call_kind", "single")
            chk.hist("n_blocks_vs_N", "minus1" if res["n_blocks"] == -1 else ("gtN" if res["n_blocks"] > N else "leN"))
            chk.hist("workers", res["workers"])
            if res["result"] != want:
                got_ids = [r["evt_header"]["evt_no"] for r in res["result"]]
                chk.failing_input("RawBinaryReader.arrays", {"blocks_in_file": N, "events_per_block": [len(b) for b in blocks], "n_blocks": res["n_blocks"], "n_block_per_batch": res["per_batch"], "max_workers": res["workers"], "sub_detectors": res.get("sel"), "task_delays_s": res.get("delays")},
                                  {"event_numbers": got_ids}, {"event_numbers": [r["evt_header"]["evt_no"] for r in want]},
                                  "identical for every batch size and worker count; first n blocks of the full read; selected fields of the full read")
                continue
            model_lines.append(f"{N} {res['per_batch']} {res['n_blocks']} 0")
            model_cfgs.append((res, N, blocks))
        if model_lines:
            try:
                out = core.lean_run("Driver/RawReader.lean", "\n".join(model_lines) + "\n")
                diffs = []
                for ml, (res, N, blocks) in zip(out, model_cfgs):
                    if res["n_blocks"] < -1:
                        continue
                    mb = [int(x) for x in ml.split()[0][len("batches="):].split(",") if x]
                    mres = [int(x) for x in ml.split()[1][len("result="):].split(",") if x]
                    want_ev = [e.header[1] for bi in mres for e in blocks[bi]]
                    got_ev = [r["evt_header"]["evt_no"] for r in res["result"]]
                    if sorted(res["batches"]) != sorted(mb + ([0] if not mb else [])) and sorted(res["batches"]) != sorted(mb):
                        diffs.append({"cfg": {k: res[k] for k in ("n_blocks", "per_batch")}, "N": N, "model_batches": mb, "observed_batches": res["batches"]})
                    elif want_ev != got_ev:
                        diffs.append({"cfg": {k: res[k] for k in ("n_blocks", "per_batch")}, "N": N, "model_result_blocks": mres})
                chk.coverage["traces_validated_against_impl"] = len(model_lines)
                if diffs:
                    chk.obligation_broken("correspondence", "Lean reader-loop model vs RawBinaryReader.arrays (batches / result)", str(diffs[:3]))
            except core.DriverError as ex:
                chk.obligation_broken("correspondence", "RawReader driver", str(ex))
        if results:
            chk.sample({k: results[3].get(k) for k in ("file", "n_blocks", "per_batch", "workers", "sel", "batches")})
        if not chk.failing:
            concurrent_decode(chk, rng, rounds=60 if thorough else 12)
            if thorough:
                tsan_decode(chk, rng)
    finally:
        import shutil
        shutil.rmtree(tmpd, ignore_errors=True)
    return chk.finish(None)


def _batches_for_threads(rng, n_threads, events_per_batch):
    """one batch of words per thread; all ROB payloads of comparable length so that a shared buffer is overwritten, not reallocated"""
    import numpy as np
    out = []
    ev = 0
    for _ in range(n_threads):
        evs = [rf.gen_event(rng, ev + j) for j in range(events_per_batch)]
        ev += events_per_batch
        data = rf.enc_file([evs])
        words = np.frombuffer(data, dtype="<u4")
        # the data region of the file: from the first block separator to the 10-word tail
        start = int(np.nonzero(words == rf.DATA_SEP)[0][0])
        out.append((np.ascontiguousarray(words[start:len(words) - 10]), evs))
    return out


def concurrent_decode(chk, rng, rounds: int, n_threads: int = 8):
    """Decoding calls that really overlap in time (ctypes releases the GIL exactly as the extension does): every thread decodes its own
    batch with its own parser, all released together by a barrier; each result must equal that batch's sequential decode.
    State shared between parser instances (a static scratch buffer, a shared table) shows up as a mismatch or a crash.
    Runs in a child process so that a crash of the decoder is a verdict, not a dead harness."""
    seed = rng.getrandbits(32)
    code = f"""
import sys, json, random
sys.path.insert(0, {str(core.VERIF / 'tools')!r})
from checks import c04
print(json.dumps(c04._concurrent_child({seed}, {rounds}, {n_threads})))
"""
    p = subprocess.run([core.PY, "-c", code], capture_output=True, text=True, timeout=1200)
    chk.count(rounds * n_threads, key="concurrent")
    chk.coverage["concurrent_decode_rounds"] = rounds
    inp = {"threads": n_threads, "events_per_batch": 60, "rounds": rounds, "generator_seed": seed}
    if p.returncode != 0:
        sig = f"signal {-p.returncode}" if p.returncode < 0 else f"exit {p.returncode}"
        if p.returncode < 0 or "Segmentation" in p.stderr or "double free" in p.stderr or "corrupt" in p.stderr or "malloc" in p.stderr:
            chk.failing_input("decoding calls overlapping in time (one parser per call, 8 threads released together)", inp, f"the decoding process died ({sig}): {p.stderr[-300:]}",
                              "the sequential decode of every batch", "the array returned is identical for every worker-thread count; the call terminates normally")
            return
        raise core.Infra("concurrent-decode child failed: " + p.stderr[-1500:])
    res = json.loads(p.stdout.strip().splitlines()[-1])
    if res["bad"]:
        chk.failing_input("decoding calls overlapping in time (one parser per call, 8 threads released together)", {**inp, "round": res["bad"][0], "batches_that_differ": res["bad"][1]},
                          res["bad"][2], "the sequential decode of the same batch", "the array returned is identical for every worker-thread count (each call owns its parser; nothing is shared between calls)")


def _concurrent_child(seed, rounds, n_threads):
    import threading
    rng = random.Random(seed)
    batches = _batches_for_threads(rng, n_threads, 60)
    ref = [json.dumps(_to_plain(native.native_read_bes_raw(words, None)), sort_keys=True) for words, _ in batches]
    bad = None
    for rd in range(rounds):
        got = [None] * n_threads
        bar = threading.Barrier(n_threads)

        def work(i):
            bar.wait()
            try:
                got[i] = json.dumps(_to_plain(native.native_read_bes_raw(batches[i][0], None)), sort_keys=True)
            except Exception as ex:
                got[i] = f"raised {type(ex).__name__}: {ex}"
        ths = [threading.Thread(target=work, args=(i,)) for i in range(n_threads)]
        [t.start() for t in ths]
        [t.join() for t in ths]
        wrong = [i for i in range(n_threads) if got[i] != ref[i]]
        if wrong:
            bad = (rd, wrong, got[wrong[0]][:300])
            break
    return {"bad": bad}


def _to_plain(res):
    out = {}
    for k, v in res.items():
        if isinstance(v, dict):
            out[k] = {n: a.tolist() for n, a in v.items()}
        else:
            o, d = v
            out[k] = [o.tolist(), ({n: a.tolist() for n, a in d.items()} if isinstance(d, dict) else d.tolist())]
    return out


def tsan_decode(chk, rng):
    """thorough tier: the same overlap under ThreadSanitizer (a data race between parser instances is reported even when the outputs happen to agree)"""
    import numpy as np
    exe = native.build("raw_tsan")
    batches = _batches_for_threads(rng, 8, 40)
    blob = bytearray()
    import struct
    for words, _ in batches:
        blob += struct.pack("<II", len(words), 0) + np.asarray(words, dtype=np.uint32).tobytes()
    p = subprocess.run([str(exe), "6"], input=bytes(blob), capture_output=True, timeout=900, env=dict(os.environ, TSAN_OPTIONS="halt_on_error=0:report_signal_unsafe=0"))
    err = p.stderr.decode(errors="replace")
    chk.count(8 * 6, key="tsan")
    chk.coverage["tsan_run"] = {"exit": p.returncode, "races_reported": err.count("WARNING: ThreadSanitizer: data race")}
    if "ThreadSanitizer: data race" in err or p.returncode not in (0,):
        first = err[err.find("WARNING: ThreadSanitizer"):][:1200] if "ThreadSanitizer" in err else (p.stdout.decode(errors="replace")[-400:] + err[-400:])
        chk.failing_input("concurrent decoding under ThreadSanitizer (native build of the working tree)", {"threads": 8, "rounds": 6}, first, "no data race between parser instances, outputs equal to the sequential decode",
                          "identical for every worker-thread count: calls must not share mutable state")
