"""C13 — helix position/momentum follow the documented formulas and round-trip (DESIGN.md section 6/C13).

model  : Model/Helix.lean (position, momentum, charge, radius, fromPhysics), hand-written
proof  : Props/C13.lean over the reals
tie    : Lean Float model <-> HelixObject / record / array on generated helices with non-zero pivots
oracle : the documented formulas evaluated directly + the construct-from-own-report round trip
"""
from __future__ import annotations

import math

import numpy as np

from checks import helix_common as hc
from lib import core


def run(chk: core.Check, n: int):
    import awkward as ak
    import pybes3
    import vector
    rng = np.random.default_rng(chk.seed + 13)
    h = hc.gen(rng, n)
    # keep kappa outside the 1e-10 dead zone (it is by construction) and phi0 in [0, 2pi)
    pos_m = hc.model_lines("pos", np.column_stack([h["dr"], h["phi0"], h["kappa"], h["dz"], h["tanl"], h["piv"]]))
    mom_m = hc.model_lines("mom", np.column_stack([h["dr"], h["phi0"], h["kappa"], h["dz"], h["tanl"]]))
    arr = hc.impl_arr(h)
    apos, amom = arr.position, arr.momentum
    acharge, aradius = ak.to_numpy(arr.charge), ak.to_numpy(arr.radius)
    mism = []

    def bad(what, i, got, want, oracle):
        inp = {k: (h[k][i].tolist() if hasattr(h[k][i], "tolist") else float(h[k][i])) for k in ("dr", "phi0", "kappa", "dz", "tanl", "piv")}
        chk.failing_input(what, inp, got, want, oracle)

    doc = "documented formula (docs/user-manual/helix.md)"
    for i in range(n):
        o = pybes3.helix_obj(h["dr"][i], h["phi0"][i], h["kappa"][i], h["dz"][i], h["tanl"][i], pivot=tuple(h["piv"][i]))
        p, m = o.position, o.momentum
        want_pos = [h["piv"][i][0] + h["dr"][i] * math.cos(h["phi0"][i]), h["piv"][i][1] + h["dr"][i] * math.sin(h["phi0"][i]), h["piv"][i][2] + h["dz"][i]]
        pt = 1 / abs(h["kappa"][i])
        got_pos = [p.x, p.y, p.z]
        chk.count(1, key="object")
        if not all(hc.close(got_pos, want_pos)):
            bad("HelixObject.position", i, got_pos, want_pos, doc); break
        if not all(hc.close([m.pt, m.pz], [pt, pt * h["tanl"][i]])) or not hc.circ_close(m.phi, h["phi0"][i] + math.pi / 2, 1e-9):
            bad("HelixObject.momentum", i, [m.pt, m.phi, m.pz], [pt, (h["phi0"][i] + math.pi / 2) % hc.TWO_PI, pt * h["tanl"][i]], doc); break
        if o.charge != (1 if h["kappa"][i] > 0 else -1) or not hc.close(o.radius, hc.ALPHA * pt):
            bad("HelixObject.charge/radius", i, [o.charge, o.radius], [int(np.sign(h["kappa"][i])), hc.ALPHA * pt], doc); break
        # model agreement
        if not all(hc.close(got_pos, pos_m[i])) or not all(hc.close([m.pt, m.pz, o.charge, o.radius], [mom_m[i][0], mom_m[i][2], mom_m[i][3], mom_m[i][4]])) \
                or not hc.circ_close(m.phi, mom_m[i][1], 1e-9):
            mism.append({"track": i, "impl": got_pos + [m.pt, m.phi, m.pz], "model": list(pos_m[i]) + list(mom_m[i])})
        # array / record agree with object
        ga = [float(apos.x[i]), float(apos.y[i]), float(apos.z[i])]
        if not all(hc.close(ga, got_pos)) or not all(hc.close([float(amom.pt[i]), float(amom.pz[i])], [m.pt, m.pz])) or acharge[i] != o.charge or not hc.close(aradius[i], o.radius):
            bad("helix array vs object (position/momentum/charge/radius)", i, ga, got_pos, "the three container kinds agree"); break
        if i % 7 == 0:
            rec = arr[i]
            rp = rec.position
            if not all(hc.close([float(rp.x), float(rp.y), float(rp.z)], got_pos)) or int(rec.charge) != o.charge:
                bad("helix record vs object", i, [float(rp.x), float(rp.y), float(rp.z)], got_pos, "the three container kinds agree"); break
        # round trip through (position, momentum, charge, pivot)
        o2 = pybes3.helix_obj(momentum=m, position=p, charge=o.charge, pivot=tuple(h["piv"][i]))
        got = [o2.dr, o2.phi0, o2.kappa, o2.dz, o2.tanl]
        want = [h["dr"][i], h["phi0"][i], h["kappa"][i], h["dz"][i], h["tanl"][i]]
        scale = 1 + np.abs(h["piv"][i]).max()
        ok = hc.close(got[0], want[0], atol=1e-9 * scale) and (hc.circ_close(got[1], want[1], 1e-9)) and all(hc.close(got[2:], want[2:], atol=1e-9 * scale))
        # the sign of a dr that is below the rounding error of the position cannot be recovered (nor does it matter)
        if not ok and abs(want[0]) < 1e-12 * scale and hc.close(abs(got[0]), abs(want[0]), atol=1e-9 * scale):
            ok = True
        if not ok:
            bad("helix_obj(momentum, position, charge, pivot) round trip", i, got, want, "constructing a helix from its own report reproduces it"); break
        if i % 4 == 0:
            # history: the reports of a helix were read, then it is moved: the moved helix reports ITS position / momentum (formulas on its own
            # parameters), and rebuilding it from its own report reproduces it
            _ = (o.position, o.momentum, o.radius, o.charge)
            npv = tuple(float(x) for x in (h["piv"][i] + rng.uniform(0.5, 3.0, 3)))
            g = o.change_pivot(npv)
            gp, gm = g.position, g.momentum
            wantg = [npv[0] + g.dr * math.cos(g.phi0), npv[1] + g.dr * math.sin(g.phi0), npv[2] + g.dz]
            okg = all(hc.close([gp.x, gp.y, gp.z], wantg, atol=1e-9 * (1 + max(abs(x) for x in npv)))) and hc.circ_close(gm.phi, g.phi0 + math.pi / 2, 1e-9) and hc.close(g.radius, hc.ALPHA / abs(g.kappa))
            chk.count(1, key="object-history")
            if not okg:
                bad("HelixObject: position / momentum of a helix moved AFTER its reports were read", i, {"position": [gp.x, gp.y, gp.z], "momentum_phi": gm.phi, "moved_to": list(npv), "dr_phi0_dz": [g.dr, g.phi0, g.dz]},
                    {"position": wantg, "momentum_phi": (g.phi0 + math.pi / 2) % hc.TWO_PI}, doc + " evaluated on the moved helix's own parameters"); break
        if i % 6 == 0:
            # the caller's work buffer: a helix built from a float64 array (tuple form, positional form, error matrix) keeps the values it was
            # built with when the caller refills the buffer for the next track
            buf = np.array(want, dtype=np.float64)
            ebuf = np.eye(5) * 1e-3
            hs = {"params=<float64 array>": pybes3.helix_obj(params=buf, pivot=tuple(h["piv"][i])), "*<float64 array>": pybes3.helix_obj(*buf, pivot=tuple(h["piv"][i])),
                  "params=<array>, error=<array>": pybes3.helix_obj(params=buf, error=ebuf, pivot=tuple(h["piv"][i]))}
            buf[:] = [9.5, 0.25, -want[2], -3.0, 1.5]
            chk.count(len(hs), key="caller-buffer")
            for form_, hx in hs.items():
                gotb = [hx.dr, hx.phi0, hx.kappa, hx.dz, hx.tanl]
                if gotb != want or hx.charge != (1 if want[2] > 0 else -1):
                    bad(f"helix_obj({form_}) after the caller refilled its parameter buffer", i, gotb + [hx.charge], want + [1 if want[2] > 0 else -1],
                        "the three ways of passing parameters agree; a helix reports the documented quantities of the parameters it was built with"); break
        if i % 5 == 0:   # the three ways of passing parameters
            a = pybes3.helix_obj(*want, pivot=tuple(h["piv"][i]))
            b = pybes3.helix_obj(dr=want[0], phi0=want[1], kappa=want[2], dz=want[3], tanl=want[4], pivot=vector.obj(x=h["piv"][i][0], y=h["piv"][i][1], z=h["piv"][i][2]))
            c = pybes3.helix_obj(params=tuple(want), pivot=tuple(h["piv"][i]))
            for x in (a, b, c):
                if [x.dr, x.phi0, x.kappa, x.dz, x.tanl, x.pivot.x, x.pivot.y, x.pivot.z] != want + list(h["piv"][i]):
                    bad("helix_obj constructor forms", i, [x.dr, x.phi0, x.kappa, x.dz, x.tanl], want, "positional, keyword and tuple forms agree"); break
    # array round trip
    arr2 = pybes3.helix_awk(momentum=amom, position=apos, charge=arr.charge, pivot=arr.pivot)
    scale = 1 + np.abs(h["piv"]).max(axis=1)
    okk = hc.close(ak.to_numpy(arr2.dr), h["dr"], atol=1e-9 * scale) | ((np.abs(h["dr"]) < 1e-12 * scale) & hc.close(np.abs(ak.to_numpy(arr2.dr)), np.abs(h["dr"]), atol=1e-9 * scale))
    okk &= hc.circ_close(ak.to_numpy(arr2.phi0), h["phi0"], 1e-9) & hc.close(ak.to_numpy(arr2.kappa), h["kappa"]) & hc.close(ak.to_numpy(arr2.dz), h["dz"], atol=1e-9 * scale) & hc.close(ak.to_numpy(arr2.tanl), h["tanl"])
    chk.count(n, key="array-roundtrip")
    if not okk.all():
        i = int(np.nonzero(~okk)[0][0])
        bad("helix_awk(momentum, position, charge, pivot) round trip", i, [float(arr2.dr[i]), float(arr2.phi0[i]), float(arr2.kappa[i]), float(arr2.dz[i])], [h["dr"][i], h["phi0"][i], h["kappa"][i], h["dz"][i]], "constructing a helix array from its own report reproduces it")
    # keyword construction with integer-typed columns (tracks on the reference point: dr = [[0, 0], [0]]) and a common non-integer
    # pivot given as tuple / vector object: pivot and position follow the documented formula for array and record kinds
    m = min(n, 30)
    for how in ("tuple", "vector"):
        dri = np.rint(h["dr"][:m]).astype(np.int64); dzi = np.rint(h["dz"][:m]).astype(np.int32)
        pv = tuple(float(x) for x in rng.uniform(-5, 5, 3) + 0.25)
        cnt = [m - m // 2, m // 2]
        mkn = lambda a: ak.unflatten(ak.Array(a), cnt)
        ai = pybes3.helix_awk(dr=mkn(dri), phi0=mkn(h["phi0"][:m]), kappa=mkn(h["kappa"][:m]), dz=mkn(dzi), tanl=mkn(h["tanl"][:m]), pivot=(pv if how == "tuple" else vector.obj(x=pv[0], y=pv[1], z=pv[2])))
        gp = [ak.to_numpy(ak.flatten(ai.pivot[c])).astype(float) for c in "xyz"]
        gpos = [ak.to_numpy(ak.flatten(ai.position[c])).astype(float) for c in "xyz"]
        want = [pv[0] + dri * np.cos(h["phi0"][:m]), pv[1] + dri * np.sin(h["phi0"][:m]), pv[2] + dzi]
        rec = ai[0, 0]
        rp = [float(rec.position.x), float(rec.position.y), float(rec.position.z)]
        chk.count(m, key=f"int-dtype-{how}")
        okp = all((gp[c] == pv[c]).all() for c in range(3)) and all(hc.close(gpos[c], want[c]).all() for c in range(3)) and all(hc.close(rp, [want[c][0] for c in range(3)]))
        if not okp:
            chk.failing_input("helix_awk(dr=<integer-typed>, ..., pivot=<non-integer " + how + ">): pivot / position", {"dr": dri.tolist()[:6], "dz": dzi.tolist()[:6], "dtypes": ["int64", "int32"], "pivot": list(pv), "nesting_counts": cnt},
                              {"pivot": [float(gp[c][0]) for c in range(3)], "position_of_first_track": [float(gpos[c][0]) for c in range(3)], "record_position": rp},
                              {"pivot": list(pv), "position_of_first_track": [float(want[c][0]) for c in range(3)]}, doc)
            break
    # one common (scalar) pivot of special shape - on a coordinate axis, in a coordinate plane, the origin, signed zeros, tiny components -
    # through every construction form of the array kind: the stored pivot is the requested one, position follows the documented formula,
    # and array / record agree with the object built from the same numbers
    m = min(n, 12)
    z0 = float(rng.uniform(1, 9))
    specials = [(0.0, 0.0, z0), (0.0, 0.0, -z0), (z0, 0.0, 0.0), (0.0, -z0, 0.0), (0.0, 0.0, 0.0), (-0.0, 0.0, z0), (1e-300, 0.0, z0), (z0, z0, 0.0), (0.0, z0, 2 * z0), (3, 4, 5)]
    par = np.column_stack([h["dr"][:m], h["phi0"][:m], h["kappa"][:m], h["dz"][:m], h["tanl"][:m]])
    for pv in specials:
        forms = {
            "helix_awk(helix, pivot=tuple)": lambda: pybes3.helix_awk(ak.Array(par), pivot=pv),
            "helix_awk(helix=, pivot=vector)": lambda: pybes3.helix_awk(helix=ak.Array(par), pivot=vector.obj(x=pv[0], y=pv[1], z=pv[2])),
            "helix_awk(dr=..., pivot=tuple)": lambda: pybes3.helix_awk(dr=ak.Array(par[:, 0]), phi0=ak.Array(par[:, 1]), kappa=ak.Array(par[:, 2]), dz=ak.Array(par[:, 3]), tanl=ak.Array(par[:, 4]), pivot=pv),
        }
        objs = [pybes3.helix_obj(*par[i], pivot=pv) for i in range(m)]
        want_pos = np.array([[pv[0] + par[i, 0] * math.cos(par[i, 1]), pv[1] + par[i, 0] * math.sin(par[i, 1]), pv[2] + par[i, 3]] for i in range(m)])
        forms["helix_awk(momentum, position, charge, pivot=tuple)"] = lambda: pybes3.helix_awk(
            momentum=ak.zip({"pt": [o.momentum.pt for o in objs], "phi": [o.momentum.phi for o in objs], "pz": [o.momentum.pz for o in objs]}, with_name="Momentum3D"),
            position=ak.zip({"x": want_pos[:, 0], "y": want_pos[:, 1], "z": want_pos[:, 2]}, with_name="Vector3D"), charge=ak.Array([o.charge for o in objs]), pivot=pv)
        for fname, build in forms.items():
            a = build()
            chk.count(m, key=f"special-pivot-{fname}")
            gp = np.column_stack([ak.to_numpy(a.pivot[c]).astype(float) for c in "xyz"])
            gpos = np.column_stack([ak.to_numpy(a.position[c]).astype(float) for c in "xyz"])
            opos = np.array([[o.position.x, o.position.y, o.position.z] for o in objs])
            rp = a[0].position
            okp = (gp == np.array([float(x) for x in pv])).all() and hc.close(gpos, want_pos, atol=1e-9).all() and hc.close(gpos, opos, atol=1e-9).all() \
                and all(hc.close([float(rp.x), float(rp.y), float(rp.z)], want_pos[0], atol=1e-9))
            if "momentum" in fname:
                okp = okp and hc.close(ak.to_numpy(a.dz), par[:, 3], atol=1e-9).all() and (hc.close(ak.to_numpy(a.dr), par[:, 0], atol=1e-9) | (np.abs(par[:, 0]) < 1e-9)).all()
            if not okp:
                chk.failing_input(f"{fname} with one common pivot: stored pivot / position / round trip", {"pivot": [float(x) for x in pv], "helix_of_first_track": par[0].tolist()},
                                  {"stored_pivot_of_first_track": gp[0].tolist(), "position_of_first_track": gpos[0].tolist(), "dz_of_first_track": float(a.dz[0])},
                                  {"pivot": [float(x) for x in pv], "position_of_first_track": want_pos[0].tolist(), "dz_of_first_track": float(par[0, 3])}, doc + "; the three container kinds agree")
                return mism
    # fromPhysics model vs implementation
    fp = hc.model_lines("fp", np.column_stack([ak.to_numpy(apos.x), ak.to_numpy(apos.y), ak.to_numpy(apos.z), ak.to_numpy(amom.pt), ak.to_numpy(amom.phi), ak.to_numpy(amom.pz), acharge.astype(float), h["piv"]]))
    okm = hc.close(fp[:, 0], ak.to_numpy(arr2.dr), atol=1e-9 * scale) & hc.circ_close(fp[:, 1], ak.to_numpy(arr2.phi0), 1e-9) & hc.close(fp[:, 2], ak.to_numpy(arr2.kappa)) & hc.close(fp[:, 3], ak.to_numpy(arr2.dz), atol=1e-9 * scale)
    okm |= np.abs(h["dr"]) < 1e-9 * scale     # sign of a sub-rounding dr depends on libm rounding of atan2/cos: not compared
    for i in np.nonzero(~okm)[0][:3]:
        mism.append({"track": int(i), "impl_fromPhysics": [float(arr2.dr[i]), float(arr2.phi0[i])], "model": list(fp[i])})
    chk.sample({"helix": {k: float(h[k][0]) for k in ("dr", "phi0", "kappa", "dz", "tanl")}, "pivot": h["piv"][0].tolist()})
    chk.hist("charge", "positive", int((h["kappa"] > 0).sum())); chk.hist("charge", "negative", int((h["kappa"] < 0).sum()))
    chk.hist("phi0", "at-wrap(<1e-8 from 0 or 2pi)", int(((h["phi0"] < 1e-8) | (h["phi0"] > hc.TWO_PI - 1e-8)).sum()))
    chk.hist("dr", "zero", int((h["dr"] == 0).sum())); chk.hist("dr", "negative", int((h["dr"] < 0).sum()))
    chk.hist("pivot", "non-zero", int((np.abs(h["piv"]).max(axis=1) > 0).sum()))
    return mism


def main(chk: core.Check) -> int:
    n = 4000 if chk.tier == "thorough" else 500
    chk.coverage["rule"] = "evaluations = helices pushed through object/record/array forms; tolerance 1e-9 rel + 1e-9 abs (scaled by pivot size); distinct = check classes"
    chk.assumptions += ["theorems are over the reals; IEEE rounding, libm and vector's coordinate conversions are outside the model and are compared through the correspondence with tolerance 1e-9",
                        "hand-written model Model/Helix.lean mirrors helix.py after the fix: commits"]
    hc.regen(chk)
    _entry = ["EntryTie"] if core.regen_entry(chk) else []
    chk.prove(modules=["C13", "HelixTie2"] + _entry)
    try:
        mism = run(chk, n)
        chk.coverage["traces_validated_against_impl"] = n
        if mism:
            chk.obligation_broken("correspondence", "Lean Float helix model vs implementation", str(mism[:3]))
    except core.DriverError as ex:
        chk.obligation_broken("correspondence", "helix driver", str(ex))
    return chk.finish(None)
