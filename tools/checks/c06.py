"""C06 — changing a helix pivot never changes the physical track, both charges (DESIGN.md section 6/C06).

model  : Model/Helix.lean::changePivot (hand-written, mirrors _change_pivot after the signed-radius fix)
proof  : Props/C06.lean over the reals against the BOSS trajectory specification
tie    : Lean Float model <-> HelixObject / HelixAwkwardRecord / HelixAwkwardArray .change_pivot
oracle : model-independent residuals on the implementation's own output (centre, trajectory at several t,
         closest point, tangency) per charge; reconstructed fixture tracks vs their MDC hits
"""
from __future__ import annotations

import math

import numpy as np

from checks import helix_common as hc
from lib import core


def scale_of(h):
    return 1 + np.abs(hc.rho(h["kappa"])) + np.abs(h["piv"]).max(axis=1) + np.abs(h["new"]).max(axis=1) + np.abs(h["dr"])


def impl_all(h, chk, n_obj):
    """change_pivot through the array form for all tracks, object form for the first n_obj, record for a few"""
    import awkward as ak
    arr = hc.impl_arr(h)
    newp = ak.zip({"x": h["new"][:, 0], "y": h["new"][:, 1], "z": h["new"][:, 2]}, with_name="Vector3D")
    res = arr.change_pivot(newp)
    out = {k: ak.to_numpy(res[k]) for k in ("dr", "phi0", "kappa", "dz", "tanl")}
    out["piv"] = np.stack([ak.to_numpy(res.pivot.x), ak.to_numpy(res.pivot.y), ak.to_numpy(res.pivot.z)], axis=1)
    obj = []
    for i in range(n_obj):
        _, o2 = hc.impl_obj_cp(h, i)
        obj.append([o2.dr, o2.phi0, o2.dz, o2.kappa, o2.tanl, o2.pivot.x, o2.pivot.y, o2.pivot.z])
    recs = []
    for i in range(0, min(n_obj, len(h["dr"])), 9):
        r = arr[i].change_pivot(*h["new"][i])
        recs.append((i, [float(r.dr), float(r.phi0), float(r.dz)]))
    return out, np.array(obj), recs


def residuals(h, out):
    """model-independent residuals of the property on the implementation's output"""
    sc = scale_of(h)
    cx, cy = hc.spec_centre(h)
    h2 = dict(out, new=out["piv"])
    cx2, cy2 = hc.spec_centre(dict(dr=out["dr"], phi0=out["phi0"], kappa=out["kappa"], piv=out["piv"]))
    res = {"centre": np.maximum(np.abs(cx2 - cx), np.abs(cy2 - cy)) / sc}
    dphi = hc.wrap_pi(out["phi0"] - h["phi0"])
    tr = 0
    for t in (-1.0, 0.0, 0.4, 2.5):
        a = hc.traj(out["dr"], out["phi0"], out["kappa"], out["dz"], out["tanl"], out["piv"], t)
        b = hc.traj(h["dr"], h["phi0"], h["kappa"], h["dz"], h["tanl"], h["piv"], t + dphi)
        tr = np.maximum(tr, np.abs(a - b).max(axis=1) / (sc * (1 + np.abs(h["tanl"]))))
    res["trajectory"] = tr
    res["kappa_tanl"] = np.maximum(np.abs(out["kappa"] - h["kappa"]), np.abs(out["tanl"] - h["tanl"]))
    v = np.hypot(cx - h["new"][:, 0], cy - h["new"][:, 1])
    res["closest_point"] = np.abs(np.abs(out["dr"]) - np.abs(v - np.abs(hc.rho(h["kappa"])))) / sc
    res["pivot_is_requested"] = np.abs(out["piv"] - h["new"]).max(axis=1)
    res["phi0_range"] = np.where((out["phi0"] >= 0) & (out["phi0"] <= hc.TWO_PI), 0.0, 1.0)
    return res


def fixture_hits(chk: core.Check):
    """reconstructed tracks: hits assigned to a track lie within a drift cell (+slack) of the circle its helix
    describes, and moving the pivot onto a hit wire gives |dr'| below the same threshold - for both charges"""
    import awkward as ak
    import uproot
    import pybes3
    worst = {1: 0.0, -1: 0.0}
    ntrk = {1: 0, -1: 0}
    for fn in ("test_full_mc_evt_1.rec", "test_cgem.rec"):
        p = core.REPO / "tests" / "data" / fn
        if not p.exists():
            continue
        t = uproot.open(p)["Event"]
        trk = t["TRecEvent/m_recMdcTrackCol"].array()
        hit = t["TRecEvent/m_recMdcHitCol"].array()
        for ev in range(len(trk)):
            for k in range(len(trk[ev])):
                hx = np.asarray(trk[ev][k]["m_helix"])
                tid = int(trk[ev][k]["m_trackId"])
                hs = hit[ev][hit[ev]["m_trkid"] == tid]
                if len(hs) == 0 or abs(hx[2]) < 1e-6:
                    continue
                info = pybes3.parse_mdc_digi_id(hs["m_mdcid"])
                gid = ak.to_numpy(info["gid"])
                z = ak.to_numpy(hs["m_zhit"])
                wx = np.asarray(pybes3.mdc_gid_z_to_x(gid, z)); wy = np.asarray(pybes3.mdc_gid_z_to_y(gid, z))
                q = 1 if hx[2] > 0 else -1
                r = hc.rho(hx[2])
                cx, cy = (hx[0] + r) * math.cos(hx[1]), (hx[0] + r) * math.sin(hx[1])
                d = np.abs(np.hypot(wx - cx, wy - cy) - abs(r))
                h0 = pybes3.helix_obj(*hx)
                drs = np.array([abs(h0.change_pivot((wx[j], wy[j], z[j])).dr) for j in range(0, len(wx), 3)])
                m = max(d.max(), drs.max())
                worst[q] = max(worst[q], m); ntrk[q] += 1
                chk.count(len(wx), key=f"fixture-hits-charge{q}")
                if m > 3.0:
                    chk.failing_input("reconstructed track vs its hits", {"file": fn, "event": ev, "track": k, "helix": hx.tolist()},
                                      f"hit up to {m:.2f} cm from the trajectory", "<= 3 cm (drift cell + slack)",
                                      "hits assigned to a track lie within a drift cell of the trajectory its helix describes")
                    return
    chk.coverage["fixture_tracks"] = {"positive": ntrk[1], "negative": ntrk[-1], "worst_cm_positive": round(worst[1], 3), "worst_cm_negative": round(worst[-1], 3)}


def correspond_and_oracle(chk: core.Check, n: int, n_obj: int):
    rng = np.random.default_rng(chk.seed + 6)
    h = hc.gen(rng, n, far=True)
    reg = hc.regular_mask(h)
    out, obj, recs = impl_all(h, chk, n_obj)
    chk.count(n, key="array"); chk.count(n_obj, key="object"); chk.count(len(recs), key="record")
    sc = scale_of(h)
    tol = 1e-9
    # ---- oracle on the implementation
    res = residuals(h, out)
    limits = {"centre": 1e-9, "trajectory": 1e-9, "kappa_tanl": 0.0, "closest_point": 1e-9, "pivot_is_requested": 0.0, "phi0_range": 0.0}
    for name, r in res.items():
        badm = (r > limits[name]) & reg
        if badm.any():
            i = int(np.nonzero(badm)[0][np.argmax(r[badm])])
            chk.failing_input(f"change_pivot (array form): {name} residual", {k: (h[k][i].tolist() if h[k].ndim > 1 else float(h[k][i])) for k in h},
                              float(r[i]), f"<= {limits[name]} (relative to track scale)", "BOSS trajectory x(t),y(t),z(t) with signed rho = -alpha/kappa; same circle, same sense, same z-angle relation",
                              finding_key=None)
        chk.hist("worst_residual", name, 0)
        chk.coverage.setdefault("worst_residuals", {})[name] = float(np.max(np.where(reg, r, 0)))
    # object / record agree with array (same property, other container)
    for i in range(n_obj):
        if not reg[i]:
            continue
        a = [out["dr"][i], out["dz"][i]]
        if not (all(hc.close([obj[i][0], obj[i][2]], a, atol=tol * sc[i] * (1 + abs(h["tanl"][i])))) and hc.circ_close(obj[i][1], out["phi0"][i], tol)):
            chk.failing_input("HelixObject.change_pivot vs array form", {k: (h[k][i].tolist() if h[k].ndim > 1 else float(h[k][i])) for k in h}, list(obj[i][:3]), [out["dr"][i], out["phi0"][i], out["dz"][i]], "object and array forms agree")
            break
    for i, r in recs:
        if reg[i] and not (all(hc.close([r[0], r[2]], [out["dr"][i], out["dz"][i]], atol=tol * sc[i] * (1 + abs(h["tanl"][i])))) and hc.circ_close(r[1], out["phi0"][i], tol)):
            chk.failing_input("HelixAwkwardRecord.change_pivot vs array form", {"track": i}, r, [out["dr"][i], out["phi0"][i], out["dz"][i]], "record and array forms agree")
            break
    # ---- correspondence with the Lean Float model
    m = hc.model_cp(h)
    okm = hc.close(m[:, 0], out["dr"], atol=tol * sc) & hc.circ_close(m[:, 1], out["phi0"], 1e-9) & hc.close(m[:, 2], out["dz"], atol=tol * sc * (1 + np.abs(h["tanl"])))
    diffs = [{"track": int(i), "input": {k: (h[k][i].tolist() if h[k].ndim > 1 else float(h[k][i])) for k in h}, "model": m[i][:3].tolist(), "impl": [out["dr"][i], out["phi0"][i], out["dz"][i]]}
             for i in np.nonzero(~okm & reg)[0][:5]]
    chk.coverage["excluded_branch_boundary_inputs"] = int((~reg).sum())
    chk.hist("charge", "positive", int((h["kappa"] > 0).sum())); chk.hist("charge", "negative", int((h["kappa"] < 0).sum()))
    chk.hist("turning_angle", ">pi/2", int((np.abs(m[:, 3]) > math.pi / 2).sum())); chk.hist("turning_angle", "<=pi/2", int((np.abs(m[:, 3]) <= math.pi / 2).sum()))
    chk.sample({k: (h[k][0].tolist() if h[k].ndim > 1 else float(h[k][0])) for k in h})
    return diffs


def object_histories(chk: core.Check, n: int):
    """A HelixObject is a plain mutable object (public attributes dr, phi0, kappa, dz, tanl, pivot). Whatever was done with it
    before - reading radius/momentum/position/charge, earlier pivot changes, isclose - and however its attributes were then
    updated in place (momentum-scale corrections `h.kappa /= s`, a charge flip, a shifted dr ...), change_pivot must act on the
    CURRENT parameters: the result must be the one a freshly built object with the same numbers gives (bit for bit)."""
    import pybes3
    rng = np.random.default_rng(chk.seed + 606)
    h = hc.gen(rng, n, far=True)
    for i in range(n):
        o = pybes3.helix_obj(h["dr"][i], h["phi0"][i], h["kappa"][i], h["dz"][i], h["tanl"][i], pivot=tuple(h["piv"][i]))
        used = []
        for _ in range(int(rng.integers(0, 4))):
            u = rng.choice(["radius", "momentum", "position", "charge", "change_pivot", "isclose"])
            used.append(str(u))
            if u == "change_pivot":
                o.change_pivot(tuple(rng.uniform(-5, 5, 3)))
            elif u == "isclose":
                o.isclose(o)
            else:
                getattr(o, u)
        upd = {}
        for name in rng.choice(["kappa", "kappa", "dr", "phi0", "dz", "tanl"], size=int(rng.integers(1, 3)), replace=False):
            v = getattr(o, name)
            if name == "kappa":
                v = v * rng.choice([1 / 1.005, 1.02, 0.5, 3.0, -1.0, -0.7])
            elif name == "phi0":
                v = float(rng.uniform(0, hc.TWO_PI))
            else:
                v = v + float(rng.uniform(-1, 1))
            setattr(o, name, float(v)); upd[str(name)] = float(v)
        new = tuple(h["new"][i])
        got = o.change_pivot(new)
        fresh = pybes3.helix_obj(o.dr, o.phi0, o.kappa, o.dz, o.tanl, pivot=(o.pivot.x, o.pivot.y, o.pivot.z)).change_pivot(new)
        a = [got.dr, got.phi0, got.kappa, got.dz, got.tanl]
        b = [fresh.dr, fresh.phi0, fresh.kappa, fresh.dz, fresh.tanl]
        chk.count(1, key=f"history-{i}")
        chk.hist("object_history_uses_before_update", len(used))
        if not all((x == y) or (x != x and y != y) for x, y in zip(a, b)):
            chk.failing_input("HelixObject.change_pivot after in-place parameter updates (history) vs a fresh object with the same parameters",
                              {"initial": {k: (h[k][i].tolist() if h[k].ndim > 1 else float(h[k][i])) for k in h}, "used_before": used, "updated_in_place": upd, "new_pivot": list(new)},
                              a, b, "the new helix describes the trajectory of the object's current parameters, whatever the object was used for before")
            return


def integer_columns(chk: core.Check):
    """helix arrays whose dr / dz columns are integer-typed (tracks starting on their pivot: dr = [[0, 0], [0]]): the moved helix must
    still describe the same trajectory (the result may not be squeezed back into the integer dtype)"""
    import awkward as ak
    import pybes3
    rng = np.random.default_rng(chk.seed + 66)
    n = 24
    h = hc.gen(rng, n)
    h["dr"] = np.rint(h["dr"] * rng.choice([0, 1, 3], n)).astype(np.int64)
    h["dz"] = np.rint(h["dz"]).astype(np.int32)
    h["piv"] = np.rint(h["piv"])
    h["new"] = h["piv"] + rng.uniform(0.2, 3.7, (n, 3)) * rng.choice([-1, 1], (n, 3))
    hf = dict(h, dr=h["dr"].astype(float), dz=h["dz"].astype(float))
    reg = hc.regular_mask(hf)
    cnt = [n - n // 3, n // 3]
    mk = lambda a: ak.unflatten(ak.Array(np.array(a, copy=True)), cnt)
    pivot = ak.zip({"x": mk(h["piv"][:, 0]), "y": mk(h["piv"][:, 1]), "z": mk(h["piv"][:, 2])}, with_name="Vector3D")
    arr = pybes3.helix_awk(dr=mk(h["dr"]), phi0=mk(h["phi0"]), kappa=mk(h["kappa"]), dz=mk(h["dz"]), tanl=mk(h["tanl"]), pivot=pivot)
    res = arr.change_pivot(ak.zip({"x": mk(h["new"][:, 0]), "y": mk(h["new"][:, 1]), "z": mk(h["new"][:, 2])}, with_name="Vector3D"))
    out = {k: ak.to_numpy(ak.flatten(res[k], axis=None)).astype(float) for k in ("dr", "phi0", "kappa", "dz", "tanl")}
    out["piv"] = np.stack([ak.to_numpy(ak.flatten(res.pivot[c], axis=None)).astype(float) for c in "xyz"], axis=1)
    r = residuals(hf, out)
    chk.count(n, key="integer-columns")
    for name in ("centre", "trajectory", "closest_point"):
        badm = (r[name] > 1e-9) & reg
        if badm.any():
            i = int(np.nonzero(badm)[0][0])
            chk.failing_input(f"change_pivot (array form, integer-typed dr / dz columns): {name} residual", {"dr": int(h["dr"][i]), "dz": int(h["dz"][i]), "dtypes": {"dr": "int64", "dz": "int32"}, "phi0": float(h["phi0"][i]), "kappa": float(h["kappa"][i]), "tanl": float(h["tanl"][i]),
                                                                                                             "old_pivot": h["piv"][i].tolist(), "new_pivot": h["new"][i].tolist()},
                              {"dr": float(out["dr"][i]), "phi0": float(out["phi0"][i]), "dz": float(out["dz"][i]), "residual_rel": float(r[name][i])}, "residual <= 1e-9 (relative to the track scale)",
                              "the helix parameters before and after a pivot change describe the same trajectory")
            return


ENV_CHILD = r"""
import sys, json
sys.path.insert(0, sys.argv[1])
import numpy as np
from checks import helix_common as hc, c06
rng = np.random.default_rng(606)
h = hc.gen(rng, 300, far=False)
reg = hc.regular_mask(h)
out, obj, recs = c06.impl_all(h, None, 40)
res = c06.residuals(h, out)
worst = {}
for name in ("centre", "trajectory", "closest_point"):
    r = np.where(reg, res[name], 0.0)
    i = int(np.argmax(r)); worst[name] = [float(r[i]), i]
sc = c06.scale_of(h)
d_obj = 0.0; i_obj = 0
for i in range(len(obj)):
    if reg[i]:
        d = max(abs(obj[i][0] - out["dr"][i]), abs(obj[i][2] - out["dz"][i]) / (1 + abs(h["tanl"][i]))) / sc[i]
        if d > d_obj: d_obj, i_obj = float(d), i
i = worst["trajectory"][1]
print(json.dumps({"worst": worst, "obj_vs_arr": [d_obj, i_obj],
                  "track": {k: (h[k][i].tolist() if h[k].ndim > 1 else float(h[k][i])) for k in h},
                  "obj_track": {k: (h[k][i_obj].tolist() if h[k].ndim > 1 else float(h[k][i_obj])) for k in h}}))
"""


def scan_env_reads():
    """environment variables the package source reads (`os.environ.get / [] / os.getenv`), with the default where it is a literal"""
    import ast
    found = {}
    for path in sorted((core.REPO / "src" / "pybes3").rglob("*.py")):
        try:
            tree = ast.parse(path.read_text())
        except SyntaxError:
            continue
        for n in ast.walk(tree):
            var = default = None
            if isinstance(n, ast.Call) and ast.unparse(n.func) in ("os.getenv", "os.environ.get", "environ.get", "getenv") and n.args and isinstance(n.args[0], ast.Constant) and isinstance(n.args[0].value, str):
                var = n.args[0].value
                if len(n.args) > 1 and isinstance(n.args[1], ast.Constant):
                    default = n.args[1].value
            elif isinstance(n, ast.Subscript) and ast.unparse(n.value) in ("os.environ", "environ") and isinstance(n.slice, ast.Constant) and isinstance(n.slice.value, str):
                var = n.slice.value
            if var is not None:
                found.setdefault(var, (default, str(path.relative_to(core.REPO))))
    return found


def perturbations(default):
    """values for an environment variable that differ from its default in the way its type suggests"""
    d = "" if default is None else str(default)
    try:
        f = float(d)
        vals = [repr(f * 0.9) if f != 0 else "0.5", "2", "0"]
        if d in ("0", "1"):
            vals = ["1" if d == "0" else "0"] + vals
        return vals[:3]
    except ValueError:
        pass
    if d.lower() in ("true", "false", "yes", "no", "on", "off"):
        return [{"true": "false", "false": "true", "yes": "no", "no": "yes", "on": "off", "off": "on"}[d.lower()]]
    return ["1", "0.9"]


def env_histories(chk: core.Check):
    """a job run EARLIER with an environment variable the package reads set to another value, then the same computation in a job with the
    default environment sharing the numba cache directory (private to this check): the pivot change must still preserve the trajectory in
    array form and agree with the object form - compiled kernels must not carry the earlier job's configuration"""
    import json
    import os
    import shutil
    import subprocess
    import tempfile
    envs = scan_env_reads()
    chk.coverage["environment_variables_read_by_the_package"] = {k: {"default": v[0], "file": v[1]} for k, v in envs.items()}

    def job(env_extra, cache):
        env = dict(os.environ, NUMBA_CACHE_DIR=cache)
        for k in envs:
            env.pop(k, None)
        env.update(env_extra)
        p = subprocess.run([core.PY, "-c", ENV_CHILD, str(core.VERIF / "tools")], capture_output=True, text=True, timeout=900, env=env)
        lines = [l for l in p.stdout.splitlines() if l.startswith("{")]
        return (json.loads(lines[-1]) if lines else None), p.stderr[-400:]

    for var, (default, where) in envs.items():
        for val in perturbations(default)[:2]:
            cache = tempfile.mkdtemp(prefix="c06env-")
            try:
                first, err1 = job({var: val}, cache)
                later, err2 = job({}, cache)
                chk.count(2, key=f"env-{var}={val}")
                chk.hist("env_history", var)
                if later is None:
                    chk.failing_input(f"pivot change in a job with the default environment after an earlier job ran with {var}={val}", {"earlier_job_env": {var: val}, "shared": "numba cache directory"}, err2, "results", "the job runs")
                    return
                for name in ("trajectory", "centre", "closest_point"):
                    if later["worst"][name][0] > 1e-9:
                        chk.failing_input(f"change_pivot (array form): {name} residual in a job with the default environment, after an earlier job that shared the numba cache directory ran with {var}={val} ({where})",
                                          dict(later["track"], earlier_job_env={var: val}), later["worst"][name][0], "<= 1e-9 (relative to track scale)",
                                          "BOSS trajectory with signed rho = -alpha/kappa: same circle, same sense, same z-angle relation - whatever an earlier process was configured with")
                        return
                if later["obj_vs_arr"][0] > 1e-9:
                    chk.failing_input(f"HelixObject.change_pivot vs array form in a job with the default environment, after an earlier job that shared the numba cache directory ran with {var}={val} ({where})",
                                      dict(later["obj_track"], earlier_job_env={var: val}), later["obj_vs_arr"][0], "<= 1e-9", "object and array forms agree")
                    return
            finally:
                shutil.rmtree(cache, ignore_errors=True)


def main(chk: core.Check) -> int:
    thorough = chk.tier == "thorough"
    n, n_obj = (40000, 3000) if thorough else (3000, 300)
    chk.coverage["rule"] = ("evaluations = pivot changes executed on the implementation (array/object/record) and judged by trajectory residuals, "
                            "plus fixture hits; inputs numerically on the circle centre or with |dphi| within 1e-6 of pi are excluded as in the property")
    chk.assumptions += ["theorems are over the reals (Mathlib); IEEE rounding, libm and vector's polar/cartesian conversions are outside the model (compared with tolerance 1e-9 relative to the track scale)",
                        "sign convention rho = -alpha/kappa anchored on the reconstructed fixture tracks (hits within 3 cm of the described circle)"]
    hc.regen(chk)
    chk.prove(modules=["C06", "HelixTie"])
    try:
        diffs = correspond_and_oracle(chk, n, n_obj)
        chk.coverage["traces_validated_against_impl"] = n
        if diffs:
            chk.obligation_broken("correspondence", "Lean Float changePivot vs implementation", str(diffs[:3]))
        fixture_hits(chk)
        object_histories(chk, 400 if thorough else 80)
        if not chk.failing:
            integer_columns(chk)
        if not chk.failing:
            # pivots handed over as Vector3D arrays that are not stored as (x, y, z), views of deeply nested arrays (shared with C07)
            from checks import c07
            c07.deep_views_and_pivot_kinds(chk)
        if not chk.failing:
            env_histories(chk)
    except core.DriverError as ex:
        chk.obligation_broken("correspondence", "helix driver", str(ex))
    return chk.finish(None)
