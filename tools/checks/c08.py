"""C08 — global IDs are a dense, documented, invertible numbering (DESIGN.md section 6/C08).

model  : Gen/Mdc.lean, Gen/Emc.lean (kernels), Gen/{Mdc,Emc}Tables.lean (npz columns + loader globals),
         Gen/DocGid.lean (documented ranges) - all regenerated on every run
proof  : Props/C08.lean (whole-table kernel evaluation + bv_decide for the invalid-marker cases)
tie    : differential pass Lean kernels <-> numba kernels on every element
oracle : numbering derived from the documentation (EMC ring sizes; MDC (layer, wire) order over the npz
         rows read directly), evaluated on the real public functions, arrays and one-at-a-time scalars
"""
from __future__ import annotations

import numpy as np

from lib import core
from lib.kerneldiff import KernelDiff
from translate import gen
from checks.c05 import bv_axiom_ok

def i64(a):
    return np.asarray(a).astype(np.int64)


RINGS0 = [64, 64, 80, 80, 96, 96]          # documented: endcap-0 theta 0..5
NW, NC = 6796, 6240


def doc_emc_table():
    """(part, theta, phi) in documented gid order."""
    rows = []
    for t, n in enumerate(RINGS0):
        rows += [(0, t, f) for f in range(n)]
    for t in range(44):
        rows += [(1, t, f) for f in range(120)]
    for t in (5, 4, 3, 2, 1, 0):
        rows += [(2, t, f) for f in range(RINGS0[t])]
    return np.array(rows)


def npz(name):
    return np.load(core.SRC / "detectors" / "geometry" / f"{name}_geom.npz")


def oracle(chk: core.Check, thorough: bool):
    import awkward as ak
    import pybes3
    import pybes3.detectors as det
    import pybes3.detectors.digi_id as did
    rng = np.random.default_rng(chk.seed + 8)
    # ---------------- MDC
    z = npz("mdc")
    lw = np.stack([z["layer"].astype(np.int64), z["wire"].astype(np.int64)], axis=1)
    if len(lw) != NW:
        chk.failing_input("mdc table length", {}, len(lw), NW, "documented range 0~6795")
        return
    order = np.lexsort((lw[:, 1], lw[:, 0]))
    exp_gid = np.empty(NW, dtype=np.int64)
    exp_gid[order] = np.arange(NW)        # rank of (layer, wire) = documented gid
    uniq = len({(a, b) for a, b in lw.tolist()}) == NW
    if not uniq:
        chk.failing_input("mdc (layer, wire) pairs", {}, "duplicates", "distinct", "table rows name distinct wires")
    layer, wire = lw[:, 0], lw[:, 1]

    def expect(what, inp, got, want, oracle="documented numbering: gid = rank of (layer, wire)"):
        got = np.asarray(got); want = np.asarray(want)
        chk.count(int(want.size), key=what)
        bad = np.nonzero(got.astype(np.int64).ravel() != want.astype(np.int64).ravel())[0] if got.shape == want.shape else [0]
        if len(bad):
            i = int(bad[0])
            sel = {k: (int(np.asarray(v).ravel()[i]) if np.asarray(v).size > i else None) for k, v in inp.items()}
            chk.failing_input(what, sel, int(got.ravel()[i]) if got.shape == want.shape else f"shape {got.shape}", int(want.ravel()[i]), oracle)
            return False
        return True

    for dt in (["uint8", "int64", "uint16", "int32"] if thorough else ["uint16", "int64"]):
        if dt == "uint8":
            continue
        expect(f"get_mdc_gid[{dt}]", {"layer": layer, "wire": wire}, det.get_mdc_gid(layer.astype(dt), wire.astype(dt)), exp_gid)
    g = exp_gid
    expect("mdc_gid_to_layer", {"gid": g}, det.mdc_gid_to_layer(g), layer)
    expect("mdc_gid_to_wire", {"gid": g}, det.mdc_gid_to_wire(g), wire)
    expect("mdc table gid column", {"row": np.arange(NW)}, z["gid"], exp_gid, "gid column equals documented rank")
    # scalar calls, one at a time (Python ints and numpy scalars take a different dispatch path)
    idx = np.arange(NW) if thorough else np.unique(np.concatenate([rng.integers(0, NW, 600), np.arange(NW - 700, NW), np.arange(0, 50)]))
    got = np.array([int(det.get_mdc_gid(int(layer[i]), int(wire[i]))) for i in idx])
    expect("get_mdc_gid(scalar int)", {"layer": layer[idx], "wire": wire[idx]}, got, exp_gid[idx])
    got = np.array([int(det.get_mdc_gid(np.uint8(layer[i]), np.uint16(wire[i]))) for i in idx[::7]])
    expect("get_mdc_gid(numpy scalar)", {"layer": layer[idx[::7]], "wire": wire[idx[::7]]}, got, exp_gid[idx[::7]])
    got_l = np.array([int(det.mdc_gid_to_layer(int(exp_gid[i]))) for i in idx[::5]])
    expect("mdc_gid_to_layer(scalar)", {"gid": exp_gid[idx[::5]]}, got_l, layer[idx[::5]])
    # digi route
    ids = did.get_mdc_digi_id(wire.astype(np.uint32), layer.astype(np.uint32), z["is_stereo"].astype(np.uint32))
    p = det.parse_mdc_digi_id(ids)
    expect("parse_mdc_digi_id.gid", {"digi_id": ids}, p["gid"], exp_gid, "gid from parsing the identifier == gid of the element")
    expect("parse_mdc_digi_id.layer", {"digi_id": ids}, p["layer"], layer)
    expect("parse_mdc_digi_id.wire", {"digi_id": ids}, p["wire"], wire)
    pg = det.parse_mdc_gid(exp_gid, with_pos=False)
    expect("parse_mdc_gid.gid", {"gid": exp_gid}, pg["gid"], exp_gid, "parsing a gid returns the element it was built from")
    expect("parse_mdc_gid.layer", {"gid": exp_gid}, pg["layer"], layer)
    expect("parse_mdc_gid.wire", {"gid": exp_gid}, pg["wire"], wire)
    sc = [det.parse_mdc_digi_id(int(ids[i])) for i in idx[::11]]
    expect("parse_mdc_digi_id(scalar).gid", {"digi_id": ids[idx[::11]]}, np.array([int(s["gid"]) for s in sc]), exp_gid[idx[::11]])
    sc = [det.parse_mdc_gid(int(exp_gid[i]), with_pos=False) for i in idx[::11]]
    expect("parse_mdc_gid(scalar)", {"gid": exp_gid[idx[::11]]}, np.array([int(s["gid"]) * 1000 + int(s["wire"]) for s in sc]), exp_gid[idx[::11]] * 1000 + wire[idx[::11]])
    ja = ak.unflatten(ak.Array(ids), [NW // 2, NW - NW // 2])
    expect("parse_mdc_digi_id(awkward).gid", {"digi_id": ids}, ak.to_numpy(ak.flatten(det.parse_mdc_digi_id(ja)["gid"])), exp_gid)
    # the gid obtained by parsing an identifier is the gid of its decoded (layer, wire) whatever the other bits of the word say: wire-type flag
    # opposite to the geometry, undefined bits 16-23 set
    for what, ids2 in (("wire-type flag inverted", did.get_mdc_digi_id(wire.astype(np.uint32), layer.astype(np.uint32), (1 - z["is_stereo"]).astype(np.uint32))),
                       ("wire-type flag 0", did.get_mdc_digi_id(wire.astype(np.uint32), layer.astype(np.uint32), np.zeros(NW, dtype=np.uint32))),
                       ("undefined bits set", (np.asarray(ids, dtype=np.uint32) | (rng.integers(1, 256, NW).astype(np.uint32) << np.uint32(16))))):
        p2 = det.parse_mdc_digi_id(np.asarray(ids2, dtype=np.uint32))
        fields_gid = det.get_mdc_gid(did.mdc_id_to_layer(np.asarray(ids2, dtype=np.uint32)), did.mdc_id_to_wire(np.asarray(ids2, dtype=np.uint32)))
        expect(f"parse_mdc_digi_id.gid ({what})", {"digi_id": np.asarray(ids2)}, p2["gid"], fields_gid, "gid from parsing the identifier == gid from its decoded fields")
        expect(f"parse_mdc_digi_id.gid ({what}) vs element", {"digi_id": np.asarray(ids2)}, p2["gid"], exp_gid, "parsing returns the element the identifier was built from")
    # other memory representations of the same identifiers / gids: non-native byte order, Fortran-ordered and transposed 2-d arrays (NW = 4 x 1699)
    idn = np.asarray(ids, dtype=np.uint32)
    for rlabel, arr_in, unwrap in (("big-endian uint32 array", idn.astype(">u4"), lambda o: np.asarray(o)),
                                   ("big-endian int32 array", idn.astype(">i4"), lambda o: np.asarray(o)),
                                   ("Fortran-ordered 2-d array", np.asfortranarray(idn.reshape(1699, 4)), lambda o: np.asarray(o).reshape(-1)),
                                   ("transposed 2-d array", idn.reshape(4, 1699).T, lambda o: np.asarray(o).T.reshape(-1) if False else np.ascontiguousarray(np.asarray(o)).reshape(-1))):
        want_g = exp_gid if "2-d" not in rlabel else (exp_gid.reshape(1699, 4).reshape(-1) if "Fortran" in rlabel else exp_gid.reshape(4, 1699).T.reshape(-1))
        want_l = layer if "2-d" not in rlabel else (layer.reshape(1699, 4).reshape(-1) if "Fortran" in rlabel else layer.reshape(4, 1699).T.reshape(-1))
        try:
            pr = det.parse_mdc_digi_id(arr_in)
            pr2 = det.parse_mdc_digi_id(arr_in)                      # same object again: the call must not have modified it
            g1, g2, l1 = unwrap(pr["gid"]), unwrap(pr2["gid"]), unwrap(pr["layer"])
        except Exception as ex:
            chk.coverage.setdefault("unsupported_representations", {})[f"parse_mdc_digi_id:{rlabel}"] = f"{type(ex).__name__}"
            continue
        expect(f"parse_mdc_digi_id.gid ({rlabel})", {"digi_id": idn}, g1, want_g, "gid from parsing the identifier == gid of the element, whatever the memory layout of the input")
        expect(f"parse_mdc_digi_id.gid ({rlabel}, second call on the same object)", {"digi_id": idn}, g2, want_g)
        expect(f"parse_mdc_digi_id.layer ({rlabel})", {"digi_id": idn}, l1, want_l)
        pg2 = det.parse_mdc_gid(np.asfortranarray(exp_gid.reshape(1699, 4)) if "Fortran" in rlabel else (exp_gid.reshape(4, 1699).T if "transposed" in rlabel else exp_gid.astype(">i8")), with_pos=False)
        expect(f"parse_mdc_gid.wire ({rlabel.replace('uint32', 'int64').replace('int32', 'int64')})", {"gid": exp_gid}, np.ascontiguousarray(np.asarray(pg2["wire"])).reshape(-1),
               wire if "2-d" not in rlabel else (wire.reshape(1699, 4).reshape(-1) if "Fortran" in rlabel else wire.reshape(4, 1699).T.reshape(-1)), "parsing a gid returns the element it was built from")
    # call history on ONE buffer object refilled in place (a block-wise reader with a preallocated buffer): results follow the content
    perm = rng.permutation(NW)
    for kind in ("numpy buffer", "zero-copy awkward view of the buffer"):
        buf = np.array(ids, dtype=np.uint32)
        arg = buf if kind == "numpy buffer" else ak.from_numpy(buf, regulararray=False)
        first = np.asarray(det.parse_mdc_digi_id(arg)["gid"]).copy()
        buf[:] = np.asarray(ids, dtype=np.uint32)[perm]
        second = np.asarray(det.parse_mdc_digi_id(arg)["gid"])
        expect(f"parse_mdc_digi_id on a {kind}, first call", {"digi_id": ids}, first, exp_gid)
        expect(f"parse_mdc_digi_id on a {kind} refilled in place, second call", {"digi_id": np.asarray(ids)[perm]}, second, exp_gid[perm], "same function, same object, new content: the gid of the identifiers now in the buffer")
        gb = np.array(exp_gid, dtype=np.int64)
        det.mdc_gid_to_wire(gb); gb[:] = exp_gid[perm]
        expect(f"mdc_gid_to_wire on a buffer refilled in place", {"gid": exp_gid[perm]}, det.mdc_gid_to_wire(gb), wire[perm])
    # ---------------- EMC
    doc = doc_emc_table()
    if len(doc) != NC:
        raise AssertionError("oracle table size")
    P, T, F = doc[:, 0], doc[:, 1], doc[:, 2]
    G = np.arange(NC)
    e = npz("emc")
    o = "documented numbering (ring sizes 64,64,80,80,96,96 per endcap; 44 x 120 barrel; endcap-1 by (-theta, phi))"
    for dt in (["uint8", "int64", "uint32", "int16"] if thorough else ["uint8", "int64"]):
        expect(f"get_emc_gid[{dt}]", {"part": P, "theta": T, "phi": F}, det.get_emc_gid(P.astype(dt), T.astype(dt), F.astype(dt)), G, o)
    expect("emc_gid_to_part", {"gid": G}, det.emc_gid_to_part(G), P, o)
    expect("emc_gid_to_theta", {"gid": G}, det.emc_gid_to_theta(G), T, o)
    expect("emc_gid_to_phi", {"gid": G}, det.emc_gid_to_phi(G), F, o)
    expect("emc table gid column", {"row": G}, e["gid"], G, o)
    jdx = G if thorough else np.unique(np.concatenate([rng.integers(0, NC, 500), np.arange(NC - 200, NC), np.arange(0, 50), np.arange(470, 490), np.arange(5750, 5770)]))
    got = np.array([int(det.get_emc_gid(int(P[i]), int(T[i]), int(F[i]))) for i in jdx])
    expect("get_emc_gid(scalar int)", {"part": P[jdx], "theta": T[jdx], "phi": F[jdx]}, got, G[jdx], o)
    ids = did.get_emc_digi_id(P.astype(np.uint32), T.astype(np.uint32), F.astype(np.uint32))
    pe = det.parse_emc_digi_id(ids)
    expect("parse_emc_digi_id.gid", {"digi_id": ids}, pe["gid"], G, "gid from parsing the identifier == gid of the element")
    expect("parse_emc_digi_id.part/theta/phi", {"digi_id": ids}, i64(pe["part"]) * 10000 + i64(pe["theta"]) * 128 + i64(pe["phi"]), P * 10000 + T * 128 + F)
    pg = det.parse_emc_gid(G, with_pos=False)
    expect("parse_emc_gid", {"gid": G}, i64(pg["part"]) * 10000 + i64(pg["theta"]) * 128 + i64(pg["phi"]), P * 10000 + T * 128 + F, "parsing a gid returns the element it was built from")
    expect("parse_emc_gid.gid", {"gid": G}, pg["gid"], G)
    sc = [det.parse_emc_digi_id(int(ids[i])) for i in jdx[::5]]
    expect("parse_emc_digi_id(scalar)", {"digi_id": ids[jdx[::5]]}, np.array([int(s["gid"]) * 128 + int(s["phi"]) for s in sc]), G[jdx[::5]] * 128 + F[jdx[::5]])
    sc = [det.parse_emc_gid(int(G[i]), with_pos=False) for i in jdx[::5]]
    expect("parse_emc_gid(scalar)", {"gid": G[jdx[::5]]}, np.array([int(s["gid"]) * 128 + int(s["phi"]) for s in sc]), G[jdx[::5]] * 128 + F[jdx[::5]])
    ja = ak.unflatten(ak.Array(ids), [100, NC - 100])
    expect("parse_emc_digi_id(awkward).gid", {"digi_id": ids}, ak.to_numpy(ak.flatten(det.parse_emc_digi_id(ja)["gid"])), G)
    ids2 = np.asarray(ids, dtype=np.uint32) | (rng.integers(1, 16, NC).astype(np.uint32) << np.uint32(20))
    expect("parse_emc_digi_id.gid (undefined bits set)", {"digi_id": ids2}, det.parse_emc_digi_id(ids2)["gid"],
           det.get_emc_gid(did.emc_id_to_module(ids2), did.emc_id_to_theta(ids2), did.emc_id_to_phi(ids2)), "gid from parsing the identifier == gid from its decoded fields")
    perm = rng.permutation(NC)
    for kind in ("numpy buffer", "zero-copy awkward view of the buffer"):
        buf = np.array(ids, dtype=np.uint32)
        arg = buf if kind == "numpy buffer" else ak.from_numpy(buf, regulararray=False)
        first = np.asarray(det.parse_emc_digi_id(arg)["gid"]).copy()
        buf[:] = np.asarray(ids, dtype=np.uint32)[perm]
        second = np.asarray(det.parse_emc_digi_id(arg)["gid"])
        expect(f"parse_emc_digi_id on a {kind}, first call", {"digi_id": ids}, first, G)
        expect(f"parse_emc_digi_id on a {kind} refilled in place, second call", {"digi_id": np.asarray(ids)[perm]}, second, G[perm], "same function, same object, new content: the gid of the identifiers now in the buffer")
    # long hit lists (every element many times, shuffled; well above any bulk / chunking / threading threshold): still the documented numbering,
    # both directions and through the digi route - a second implementation chosen by size must agree with the first
    reps = 44 if thorough else 24
    sel = rng.permutation(np.tile(np.arange(NC), reps))
    for dt in ("uint8", "int64"):
        if not expect(f"get_emc_gid[{dt}] on {len(sel)} hits", {"part": P[sel], "theta": T[sel], "phi": F[sel]}, det.get_emc_gid(P[sel].astype(dt), T[sel].astype(dt), F[sel].astype(dt)), G[sel], o):
            return
    if not expect(f"emc_gid_to_part/theta/phi on {len(sel)} hits", {"gid": G[sel]}, i64(det.emc_gid_to_part(G[sel])) * 10000 + i64(det.emc_gid_to_theta(G[sel])) * 128 + i64(det.emc_gid_to_phi(G[sel])), (P * 10000 + T * 128 + F)[sel], o):
        return
    if not expect(f"parse_emc_digi_id.gid on {len(sel)} hits", {"digi_id": np.asarray(ids)[sel]}, det.parse_emc_digi_id(np.asarray(ids)[sel])["gid"], G[sel], "gid from parsing the identifier == gid of the element"):
        return
    selw = rng.permutation(np.tile(np.arange(NW), reps))
    for dt in ("uint16", "int64"):
        if not expect(f"get_mdc_gid[{dt}] on {len(selw)} hits", {"layer": layer[selw], "wire": wire[selw]}, det.get_mdc_gid(layer[selw].astype(dt), wire[selw].astype(dt)), exp_gid[selw]):
            return
    if not expect(f"mdc_gid_to_layer/wire on {len(selw)} hits", {"gid": exp_gid[selw]}, i64(det.mdc_gid_to_layer(exp_gid[selw])) * 1000 + i64(det.mdc_gid_to_wire(exp_gid[selw])), (layer * 1000 + wire)[selw]):
        return
    mids = np.asarray(did.get_mdc_digi_id(wire.astype(np.uint32), layer.astype(np.uint32), z["is_stereo"].astype(np.uint32)))
    if not expect(f"parse_mdc_digi_id.gid on {len(selw)} hits", {"digi_id": mids[selw]}, det.parse_mdc_digi_id(mids[selw])["gid"], exp_gid[selw], "gid from parsing the identifier == gid of the element"):
        return
    # top-level re-exports are the same callables
    for n in ["get_mdc_gid", "get_emc_gid", "parse_mdc_gid", "parse_emc_gid", "parse_mdc_digi_id", "parse_emc_digi_id", "mdc_gid_to_layer", "mdc_gid_to_wire"]:
        if getattr(pybes3, n) is not getattr(det, n):
            chk.failing_input("re-export", {"name": n}, "different object", "same", "pybes3.X is pybes3.detectors.X")


def correspond(chk: core.Check, info, thorough: bool):
    import pybes3.detectors.geometry.mdc as mdc
    import pybes3.detectors.geometry.emc as emc
    kd = KernelDiff(chk)
    z, e = npz("mdc"), npz("emc")
    step = 1 if thorough else 3
    gm = np.arange(0, NW, step)
    ge = np.arange(0, NC, step)
    for det, mod, gids in (("mdc", mdc, gm), ("emc", emc, ge)):
        for name, k in info["kernels"][det].items():
            fn = getattr(mod, name)
            nargs = len(k["params"])
            if name == "get_mdc_gid":
                for dt in ("uint16", "int64"):
                    kd.add_call(name, fn, k["ordered"], dt, [z["layer"][gm].astype(dt), z["wire"][gm].astype(dt)])
            elif name == "get_emc_gid":
                for dt in ("uint8", "int64"):
                    kd.add_call(name, fn, k["ordered"], dt, [e["part"][ge].astype(dt), e["theta"][ge].astype(dt), e["phi"][ge].astype(dt)])
                # whole small cube incl. invalid parts/thetas
                p, t, f = np.meshgrid(np.arange(5), np.arange(0, 64, 1 if thorough else 3), np.arange(0, 130, 1 if thorough else 7), indexing="ij")
                kd.add_call(name, fn, k["ordered"], "int64", [a.ravel().astype(np.int64) for a in (p, t, f)])
            elif name.startswith("mdc_layer_to"):
                for dt in ("uint8", "int64"):
                    kd.add_call(name, fn, k["ordered"], dt, [np.arange(43).astype(dt)])
            elif nargs == 1:
                for dt in ("uint16", "int64"):
                    kd.add_call(name, fn, k["ordered"], dt, [gids.astype(dt)])
            elif nargs == 2:   # emc_gid_to_point_*
                g2, pt = np.meshgrid(gids[:: 2], np.arange(8), indexing="ij")
                kd.add_call(name, fn, k["ordered"], "int64", [g2.ravel().astype(np.int64), pt.ravel().astype(np.int64)])
    diffs = kd.run()
    for s in kd.lines[:2] + kd.lines[-2:]:
        chk.sample({"lean_driver_call": s})
    chk.coverage["dtype_skips"] = kd.skipped
    return diffs


def common_main(chk: core.Check, oracle_fn, note: str):
    thorough = chk.tier == "thorough"
    chk.assumptions += [
        "numba table lookups are modelled only for in-range indices (numba does no bounds checking)",
        "translator tools/translate (hash %s)" % core.sha(core.VERIF / "tools/translate/kernels.py"), note,
    ]
    g = gen.gen_geom()
    g2 = gen.gen_digi()
    if not g["ok"] or not g2["ok"]:
        chk.obligation_broken("translator", "regenerate geometry/digi models", g["error"] or g2["error"])
    else:
        mods = [chk.prop]
        if chk.prop == "C08":
            # the record parsers as compositions of the kernels: "the gid obtained by parsing a digi identifier equals the one obtained from its decoded fields"
            g3 = gen.gen_detparse()
            if not g3["ok"]:
                chk.obligation_broken("translator", "translate the record parsers of detectors/__init__.py into Gen/DetParse.lean", g3["error"])
            mods.append("DetParseTie")
        from checks.c05 import bv_axiom_any
        chk.prove(extra_allowed=bv_axiom_any, modules=mods)
        try:
            diffs = correspond(chk, g["info"], thorough)
            chk.coverage["traces_validated_against_impl"] = chk.evals
            if diffs:
                chk.obligation_broken("correspondence", "Lean kernel vs numba kernel", str(diffs[:5]))
                chk.coverage["first_disagreements"] = diffs[:5]
        except core.DriverError as ex:
            chk.obligation_broken("correspondence", "Lean kernel driver", str(ex))
    try:
        oracle_fn(chk, thorough)
    except Exception as ex:
        import traceback
        chk.obligation_broken("correspondence", "oracle run on implementation", f"{type(ex).__name__}: {ex}\n{traceback.format_exc()[-1500:]}")
    return chk.finish((lambda: oracle_fn(chk, True)) if not thorough else None)


def main(chk: core.Check) -> int:
    chk.coverage["rule"] = ("evaluations = Lean<->numba kernel calls on table elements plus elements pushed through the public "
                            "functions (array, scalar, awkward) and judged by the documented numbering; distinct = distinct checks")
    return common_main(chk, oracle, "documented EMC ring sizes hand-copied into tools/checks/c08.py")
