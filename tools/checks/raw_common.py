"""Shared harness for the raw-data properties C03, C04, C10, C15."""
from __future__ import annotations

import json
import os
import random
import tempfile
from pathlib import Path

import numpy as np

from lib import core, native, rawfile as rf
from translate import gen

SEL_CHOICES = [None, ["mdc"], ["emc", "trg"], ["mdc", "tof", "emc", "muc", "trg", "ef"], ["muc", "ef"], ["tof"]]


def lean_parse(buffers):
    """buffers: list of (words, sel_mask) -> list of ('ok', dict) | ('err', name) | ('oob',) | ('fuel',)"""
    text = "".join(f"{m} " + " ".join(map(str, w)) + "\n" for w, m in buffers)
    out = core.lean_run("Driver/Raw.lean", text)
    res = []
    for l in out:
        if l.startswith("OK "):
            res.append(("ok", json.loads(l[3:])))
        elif l.startswith("ERR"):
            res.append(("err", l[4:]))
        elif l == "OOB":
            res.append(("oob",))
        elif l == "FUEL":
            res.append(("fuel",))
        else:
            res.append(("bad", l))
    return res


def canon_native(r):
    d = {}
    for k, v in r.items():
        if k == "evt_header":
            d[k] = v
        else:
            x = {"offsets": v["offsets"]}
            if isinstance(v["data"], dict):
                x.update(v["data"])
            else:
                x["data"] = v["data"]
            d[k] = x
    return {k: d[k] for k in sorted(d)}


def canon_model(d):
    return {k: d[k] for k in sorted(d)}


def expected_to_columns(exp, sel):
    """rawfile.expected records -> the canonical column dict (same shape as canon_native)"""
    sel = sel or rf.DEFAULT_SEL
    out = {"evt_header": {n: [r["evt_header"][n] for r in exp] for n in rf.HDR_NAMES}}
    cols = {"mdc": ["id", "tdc", "adc", "overflow"], "tof": ["id", "tdc", "adc", "overflow"], "emc": ["id", "tdc", "adc", "measure"], "muc": ["id", "fec"]}
    for s in sel:
        offs = [0]
        for r in exp:
            offs.append(offs[-1] + len(r[s]))
        if s in cols:
            d = {"offsets": offs}
            for c in cols[s]:
                d[c] = [row[c] for r in exp for row in r[s]]
        else:
            d = {"offsets": offs, "data": [w for r in exp for w in r[s]]}
        out[s] = d
    return {k: out[k] for k in sorted(out)}


def same_columns(a, b):
    """compare canonical dicts ignoring the key order inside a detector"""
    if sorted(a) != sorted(b):
        return False
    for k in a:
        if isinstance(a[k], dict):
            if {x: list(map(int, y)) for x, y in a[k].items()} != {x: list(map(int, y)) for x, y in b[k].items()}:
                return False
    return True


def ak_to_records(arr, sel):
    sel = sel or rf.DEFAULT_SEL
    out = []
    for rec in arr.tolist():
        r = {"evt_header": rec["evt_header"]}
        for s in sel:
            r[s] = rec[s]
        out.append(r)
    return out


class NativeBackedReader:
    """context manager: pybes3.besio.raw_io.read_bes_raw := the natively compiled working-tree parser"""

    def __init__(self, wrapper=None):
        self.wrapper = wrapper

    def __enter__(self):
        import pybes3.besio.raw_io as rio
        self.rio = rio
        self.orig = rio.read_bes_raw
        fn = native.native_read_bes_raw
        rio.read_bes_raw = self.wrapper(fn) if self.wrapper else fn
        return self

    def __exit__(self, *a):
        self.rio.read_bes_raw = self.orig


def write_tmp(data: bytes) -> str:
    fd, path = tempfile.mkstemp(suffix=".raw", prefix="verif-")
    os.write(fd, data)
    os.close(fd)
    return path


def regen(chk: core.Check, python_side=True):
    g = gen.gen_raw_consts()
    if not g["ok"]:
        chk.obligation_broken("translator", "extract constants/masks from raw_io.hh / raw_io.cc", g["error"])
    g3 = gen.gen_rawcpp()
    if not g3["ok"]:
        chk.obligation_broken("translator", "translate the functions of RawBinaryParser (raw_io.cc / raw_io.hh) into Gen/RawCpp.lean", g3["error"])
    else:
        chk.coverage["rawcpp_translation"] = {k: (v if len(str(v)) < 200 else str(v)[:200]) for k, v in g3["info"].items()} if isinstance(g3["info"], dict) else str(g3["info"])[:300]
    if not python_side:
        return g["ok"]
    g2 = gen.gen_rawpy()
    if not g2["ok"]:
        chk.obligation_broken("translator", "translate raw_io.py (framing, batch step, arrays loop, concatenate) into Gen/RawPy.lean", g2["error"])
    else:
        chk.coverage["rawpy_translation"] = {k: (v if len(str(v)) < 200 else str(v)[:200]) for k, v in g2["info"].items()} if isinstance(g2["info"], dict) else str(g2["info"])[:300]
    return g["ok"]
