"""C09 — geometry lookups agree with the published tables and with each other (DESIGN.md section 6/C09).

model  : Gen/Mdc.lean, Gen/Emc.lean (accessor kernels), Gen/{Mdc,Emc}Tables.lean (npz columns + loader globals, floats as
         exact IEEE bit patterns), Model/TableState.lean (hand-out / write / lookup histories)
proof  : Props/C09.lean (accessor = published row; ends differ in z; stereo sign = exact cross product; uniform per layer;
         superlayer agreement; on-line over the reals; private copies over all histories)
tie    : differential pass of every accessor on every element (Lean kernels <-> numba); history harness on the real module in a
         child process with a private numba cache dir
oracle : exact-arithmetic recomputation from the npz read directly (rows, line, mid point, stereo sign, centroids)
"""
from __future__ import annotations

import json
import os
import shutil
import subprocess
import tempfile
from fractions import Fraction

import numpy as np

from checks import c08
from lib import core
from translate import gen


def oracle(chk: core.Check, thorough: bool):
    import pybes3
    import pybes3.detectors as det
    gdir = core.SRC / "detectors" / "geometry"
    m = dict(np.load(gdir / "mdc_geom.npz"))
    e = dict(np.load(gdir / "emc_geom.npz"))
    G = np.arange(len(m["gid"]))
    C = np.arange(len(e["gid"]))

    def eq(what, got, want, idx_name="gid", orc="exactly the row of the published position table"):
        got, want = np.asarray(got), np.asarray(want)
        chk.count(int(want.size), key=what)
        ok = got.shape == want.shape and np.array_equal(got.astype(np.float64), want.astype(np.float64))
        if not ok:
            i = int(np.nonzero(got.astype(np.float64) != want.astype(np.float64))[0][0]) if got.shape == want.shape else 0
            chk.failing_input(what, {idx_name: i}, float(got.ravel()[i]) if got.size > i else str(got.shape), float(want.ravel()[i]), orc)
        return ok

    for k in ["superlayer", "layer", "wire", "stereo", "is_stereo", "west_x", "west_y", "west_z", "east_x", "east_y", "east_z"]:
        eq("mdc_gid_to_" + k, getattr(det, "mdc_gid_to_" + k)(G), m[k])
    for k in ["part", "theta", "phi", "center_x", "center_y", "center_z", "front_center_x", "front_center_y", "front_center_z"]:
        eq("emc_gid_to_" + k, getattr(det, "emc_gid_to_" + k)(C), e[k])
    for ax in "xyz":
        for p in range(8):
            eq(f"emc_gid_to_point_{ax}(gid, {p})", getattr(det, "emc_gid_to_point_" + ax)(C, np.full(len(C), p)), e["points_" + ax][:, p])
    # parse_* with positions
    pm = det.parse_mdc_gid(G, with_pos=True)
    eq("parse_mdc_gid.mid_x", pm["mid_x"], (m["west_x"] + m["east_x"]) / 2, orc="the mid point is the mean of the two end points")
    eq("parse_mdc_gid.mid_y", pm["mid_y"], (m["west_y"] + m["east_y"]) / 2, orc="the mid point is the mean of the two end points")
    for k in ["west_x", "west_z", "east_y", "stereo", "superlayer"]:
        eq("parse_mdc_gid." + k, pm[k], m[k])
    pe = det.parse_emc_gid(C, with_pos=True)
    for k in ["center_x", "center_z", "front_center_y"]:
        eq("parse_emc_gid." + k, pe[k], e[k])
    # position at any z lies on the line through the end points (inside and outside the span)
    wz, ez = m["west_z"], m["east_z"]
    zs = [wz, ez, (wz + ez) / 2, wz - 50.0, ez + 200.0, np.full(len(G), 0.0), np.full(len(G), 115.4), np.full(len(G), -1000.0), wz + 0.37 * (ez - wz)]
    for z in zs:
        t = (z - wz) / (ez - wz)
        for ax in "xy":
            got = getattr(det, f"mdc_gid_z_to_{ax}")(G, z)
            want = (1 - t) * m["west_" + ax] + t * m["east_" + ax]
            chk.count(len(G), key=f"line-{ax}")
            bad = np.abs(np.asarray(got) - want) > 1e-9 * (1 + np.abs(t))
            if bad.any():
                i = int(np.nonzero(bad)[0][0])
                chk.failing_input(f"mdc_gid_z_to_{ax}", {"gid": i, "z": float(z[i])}, float(got[i]), float(want[i]), "a wire's position at any z lies on the straight line through its two end points")
                break
    # stereo sign vs exact cross product (rational arithmetic), uniformity, flag
    wx, wy, ex, ey = (m[k] for k in ("west_x", "west_y", "east_x", "east_y"))
    step = 1 if thorough else 5
    for g in list(range(0, len(G), step)) + [20, 21, 22, 23, 63, 64, 65]:
        cr = Fraction(float(wx[g])) * Fraction(float(ey[g])) - Fraction(float(wy[g])) * Fraction(float(ex[g]))
        want = 0 if cr == 0 else (-1 if cr > 0 else 1)
        got = int(det.mdc_gid_to_stereo(int(g)))
        chk.count(1, key="stereo-sign")
        if got != want or bool(det.mdc_gid_to_is_stereo(int(g))) != (want != 0):
            chk.failing_input("mdc_gid_to_stereo / is_stereo", {"gid": int(g), "west": [float(wx[g]), float(wy[g])], "east": [float(ex[g]), float(ey[g])]}, [got, bool(det.mdc_gid_to_is_stereo(int(g)))], [want, want != 0],
                              "stereo sign and flag agree with the actual azimuthal twist between the wire ends (-1: phi_west < phi_east)")
            break
    st = np.asarray(det.mdc_gid_to_stereo(G)); fl = np.asarray(det.mdc_gid_to_is_stereo(G)); ly = np.asarray(det.mdc_gid_to_layer(G))
    for l in range(43):
        sel = ly == l
        chk.count(1, key="layer-uniform")
        if len(set(st[sel].tolist())) != 1 or len(set(fl[sel].tolist())) != 1 or bool(det.mdc_layer_to_is_stereo(l)) != bool(fl[sel][0]):
            chk.failing_input("stereo class within a layer", {"layer": l}, sorted(set(st[sel].tolist())), "one value, equal to mdc_layer_to_is_stereo(layer)", "stereo sign and flag are uniform within a layer")
            break
    eq("mdc_layer_to_superlayer(layer) vs mdc_gid_to_superlayer(gid)", det.mdc_layer_to_superlayer(ly), det.mdc_gid_to_superlayer(G), orc="superlayer-by-layer equals superlayer-by-wire")
    # barrel centroids, exact rational arithmetic
    barrel = np.nonzero(e["part"] == 1)[0]
    sel = barrel if thorough else barrel[::7]
    tol = Fraction(1, 10**9)
    for ax in "xyz":
        P = e["points_" + ax]
        for g in sel:
            corners = [Fraction(float(v)) for v in P[g]]
            c = Fraction(float(getattr(det, "emc_gid_to_center_" + ax)(int(g))))
            f = Fraction(float(getattr(det, "emc_gid_to_front_center_" + ax)(int(g))))
            chk.count(1, key=f"centroid-{ax}")
            if abs(c - sum(corners) / 8) > tol or abs(f - sum(corners[:4]) / 4) > tol:
                chk.failing_input(f"barrel crystal centre / front centre ({ax})", {"gid": int(g)}, [float(c), float(f)], [float(sum(corners) / 8), float(sum(corners[:4]) / 4)], "a barrel crystal's centre and front centre are the centroids of its corner points")
                break


FIRST_CALL = r"""
import sys, json
import numpy as np
import pybes3
import pybes3.detectors.geometry.mdc as mdc
gdir = __import__("pathlib").Path(mdc.__file__).parent
m = dict(np.load(gdir / "mdc_geom.npz")); e = dict(np.load(gdir / "emc_geom.npz"))
name = sys.argv[1]
G = np.arange(len(m["gid"])); C = np.arange(len(e["gid"])); L = np.arange(43)
first_of_layer = np.searchsorted(m["layer"], L)
cases = {
    "mdc_layer_to_is_stereo": (lambda: pybes3.mdc_layer_to_is_stereo(L.astype(np.int32)), m["is_stereo"][first_of_layer].astype(bool)),
    "mdc_layer_to_superlayer": (lambda: pybes3.mdc_layer_to_superlayer(L), m["superlayer"][first_of_layer]),
    "get_mdc_gid": (lambda: pybes3.get_mdc_gid(m["layer"], m["wire"]), m["gid"]),
    "get_emc_gid": (lambda: pybes3.get_emc_gid(e["part"], e["theta"], e["phi"]), e["gid"]),
    "mdc_gid_z_to_x": (lambda: pybes3.mdc_gid_z_to_x(G, m["west_z"]), m["west_x"]),
    "emc_gid_to_point_x": (lambda: pybes3.emc_gid_to_point_x(C, np.full(len(C), 3)), e["points_x"][:, 3]),
}
for k in ["superlayer", "layer", "wire", "stereo", "is_stereo", "west_x", "west_y", "west_z", "east_x", "east_y", "east_z"]:
    cases["mdc_gid_to_" + k] = ((lambda k=k: getattr(pybes3, "mdc_gid_to_" + k)(G)), m[k])
for k in ["part", "theta", "phi", "center_x", "center_y", "center_z", "front_center_x", "front_center_y", "front_center_z"]:
    cases["emc_gid_to_" + k] = ((lambda k=k: getattr(pybes3, "emc_gid_to_" + k)(C)), e[k])
f, want = cases[name]
got = np.asarray(f())                                  # the FIRST geometry call of this process
bad = np.nonzero(np.asarray(got).astype(np.float64) != np.asarray(want).astype(np.float64))[0]
print(json.dumps({"function": name, "n": int(len(want)), "n_bad": int(len(bad)), "first_bad": (int(bad[0]) if len(bad) else None),
                  "got": (float(got[bad[0]]) if len(bad) else None), "want": (float(np.asarray(want)[bad[0]]) if len(bad) else None)}))
"""


def first_calls(chk: core.Check, thorough: bool):
    """call order: in a fresh process with an empty private numba cache the FIRST geometry call is each function in turn (a kernel compiled
    before the tables are loaded would freeze placeholders); the result must be the published values"""
    from concurrent.futures import ThreadPoolExecutor
    names = ["mdc_layer_to_is_stereo", "mdc_layer_to_superlayer", "get_mdc_gid", "get_emc_gid", "mdc_gid_z_to_x", "emc_gid_to_point_x"]
    if thorough:
        names += ["mdc_gid_to_" + k for k in ["superlayer", "layer", "wire", "stereo", "is_stereo", "west_x", "east_z"]] + ["emc_gid_to_" + k for k in ["part", "theta", "phi", "center_x", "front_center_z"]]
    else:
        rng = __import__("random").Random(f"C09-first-{chk.seed}")
        names += rng.sample(["mdc_gid_to_" + k for k in ["superlayer", "layer", "wire", "stereo", "is_stereo", "west_x", "east_z"]] + ["emc_gid_to_" + k for k in ["part", "theta", "phi", "center_x", "front_center_z"]], 2)

    def one(name):
        cache = tempfile.mkdtemp(prefix="c09-first-")
        try:
            p = subprocess.run([core.PY, "-c", FIRST_CALL, name], capture_output=True, text=True, timeout=900, env=dict(os.environ, NUMBA_CACHE_DIR=cache))
            if p.returncode != 0:
                return {"function": name, "error": p.stderr[-600:]}
            return json.loads(p.stdout.strip().splitlines()[-1])
        finally:
            shutil.rmtree(cache, ignore_errors=True)
    with ThreadPoolExecutor(max_workers=4) as ex:
        results = list(ex.map(one, names))
    for r in results:
        chk.count(r.get("n", 1), key=f"first-call-{r['function']}")
        if r.get("error"):
            chk.failing_input("first geometry call of a fresh process", {"function": r["function"]}, r["error"], "the published values", "every per-element lookup returns exactly the row of the published table")
            return
        if r["n_bad"]:
            chk.failing_input("first geometry call of a fresh process (empty numba cache)", {"function": r["function"], "first_differing_element": r["first_bad"], "elements_differing": r["n_bad"]}, r["got"], r["want"],
                              "every per-element lookup returns exactly the row of the published table for that element, whatever was called before")
            return


def histories(chk: core.Check, what="lookup after the caller modified a handed-out table",
              clause="tables handed to the caller are private copies: modifying them never changes later lookups"):
    cache = tempfile.mkdtemp(prefix="c09-nbcache-")
    try:
        env = dict(os.environ, NUMBA_CACHE_DIR=cache)
        p = subprocess.run([core.PY, str(core.VERIF / "tools" / "checks" / "c09_history.py")], capture_output=True, text=True, timeout=1500, env=env)
        if p.returncode != 0:
            chk.obligation_broken("correspondence", "history harness crashed", p.stderr[-2500:])
            return
        out = json.loads(p.stdout.strip().splitlines()[-1])
        chk.count(out["steps"], key="histories")
        chk.coverage["history_steps"] = out["steps"]
        for f in out["failures"][:2]:
            chk.failing_input(what, {"history": f["history"], "lookup": f["lookup"], "element": f["element"]}, f["got"], f["published"], clause)
    finally:
        shutil.rmtree(cache, ignore_errors=True)


def main(chk: core.Check) -> int:
    thorough = chk.tier == "thorough"
    chk.coverage["rule"] = "evaluations = table elements pushed through the real accessors and judged against the npz read directly (exact arithmetic), z sweep, history steps; distinct = check classes"
    chk.assumptions += ["numba freezing the arrays into compiled kernels is C17's subject; here kernels are compiled in a child process with a private cache directory",
                        "the centroid statement is a Lean theorem (Props/C09b.lean: fixed-point kernel evaluation over all 6240 crystals x 3 axes + a soundness proof over Q); the harness repeats it in exact rational arithmetic on the values the real lookups return",
                        "numba table lookups are modelled only for in-range indices"]
    g = gen.gen_geom()
    if not g["ok"]:
        chk.obligation_broken("translator", "regenerate geometry models", g["error"])
    else:
        g4 = gen.gen_geompy()
        if not g4["ok"]:
            chk.obligation_broken("translator", "translate the table getters / loaders / accessor wiring of geometry/mdc.py, emc.py into Gen/GeomPy.lean", g4["error"])
        _entry = ["EntryTie"] if core.regen_entry(chk) else []
        chk.prove(modules=["C09", "C09b", "GeomTie"] + _entry)
        try:
            diffs = c08.correspond(chk, g["info"], thorough)
            chk.coverage["traces_validated_against_impl"] = chk.evals
            if diffs:
                chk.obligation_broken("correspondence", "Lean accessor kernel vs numba kernel", str(diffs[:5]))
        except core.DriverError as ex:
            chk.obligation_broken("correspondence", "Lean kernel driver", str(ex))
    try:
        oracle(chk, thorough)
        histories(chk)
        if not chk.failing:
            first_calls(chk, thorough)
        if not chk.failing:
            # histories at the level of one element (a record handed out, edited by the caller, the same lookup again) and the wire position at z for
            # z given as a Python number, a float array or an integer-typed array with negative values (both shared with C14)
            from checks import c14
            c14.scalar_record_histories(chk, clause="every per-element lookup returns exactly the row of the published position table, whatever the caller did with what it was handed before")
        if not chk.failing:
            from checks import c14
            c14.float_arguments(chk)
    except Exception as ex:
        import traceback
        chk.obligation_broken("correspondence", "oracle run on implementation", f"{type(ex).__name__}: {ex}\n{traceback.format_exc()[-1500:]}")
    return chk.finish(None)
