"""C01 — ROOT object collections are decoded exactly as stored (DESIGN.md section 6/C01).

model  : Model/TObjArray.lean (BinaryBuffer primitives, Bes3TObjArrayReader, Bes3CgemClusterColReader, per-entry loop,
         process_digi_subbranch) ; Spec/RootStream.lean (encoders with the header variants the format allows)
proof  : Props/C01.lean (readTObjArray_encode for every element codec / object list / header variant; readEntries_encode;
         processDigi_fields)
tie    : synthetic streams, three-way: Lean driver <-> native build of the working-tree root_io.hh (own element readers)
         <-> installed extension through uproot_custom (stock element readers); real fixtures in framing mode (the model skips
         each object body by its own byte count and must reproduce the per-event counts and land on every entry boundary);
         processDigi vs the real process_digi_subbranch on real digi arrays
oracle : uproot's own member-wise deserialisation (AsObjects(Model_TObjArray), obtained in a child process that never imports
         pybes3) compared leaf by leaf per object; encoded values of the synthetic streams
"""
from __future__ import annotations

import json
import os
import random
import subprocess
import tempfile

import numpy as np

from lib import core, native, rootstream as rs

FIXTURES = ["test_full_mc_evt_1.rtraw", "test_full_mc_evt_1.dst", "test_full_mc_evt_1.rec", "test_full_mc_evt_2.rtraw", "test_cgem.rtraw",
            "test_cgem.dst", "test_cgem.rec", "test_mrpc.rtraw", "test_only_mc_particles.rtraw"]


def run_native(lines):
    exe = native.build("root_driver")
    p = subprocess.run([str(exe)], input="\n".join(lines) + "\n", capture_output=True, text=True, timeout=900, env=dict(os.environ, ASAN_OPTIONS="detect_leaks=0"))
    return p.stdout.splitlines(), (p.stderr[-1500:] if p.returncode != 0 else None)


INSTALLED_CHILD = r'''
import sys, json, numpy as np
import pybes3.besio.besio_cpp as bcpp
import uproot_custom.cpp as uc
LEAF = {"b": uc.UInt8Reader, "h": uc.UInt16Reader, "i": uc.UInt32Reader, "f": uc.UInt32Reader, "l": uc.UInt64Reader, "d": uc.UInt64Reader}
def rd(k):
    if k[0] in LEAF: return LEAF[k[0]]("m")
    if k[0] == "T": return uc.TObjectReader("TObject", False)
    if k[0] == "A":
        if k[2][0] not in LEAF: raise NotImplementedError
        return uc.CStyleArrayReader("arr", k[1], rd(k[2]))
    return uc.AnyClassReader("cls", [rd(m) for m in k[1]])
cases = json.load(open(sys.argv[1]))
out = []
for kind, entries_hex, counts in cases:
    try:
        elem = rd(kind)
    except NotImplementedError:
        out.append(None); continue
    r = bcpp.Bes3TObjArrayReader("col", elem)
    data = np.frombuffer(bytes.fromhex("".join(entries_hex)), dtype=np.uint8)
    offs = np.concatenate([[0], np.cumsum([len(x) // 2 for x in entries_hex])]).astype(np.uint32)
    try:
        offsets, _ = uc.read_data(data, offs, r)
        out.append([int(x) for x in offsets])
    except Exception as ex:
        out.append("ERROR " + str(ex)[:100])
print(json.dumps(out))
'''


def synthetic(chk: core.Check, n_streams: int):
    rng = random.Random(f"C01-{chk.seed}")
    cases = []
    for _ in range(n_streams):
        kind, entries, counts, leaves = rs.gen_stream(rng)
        cases.append(("ok", kind, entries, counts, leaves))
        if entries and rng.random() < 0.25:
            bad, mode = rs.malform(entries, rng)
            cases.append((mode, kind, bad, None, None))
    lines = [f"TOA {rs.spec_str(k)} {len(e)} " + " ".join(str(len(x)) for x in e) + " " + (b"".join(e).hex() or "00") for _, k, e, _, _ in cases]
    nout, crash = run_native(lines)
    try:
        mout = core.lean_run("Driver/Root.lean", "\n".join(lines) + "\n")
    except core.DriverError as ex:
        chk.obligation_broken("correspondence", "Root driver", str(ex)); mout = None
    if crash is not None and len(nout) < len(lines):
        k = len(nout)
        chk.failing_input("Bes3TObjArrayReader (ASan build of the working tree) crashed on a stream", {"kind": rs.spec_str(cases[k][1]), "entries": [x.hex() for x in cases[k][2]][:5]}, crash[-300:], "offsets and values or an exception", "well-formed / malformed streams are decoded or rejected")
        return
    diffs = []
    for idx, ((tag, kind, entries, counts, leaves), nl) in enumerate(zip(cases, nout)):
        chk.count(1, key=idx)
        chk.hist("stream_kind", tag)
        chk.hist("events", len(entries))
        if tag == "ok":
            want_off = np.concatenate([[0], np.cumsum(counts)]).astype(int).tolist()
            want = "OK offsets=" + ",".join(map(str, want_off)) + " values=" + ",".join(map(str, leaves))
            if nl.strip() != want.strip():
                chk.failing_input("Bes3TObjArrayReader (native build of the working tree) on a well-formed synthetic stream",
                                  {"element_class": rs.spec_str(kind), "per_event_counts": counts, "entries_hex": [x.hex() for x in entries][:6]}, nl[:600], want[:600],
                                  "same number of objects per event, same order, every member the encoded value")
                return
        else:
            if not nl.startswith("ERROR"):
                # a malformed stream that happens to decode is only a problem if the model rejects it (mis-framing)
                pass
        if mout is not None and mout[idx].strip() != nl.strip() and not (mout[idx].startswith("ERROR") and nl.startswith("ERROR")):
            diffs.append({"stream": idx, "tag": tag, "kind": rs.spec_str(kind), "model": mout[idx][:120], "native": nl[:120]})
    if diffs:
        chk.obligation_broken("correspondence", "Lean TObjArray model vs native reader on synthetic streams", str(diffs[:3]))
    # installed extension with the stock element readers (third leg), on a subset, in a sacrificial child process
    try:
        sub = [(kind, [x.hex() for x in entries], counts) for tag, kind, entries, counts, leaves in cases[:: 3] if tag == "ok" and entries]
        fd, pth = tempfile.mkstemp(suffix=".json"); os.close(fd)
        json.dump(sub, open(pth, "w"))
        r = subprocess.run([core.PY, "-c", INSTALLED_CHILD, pth], capture_output=True, text=True, timeout=600)
        os.unlink(pth)
        if r.returncode != 0:
            chk.coverage["installed_extension_streams"] = f"child exited with {r.returncode}: {r.stderr[-200:]}"
        else:
            res = json.loads(r.stdout.strip().splitlines()[-1])
            n_inst = 0
            for (kind, eh, counts), got in zip(sub, res):
                if got is None:
                    continue
                n_inst += 1
                want = np.concatenate([[0], np.cumsum(counts)]).astype(int).tolist()
                if got != want:
                    chk.obligation_broken("correspondence", "installed Bes3TObjArrayReader (stock element readers) offsets on a synthetic stream", f"{rs.spec_str(kind)}: {str(got)[:200]} vs {want}")
                    break
            chk.coverage["installed_extension_streams"] = n_inst
    except Exception as ex:
        chk.coverage["installed_extension_streams"] = f"not run: {type(ex).__name__}: {ex}"
    chk.sample({"element_class": rs.spec_str(cases[0][1]), "per_event_counts": cases[0][3], "first_entry_hex": (cases[0][2][0].hex()[:120] if cases[0][2] else "")})


ORACLE_CHILD = r'''
import sys, json, uproot, numpy as np
assert "pybes3" not in sys.modules
path, out = sys.argv[1], sys.argv[2]

def conv(o, depth=0):
    if depth > 12:
        return None
    if isinstance(o, uproot.model.UnknownClass):
        raise NotImplementedError("uproot cannot deserialise " + o.classname)
    if isinstance(o, uproot.model.Model):
        if o.classname in ("TObjArray", "TList") or type(o).__name__.startswith("Model_TObjArray"):
            return [conv(x, depth + 1) for x in o]
        if o.classname == "TString" or type(o).__name__.startswith("Model_TString"):
            return None
        d = {}
        for k, v in o.all_members.items():
            if k.startswith("@") or k in ("fUniqueID", "fBits"):
                continue
            d[k] = conv(v, depth + 1)
        return d
    if isinstance(o, np.ndarray):
        return [conv(x, depth + 1) for x in o] if o.dtype == object else o.tolist()
    if isinstance(o, np.generic):
        return o.item()
    if isinstance(o, (str, bytes)):
        return None
    if isinstance(o, uproot.containers.STLMap):
        return {"__map__": [[conv(k, depth + 1), conv(v, depth + 1)] for k, v in o.items()]}
    if isinstance(o, (uproot.containers.STLVector, uproot.containers.STLSet, list, tuple)):
        return [conv(x, depth + 1) for x in o]
    if isinstance(o, dict):
        return {str(k): conv(v, depth + 1) for k, v in o.items()}
    return o

res = {}
f = uproot.open(path)
tree = f["Event"]
for name in json.loads(sys.argv[3]):
    try:
        arr = tree[name].array(library="np")
        res[name] = [conv(ev) for ev in arr]
    except Exception as ex:
        res[name] = {"__error__": f"{type(ex).__name__}: {str(ex)[:200]}"}
json.dump(res, open(out, "w"), default=lambda o: o.tolist() if hasattr(o, "tolist") else str(o))
'''


def leaves_of(x, out):
    """numeric leaves in field order; strings and None skipped"""
    if isinstance(x, dict):
        for k, v in x.items():
            if k.startswith("@"):
                continue
            leaves_of(v, out)
    elif isinstance(x, (list, tuple)):
        for v in x:
            leaves_of(v, out)
    elif isinstance(x, bool):
        out.append(float(x))
    elif isinstance(x, (int, float)):
        out.append(float(x))


def expand_packed(obj_native, obj_pybes3):
    """where pybes3 expanded a packed symmetric matrix (n x n from n(n+1)/2 values) re-pack it for comparison"""
    if isinstance(obj_pybes3, dict) and isinstance(obj_native, dict):
        out = {}
        for k, v in obj_pybes3.items():
            nv = obj_native.get(k)
            if isinstance(v, list) and v and isinstance(v[0], list) and isinstance(nv, list) and nv and not isinstance(nv[0], list) and len(v) * (len(v) + 1) // 2 == len(nv) and len(v) == len(v[0]):
                n = len(v)
                out[k] = [v[i][j] for i in range(n) for j in range(i + 1)]
            else:
                out[k] = v
        return out
    return obj_pybes3


def fixtures(chk: core.Check, thorough: bool):
    import awkward as ak
    import uproot
    import pybes3.besio.root_io as rio
    frame_lines, frame_meta = [], []
    n_oracle_ok, n_oracle_skip = 0, []
    files = FIXTURES if thorough else FIXTURES[:3] + ["test_cgem.rec"]
    tmpd = tempfile.mkdtemp(prefix="c01-")
    try:
        for fn in files:
            p = core.REPO / "tests" / "data" / fn
            if not p.exists():
                continue
            with uproot.open(p) as f:
                tree = f["Event"]
                names = [k for k in tree.keys(recursive=True) if isinstance(tree[k].interpretation, rio.Bes3Interpretation)]
                decoded = {}
                for name in names:
                    br = tree[name]
                    arr = br.array()
                    decoded[name] = arr
                    if br.num_baskets >= 1 and rio.bes3_branch2types.get(rio.regularize_object_path(br.object_path), "").startswith("T") and "m_recCgemClusterCol" not in name:
                        b = br.basket(0)
                        data, bo = np.asarray(b.data), np.asarray(b.byte_offsets)
                        lens = np.diff(bo)
                        frame_lines.append(f"FRAME {len(lens)} " + " ".join(map(str, lens)) + " " + (bytes(data[bo[0]:bo[-1]]).hex() or "00"))
                        frame_meta.append((fn, name, ak.num(arr, axis=1).tolist()))
                    # digi post-processing vs model
                    if "TDigiEvent" in name and arr.fields:
                        raw_fields = None
                # oracle child (no pybes3)
                outp = os.path.join(tmpd, fn + ".json")
                r = subprocess.run([core.PY, "-c", ORACLE_CHILD, str(p), outp, json.dumps(names)], capture_output=True, text=True, timeout=900)
                if r.returncode != 0:
                    chk.coverage.setdefault("oracle_unavailable", []).append(f"{fn}: child failed {r.stderr[-200:]}")
                    continue
                nat = json.load(open(outp))
                for name in names:
                    nv = nat.get(name)
                    if isinstance(nv, dict) and "__error__" in nv:
                        n_oracle_skip.append(f"{fn}:{name}: {nv['__error__'][:80]}")
                        continue
                    pv = ak.to_list(decoded[name])
                    if len(nv) != len(pv):
                        chk.failing_input("number of events", {"file": fn, "branch": name}, len(pv), len(nv), "independent member-wise deserialisation (uproot AsObjects)")
                        return
                    for ev, (ne, pe) in enumerate(zip(nv, pv)):
                        if isinstance(ne, dict):     # map<int,int> etc.
                            a, b = [], []
                            leaves_of(ne, a); leaves_of(pe, b)
                            if sorted(a) != sorted(b):
                                chk.failing_input("map branch content", {"file": fn, "branch": name, "event": ev}, b[:20], a[:20], "independent deserialisation")
                                return
                            continue
                        if len(ne) != len(pe):
                            chk.failing_input("number of objects in an event", {"file": fn, "branch": name, "event": ev}, len(pe), len(ne), "the same number of objects per event as the member-wise deserialisation following the file's streamer information")
                            return
                        for oi, (no, po) in enumerate(zip(ne, pe)):
                            a, b = [], []
                            leaves_of(no, a)
                            leaves_of(expand_packed(no, po), b)
                            chk.count(1, key=None)
                            same = len(a) == len(b) and all((x == y) or (x != x and y != y) for x, y in zip(a, b))
                            if not same and sorted(map(repr, a)) == sorted(map(repr, b)):
                                same = True       # member order differs between the two decoders (base-class placement): compare as multisets
                            if not same:
                                chk.failing_input("member values of an object", {"file": fn, "branch": name, "event": ev, "object": oi}, b[:40], a[:40],
                                                  "for every data member the same value as a member-by-member deserialisation of the same bytes that follows the file's own streamer information")
                                return
                    n_oracle_ok += 1
                    chk.distinct.add(f"oracle-{fn}-{name}")
    finally:
        import shutil
        shutil.rmtree(tmpd, ignore_errors=True)
    chk.coverage["oracle_branches_compared"] = n_oracle_ok
    chk.coverage["oracle_unavailable_branches"] = n_oracle_skip[:30]
    # framing mode through the Lean model
    if frame_lines:
        try:
            out = core.lean_run("Driver/Root.lean", "\n".join(frame_lines) + "\n")
            bad = []
            for (fn, name, counts), ml in zip(frame_meta, out):
                chk.count(len(counts), key=f"frame-{fn}-{name}")
                want = "OK counts=" + ",".join(map(str, counts))
                if ml.strip() != want:
                    bad.append({"file": fn, "branch": name, "model": ml[:100], "implementation_counts": counts})
            chk.coverage["fixture_branches_framed_by_model"] = len(frame_lines)
            if bad:
                chk.obligation_broken("correspondence", "Lean TObjArray model (framing mode) vs the reader's per-event counts on real baskets", str(bad[:3]))
        except core.DriverError as ex:
            chk.obligation_broken("correspondence", "Root driver (framing)", str(ex))


def digi(chk: core.Check):
    """process_digi_subbranch: fields of TRawData lifted in place, same columns; Lean processDigi on the same field lists"""
    import awkward as ak
    import pybes3.besio.root_io as rio
    rng = random.Random(f"C01-digi-{chk.seed}")
    lines, cases = [], []
    for _ in range(40):
        names = rng.sample(["m_a", "m_b", "m_c", "m_overflow", "m_measure", "m_x"], rng.randint(0, 3))
        sub = rng.sample(["m_intId", "m_timeChannel", "m_chargeChannel", "m_trackIndex"], rng.randint(1, 4))
        pos = rng.randint(0, len(names))
        fields = names[:pos] + ["TRawData"] + names[pos:]
        n = rng.choice([1, 2, 3])
        counts = [rng.choice([0, 1, 2]) for _ in range(n)]
        tot = sum(counts)
        col = {}
        for f_ in fields:
            if f_ == "TRawData":
                col[f_] = ak.unflatten(ak.zip({s: np.arange(tot) * 10 + i for i, s in enumerate(sub)}), counts)
            else:
                col[f_] = ak.unflatten(ak.Array(np.arange(tot) * 100 + len(f_)), counts)
        arr = ak.zip(col, depth_limit=2) if n else ak.zip(col, depth_limit=2)
        got = rio.process_digi_subbranch(arr)
        want_fields = names[:pos] + sub + names[pos:]
        chk.count(1, key=f"digi-{fields}-{sub}")
        ok = got.fields == want_fields and all(ak.to_list(got[s]) == ak.to_list(arr["TRawData"][s]) for s in sub) and all(ak.to_list(got[f_]) == ak.to_list(arr[f_]) for f_ in names)
        if not ok:
            chk.failing_input("process_digi_subbranch", {"fields": fields, "TRawData_fields": sub, "per_event_counts": counts}, {"fields": got.fields}, {"fields": want_fields},
                              "digi collections expose the members of their raw-data base class at top level with unchanged values; nothing lost, duplicated or shifted")
            return
        lines.append("DIGI " + " ".join(f if f != "TRawData" else "TRawData(" + ",".join(sub) + ")" for f in fields))
        cases.append(want_fields)
    try:
        out = core.lean_run("Driver/Root.lean", "\n".join(lines) + "\n")
        bad = [(l, o) for l, o, w in zip(lines, out, cases) if o.split() != w]
        if bad:
            chk.obligation_broken("correspondence", "Lean processDigi vs process_digi_subbranch field lists", str(bad[:2]))
    except core.DriverError as ex:
        chk.obligation_broken("correspondence", "Root driver (DIGI)", str(ex))


def wiring(chk: core.Check):
    import pybes3.besio.root_io as rio
    keys = list(rio.bes3_branch2types)
    if len(set(keys)) != len(keys):
        chk.failing_input("bes3_branch2types keys", {}, "duplicates", "distinct", "registered branches are distinct")
    if not (rio.Bes3CgemClusterColFactory.priority() > rio.Bes3TObjArrayFactory.priority() > rio.Bes3BaseObjectFactory.priority()):
        chk.failing_input("factory priorities", {}, [rio.Bes3CgemClusterColFactory.priority(), rio.Bes3TObjArrayFactory.priority(), rio.Bes3BaseObjectFactory.priority()], "cgem > array > base", "priority order picks the BES3 array factory for listed TObjArray branches")
    chk.count(len(keys), key="wiring")


def main(chk: core.Check) -> int:
    thorough = chk.tier == "thorough"
    chk.coverage["rule"] = ("evaluations = synthetic streams (three-way) + objects of fixture branches compared leaf by leaf with uproot's own deserialisation + events framed by the model; "
                            "distinct = distinct streams / fixture branches")
    chk.assumptions += ["decompression and basket I/O, the stock uproot-custom element readers (contract: read exactly their own encoding) and awkward record construction are outside the model",
                        "the independent decoder cannot read a few branches (listed in the evidence); for those only the framing-mode model and the synthetic three-way correspondence apply",
                        "the reader assumes (as BES3 writers guarantee): empty array name, every object header carries a byte count, the array's own TObject is not referenced"]
    chk.prove()
    try:
        synthetic(chk, 1500 if thorough else 200)
        digi(chk)
        wiring(chk)
        fixtures(chk, thorough)
        chk.coverage["traces_validated_against_impl"] = chk.evals
    except native.BuildError as ex:
        chk.obligation_broken("correspondence", "native build of root_io.hh", str(ex))
    except Exception as ex:
        import traceback
        chk.obligation_broken("correspondence", "harness run on implementation", f"{type(ex).__name__}: {ex}\n{traceback.format_exc()[-1800:]}")
    return chk.finish(None)
